"""rs2v — a small Rust-to-Gallina translator for the scanner-style functions of duckscript.

It understands a deliberately small subset of Rust (enough for the hand-rolled state machines the
properties are anchored in: `let [mut]`, assignments, `+= 1` / `-= 1`, `String::push / push_str /
clear`, `if / else if / else`, `if let Some(x) = ..`, `match` on Option / Result / unit enums,
`for x in a..b`, `for c in s.chars()`, `break`, `return`, calls of other translated functions with
`&mut String` parameters, comparisons and boolean operators) and refuses everything else with
Rs2vError — it never guesses.  The result is an ordinary Gallina term built by symbolic execution of
the statement list:

  * every mutable local becomes a component of an explicit state; a loop body becomes a function
    from the state (and the loop item) to `step state` (SContinue / SBreak / SFail / SPanic);
  * every Rust operation that can unwind is explicit: `v[i]` is `nth_error` with SPanic / IPanic on
    None, `i -= 1` on usize is `usize_dec` with panic on 0;
  * `if` duplicates the continuation into both branches (the functions are small), so the output is
    a decision tree whose leaves are states / results.

The *shape* of the generated term (which record a state is packed into, how Rust constructors are
spelled) is given by a per-function configuration, so that the generated function has the same
type as the hand-written model function it is proved equal to (lib/gen/core_gen.py)."""
import re


class Rs2vError(Exception):
    pass


# ---------------------------------------------------------------------------------------------
# lexer
TOK = re.compile(r"""
    (?P<ws>\s+|//[^\n]*|/\*.*?\*/)
  | (?P<char>'(?:\\.|[^'\\])')
  | (?P<str>"(?:\\.|[^"\\])*")
  | (?P<num>\d+)
  | (?P<id>[A-Za-z_][A-Za-z0-9_]*!?)
  | (?P<op>::|->|=>|==|!=|<=|>=|&&|\|\||\+=|-=|\.\.|[{}()\[\];,.:=<>!&+\-*|])
""", re.S | re.X)

ESC = {"n": "\n", "r": "\r", "t": "\t", "\\": "\\", '"': '"', "'": "'", "0": "\0"}


def unescape(body):
    out, i = [], 0
    while i < len(body):
        c = body[i]
        if c == "\\":
            i += 1
            if body[i] not in ESC:
                raise Rs2vError("unsupported escape \\%s" % body[i])
            out.append(ESC[body[i]])
        else:
            out.append(c)
        i += 1
    return "".join(out)


def lex(src, stop_after_item=False):
    """tokenise [src]; with [stop_after_item] stop right after the first balanced `{ .. }` block (one fn item), so that
    later items of the file the lexer has no rule for (attributes, lifetimes, `?` ...) are never looked at"""
    pos, toks = 0, []
    depth, opened = 0, False
    while pos < len(src):
        if stop_after_item and opened and depth == 0:
            break
        m = TOK.match(src, pos)
        if not m:
            raise Rs2vError("cannot tokenise at: %r" % src[pos:pos + 30])
        pos = m.end()
        k = m.lastgroup
        if k == "ws":
            continue
        t = m.group(k)
        if k == "char":
            toks.append(("char", unescape(t[1:-1])))
        elif k == "str":
            toks.append(("str", unescape(t[1:-1])))
        elif k == "num":
            toks.append(("num", int(t)))
        elif k == "id":
            toks.append(("id", t))
        else:
            toks.append(("op", t))
            if t == "{":
                depth += 1
                opened = True
            elif t == "}":
                depth -= 1
    toks.append(("eof", None))
    return toks


# ---------------------------------------------------------------------------------------------
# parser (expressions with precedence climbing; blocks; statements)
class P:
    def __init__(self, toks):
        self.t, self.i = toks, 0

    def peek(self, k=0):
        return self.t[self.i + k]

    def at(self, kind, val=None):
        a = self.t[self.i]
        return a[0] == kind and (val is None or a[1] == val)

    def eat(self, kind, val=None):
        a = self.t[self.i]
        if a[0] != kind or (val is not None and a[1] != val):
            raise Rs2vError("expected %s %r, found %r" % (kind, val, a))
        self.i += 1
        return a[1]

    def opt(self, kind, val=None):
        if self.at(kind, val):
            self.i += 1
            return True
        return False

    # ---- types are skipped, not interpreted
    def skip_type(self):
        depth = 0
        while True:
            a = self.peek()
            if a[0] == "eof":
                raise Rs2vError("eof in type")
            if a[0] == "op" and a[1] in ("<", "(", "["):
                depth += 1
            elif a[0] == "op" and a[1] in (">", ")", "]"):
                if depth == 0:
                    return
                depth -= 1
            elif a[0] == "op" and a[1] in (",", "=", ";", "{") and depth == 0:
                return
            self.i += 1

    def fn(self):
        """fn name(params) [-> type] block  — returns (name, [(pname, is_mut_ref)], block)"""
        while not self.at("id", "fn"):
            self.i += 1          # pub, pub(crate) ...
        self.eat("id", "fn")
        name = self.eat("id")
        if self.opt("op", "<"):
            raise Rs2vError("generic fn %s" % name)
        self.eat("op", "(")
        params = []
        while not self.at("op", ")"):
            self.opt("id", "mut")
            pn = self.eat("id")
            self.eat("op", ":")
            mut_ref = self.at("op", "&") and self.peek(1) == ("id", "mut")
            self.skip_type()
            params.append((pn, mut_ref))
            self.opt("op", ",")
        self.eat("op", ")")
        if self.opt("op", "->"):
            self.skip_type()
        return name, params, self.block()

    def block(self):
        self.eat("op", "{")
        stmts, tail = [], None
        while not self.at("op", "}"):
            s = self.stmt()
            if s[0] == "tail":
                tail = s[1]
                if not self.at("op", "}"):
                    raise Rs2vError("expression without ';' in the middle of a block")
            else:
                stmts.append(s)
        self.eat("op", "}")
        return ("block", stmts, tail)

    def stmt(self):
        if self.at("id", "let"):
            self.i += 1
            mut = self.opt("id", "mut")
            name = self.eat("id")
            if self.opt("op", ":"):
                self.skip_type()
            self.eat("op", "=")
            e = self.expr()
            self.eat("op", ";")
            return ("let", name, e)
        if self.at("id", "break"):
            self.i += 1
            self.eat("op", ";")
            return ("break",)
        if self.at("id", "return"):
            self.i += 1
            e = None if self.at("op", ";") else self.expr()
            self.opt("op", ";")
            return ("return", e)
        if self.at("id", "for"):
            self.i += 1
            pat = self.eat("id")
            self.eat("id", "in")
            it = self.expr(no_struct=True)
            b = self.block()
            return ("for", pat, it, b)
        e = self.expr()
        if self.at("op", "=") or self.at("op", "+=") or self.at("op", "-="):
            op = self.eat("op")
            r = self.expr()
            if not self.opt("op", ";"):
                if not self.at("op", "}"):
                    raise Rs2vError("assignment not followed by ';' or '}'")
            return ("assign", e, op, r)
        if self.opt("op", ";"):
            return ("expr", e)
        if e[0] in ("if", "iflet", "match", "block") and not self.at("op", "}"):
            return ("expr", e)           # block-like expression statement
        return ("tail", e)

    PREC = [("||",), ("&&",), ("==", "!=", "<", ">", "<=", ">="), ("..",), ("+", "-"), ("*",)]

    def expr(self, lvl=0, no_struct=False):
        if lvl == len(self.PREC):
            return self.unary(no_struct)
        l = self.expr(lvl + 1, no_struct)
        while self.peek()[0] == "op" and self.peek()[1] in self.PREC[lvl]:
            op = self.eat("op")
            r = self.expr(lvl + 1, no_struct)
            l = ("bin", op, l, r)
        return l

    def unary(self, no_struct):
        if self.opt("op", "!"):
            return ("not", self.unary(no_struct))
        if self.opt("op", "&"):
            self.opt("id", "mut")
            return ("ref", self.unary(no_struct))
        if self.opt("op", "*"):
            return self.unary(no_struct)
        return self.postfix(self.atom(no_struct))

    def args(self, close):
        a = []
        while not self.at("op", close):
            a.append(self.expr())
            if not self.opt("op", ","):
                break
        self.eat("op", close)
        return a

    def postfix(self, e):
        while True:
            if self.opt("op", "("):
                e = ("call", e, self.args(")"))
            elif self.opt("op", "["):
                ix = self.expr()
                self.eat("op", "]")
                e = ("index", e, ix)
            elif self.at("op", ".") and self.peek(1)[0] == "id":
                self.i += 1
                n = self.eat("id")
                if self.opt("op", "("):
                    e = ("mcall", e, n, self.args(")"))
                else:
                    e = ("field", e, n)
            else:
                return e

    def atom(self, no_struct):
        a = self.peek()
        if a[0] == "char":
            self.i += 1
            return ("char", a[1])
        if a[0] == "str":
            self.i += 1
            return ("str", a[1])
        if a[0] == "num":
            self.i += 1
            return ("num", a[1])
        if a == ("op", "("):
            self.i += 1
            if self.opt("op", ")"):
                return ("tuple", [])
            e = self.expr()
            if self.opt("op", ","):
                items = [e] + self.args(")")
                return ("tuple", items)
            self.eat("op", ")")
            return e
        if a == ("op", "{"):
            return self.block()
        if a[0] == "id":
            if a[1] == "if":
                self.i += 1
                if self.opt("id", "let"):
                    pat = self.pattern()
                    self.eat("op", "=")
                    e = self.expr(no_struct=True)
                    b = self.block()
                    el = self.else_part()
                    return ("iflet", pat, e, b, el)
                c = self.expr(no_struct=True)
                b = self.block()
                return ("if", c, b, self.else_part())
            if a[1] == "match":
                self.i += 1
                e = self.expr(no_struct=True)
                self.eat("op", "{")
                arms = []
                while not self.at("op", "}"):
                    pat = self.pattern()
                    self.eat("op", "=>")
                    if self.at("id", "return") or self.at("id", "break"):
                        s = self.stmt_in_arm()
                        body = ("block", [s], None)
                    else:
                        body = self.expr()
                        if self.at("op", "=") or self.at("op", "+=") or self.at("op", "-="):
                            op = self.eat("op")
                            r = self.expr()
                            body = ("block", [("assign", body, op, r)], None)
                    self.opt("op", ",")
                    arms.append((pat, body))
                self.eat("op", "}")
                return ("match", e, arms)
            if a[1] in ("true", "false"):
                self.i += 1
                return ("bool", a[1] == "true")
            if a[1].endswith("!"):
                self.i += 1
                close = {"(": ")", "[": "]"}[self.eat("op")]
                return ("macro", a[1][:-1], self.args(close))
            self.i += 1
            path = [a[1]]
            while self.at("op", "::"):
                self.i += 1
                path.append(self.eat("id"))
            return ("path", path)
        raise Rs2vError("unexpected token %r" % (a,))

    def stmt_in_arm(self):
        if self.at("id", "break"):
            self.i += 1
            return ("break",)
        self.eat("id", "return")
        return ("return", self.expr())

    def else_part(self):
        if not self.opt("id", "else"):
            return None
        if self.at("id", "if"):
            e = self.atom(False)
            return ("block", [], e)
        return self.block()

    def pattern(self):
        a = self.peek()
        if a == ("id", "_"):
            self.i += 1
            return ("wild",)
        if a[0] in ("char", "str", "num"):
            self.i += 1
            return (a[0], a[1])
        self.opt("id", "ref")
        path = [self.eat("id")]
        while self.opt("op", "::"):
            path.append(self.eat("id"))
        sub = []
        if self.opt("op", "("):
            while not self.at("op", ")"):
                self.opt("id", "ref")
                self.opt("id", "mut")
                if self.opt("id", "_"):
                    sub.append(None)
                else:
                    sub.append(self.eat("id"))
                self.opt("op", ",")
            self.eat("op", ")")
        return ("ctor", path, sub)


def parse_fn(src, name):
    m = re.search(r"(?:pub(?:\([a-z]+\))?\s+)?fn\s+%s\s*\(" % re.escape(name), src)
    if not m:
        raise Rs2vError("fn %s not found" % name)
    p = P(lex(src[m.start():], stop_after_item=True))
    n, params, body = p.fn()
    return params, body


# ---------------------------------------------------------------------------------------------
# symbolic execution to Gallina
def coq_char(c):
    return "%d%%N" % ord(c)


def coq_str_lit(s):
    return "[" + ";".join("%d%%N" % ord(c) for c in s) + "]"


class Ty:
    """variable kinds the executor knows how to operate on"""
    BOOL, NAT, NUM_N, CHAR, STR, STR_REV, OPAQUE, INT_Z = "bool", "nat", "N", "char", "str", "str_rev", "opaque", "Z"


class Fn:
    """configuration + executor for one Rust function.

    cfg keys:
      params      {rust name: (type, coq term)}      parameters (immutable)
      locals      {rust name: type}                  every `let mut` the function declares
      state       (ctor_fmt, [rust names in field order], {rust name: projection fmt})  how the loop state is packed:
                  ctor_fmt % tuple(terms), projection fmt % state_var
      ctors       {rust path string: coq fmt}        constructors of results / errors, e.g. 'Ok': 'IOk %s'
      returns     'value' | ...                      how `return e` / tail values are wrapped: cfg['wrap_ok'](term)
      step        dict(cont=, brk=, fail=, panic=)   spellings of the loop-step constructors
      res         dict(ok=, err_match=, panic=)      how a loop result is consumed
      helpers     {rust fn name: (coq name, [param kinds])}  other translated functions callable from here
      methods     {(type, method): handler}          extra method translations
    """

    def __init__(self, cfg):
        self.cfg = cfg
        self.fresh = 0
        self.loops = []          # generated loop-body definitions: (name, text)

    def newvar(self, base):
        self.fresh += 1
        return "%s_%d" % (base, self.fresh)

    # ---- types
    def type_of(self, e, env):
        k = e[0]
        if k == "path" and len(e[1]) == 1:
            n = e[1][0]
            if n in env:
                return env[n][0]
            raise Rs2vError("unknown variable %s" % n)
        if k == "char":
            return Ty.CHAR
        if k == "str":
            return Ty.STR
        if k == "bool" or k == "not":
            return Ty.BOOL
        if k == "num":
            return None
        if k == "bin":
            if e[1] in ("||", "&&", "==", "!=", "<", ">", "<=", ">="):
                return Ty.BOOL
            return self.type_of(e[2], env) or self.type_of(e[3], env)
        if k == "ref":
            return self.type_of(e[1], env)
        if k == "mcall":
            r = self.cfg.get("method_types", {}).get(e[2])
            if r:
                return r
            if e[2] in ("is_empty", "is_none", "is_some"):
                return Ty.BOOL
            if e[2] in ("to_string", "clone", "to_owned"):
                return self.type_of(e[1], env)
            if e[2] == "len":
                return Ty.NAT
        if k == "call" and e[1][0] == "path":
            h = self.cfg.get("helpers", {}).get(e[1][1][-1])
            if h:
                return h.get("ret")
        raise Rs2vError("cannot type %r" % (e,))

    # ---- pure expressions -> coq term (string).  Partial operations are NOT allowed here.
    def ex(self, e, env):
        k = e[0]
        if k == "path":
            if len(e[1]) == 1 and e[1][0] in env:
                return env[e[1][0]][1]
            name = "::".join(e[1])
            if name in self.cfg.get("ctors", {}):
                f = self.cfg["ctors"][name]
                if "%s" in f:
                    raise Rs2vError("constructor %s needs arguments" % name)
                return f
            raise Rs2vError("unknown name %s" % name)
        if k == "char":
            return coq_char(e[1])
        if k == "bool":
            return "true" if e[1] else "false"
        if k == "str":
            return coq_str_lit(e[1])
        if k == "not":
            return "(negb %s)" % self.ex(e[1], env)
        if k == "ref":
            return self.ex(e[1], env)
        if k == "tuple":
            return "(" + ", ".join(self.ex(x, env) for x in e[1]) + ")"
        if k == "macro" and e[1] == "vec" and not e[2]:
            return "[]"
        if k == "bin":
            op, l, r = e[1], e[2], e[3]
            if op == "||":
                return "(%s || %s)" % (self.ex(l, env), self.ex(r, env))
            if op == "&&":
                return "(%s && %s)" % (self.ex(l, env), self.ex(r, env))
            tl = self.type_of(l, env) if l[0] != "num" else None
            tr = self.type_of(r, env) if r[0] != "num" else None
            t = tl or tr
            if t is None:
                raise Rs2vError("comparison of two literals")
            a, b = self.num(l, t, env), self.num(r, t, env)
            if op in ("==", "!="):
                eqb = {Ty.CHAR: "N.eqb", Ty.NUM_N: "N.eqb", Ty.NAT: "Nat.eqb", Ty.BOOL: "Bool.eqb",
                       Ty.STR: "str_eqb", Ty.INT_Z: "Z.eqb"}.get(t)
                if not eqb:
                    raise Rs2vError("== on type %s" % t)
                s = "(%s %s %s)" % (eqb, a, b)
                return s if op == "==" else "(negb %s)" % s
            cmp_ = {("<", Ty.NAT): "Nat.ltb %s %s", ("<=", Ty.NAT): "Nat.leb %s %s", (">", Ty.NAT): "Nat.ltb %s %s",
                    (">=", Ty.NAT): "Nat.leb %s %s", ("<", Ty.NUM_N): "N.ltb %s %s", (">", Ty.NUM_N): "N.ltb %s %s",
                    ("<=", Ty.NUM_N): "N.leb %s %s", (">=", Ty.NUM_N): "N.leb %s %s",
                    ("<", Ty.INT_Z): "Z.ltb %s %s", (">", Ty.INT_Z): "Z.ltb %s %s",
                    ("<=", Ty.INT_Z): "Z.leb %s %s", (">=", Ty.INT_Z): "Z.leb %s %s"}.get((op, t))
            if cmp_:
                x, y = (a, b) if op in ("<", "<=") else (b, a)
                return "(" + cmp_ % (x, y) + ")"
            if op == "+" and t == Ty.NAT:
                return "(%s + %s)%%nat" % (a, b)
            if op == "+" and t == Ty.INT_Z:
                return "(%s + %s)%%Z" % (a, b)
            if op == "-" and t == Ty.INT_Z:
                return "(%s - %s)%%Z" % (a, b)
            raise Rs2vError("operator %s on %s" % (op, t))
        if k == "mcall":
            recv, m, args = e[1], e[2], e[3]
            h = self.cfg.get("methods", {}).get(m)
            if h:
                return h(self, recv, args, env)
            t = self.type_of(recv, env)
            r = self.ex(recv, env)
            if m in ("to_string", "clone", "to_owned") and not args:
                return r
            if m == "is_empty" and t in (Ty.STR, Ty.STR_REV) and not args:
                return "(match %s with [] => true | _ => false end)" % r
            if m == "len" and not args:
                return "(length %s)" % r
            raise Rs2vError("method %s on %s" % (m, t))
        if k == "call" and e[1][0] == "path":
            name = "::".join(e[1][1])
            if name in self.cfg.get("ctors", {}):
                f = self.cfg["ctors"][name]
                return "(" + f % tuple(self.ex(a, env) for a in e[2]) + ")"
            h = self.cfg.get("helpers", {}).get(e[1][1][-1])
            if h and not h.get("mut"):
                return "(%s %s)" % (h["coq"], " ".join(self.ex(a, env) for a in e[2]))
            raise Rs2vError("call of %s in expression position" % name)
        raise Rs2vError("expression %r" % (e,))

    def num(self, e, t, env):
        if e[0] == "num":
            return {Ty.NAT: "%d%%nat", Ty.NUM_N: "%d%%N", Ty.INT_Z: "%d%%Z", Ty.CHAR: "%d%%N"}.get(t, "%d") % e[1]
        return self.ex(e, env)

    # ---- packing the loop state
    def pack(self, env):
        fmt, order, _ = self.cfg["state"]
        return fmt % tuple(self.out_term(n, env) for n in order)

    def out_term(self, n, env):
        return env[n][1]

    def unpack(self, env, sv):
        _, order, proj = self.cfg["state"]
        env = dict(env)
        for n in order:
            env[n] = (env[n][0], proj[n] % sv)
        return env

    # ---- statements.  k(env) -> coq term for "the rest"; ctx: dict(loop=bool)
    def run(self, stmts, tail, env, k, ctx):
        if not stmts:
            if tail is not None:
                return self.tail(tail, env, k, ctx)
            return k(env, None)
        s, rest = stmts[0], stmts[1:]

        def cont(env2, _v=None):
            return self.run(rest, tail, env2, k, ctx)
        return self.stmt(s, env, cont, ctx)

    def stmt(self, s, env, cont, ctx):
        k = s[0]
        if k == "let":
            return self.bind(s[1], s[2], env, cont, ctx)
        if k == "assign":
            return self.assign(s, env, cont, ctx)
        if k == "expr":
            return self.effect(s[1], env, cont, ctx)
        if k == "break":
            if not ctx.get("loop"):
                raise Rs2vError("break outside a loop")
            return self.cfg["step"]["brk"] % self.pack(env)
        if k == "return":
            return self.ret(s[1], env, ctx)
        if k == "for":
            return self.loop(s, env, cont, ctx)
        raise Rs2vError("statement %r" % (s,))

    def ret(self, e, env, ctx):
        """`return e` / a tail value of the function"""
        v = self.result_value(e, env)
        if ctx.get("loop"):
            return self.cfg["step"]["ret"](v)
        return v

    def result_value(self, e, env):
        # Ok(..)/Err(..)/enum values through cfg['ctors']; strings in results are un-reversed by the config
        if e[0] == "call" and e[1][0] == "path":
            name = "::".join(e[1][1])
            rc = self.cfg.get("result_ctors", {})
            if name in rc:
                return rc[name](self, e[2], env)
        if e[0] == "path":
            name = "::".join(e[1])
            rc = self.cfg.get("result_ctors", {})
            if name in rc:
                return rc[name](self, [], env)
        raise Rs2vError("result value %r" % (e,))

    def bind(self, name, e, env, cont, ctx):
        # partial: v[i]
        if e[0] == "index":
            vec, ix = e[1], e[2]
            v = self.newvar(name)
            env2 = dict(env)
            env2[name] = (self.cfg.get("elem_type", Ty.CHAR), v)
            panic = self.cfg["step"]["panic"] if ctx.get("loop") else self.cfg["res"]["panic"]
            return "match nth_error %s %s with\n| None => %s\n| Some %s =>\n%s\nend" % (
                self.ex(vec, env), self.ex(ix, env), panic, v, cont(env2))
        if e[0] in ("if", "match", "iflet"):
            # value-producing conditional bound to a name: only as `let x = if c {a} else {b};` with pure arms
            t = self.pure_cond(e, env)
            env2 = dict(env)
            env2[name] = (t[0], t[1])
            return cont(env2)
        if e[0] == "call" and e[1][0] == "path" and "::".join(e[1][1]) in ("String::new",):
            env2 = dict(env)
            env2[name] = (self.cfg["locals"].get(name, Ty.STR), "[]")
            return cont(env2)
        h = self.cfg.get("let_handlers", {}).get(name)
        if h:
            return h(self, e, env, cont, ctx)
        t = self.cfg["locals"].get(name) or (self.type_of(e, env) if e[0] != "num" else None)
        if t is None:
            raise Rs2vError("type of local %s unknown" % name)
        env2 = dict(env)
        env2[name] = (t, self.num(e, t, env))
        return cont(env2)

    def pure_cond(self, e, env):
        if e[0] == "if":
            c = self.ex(e[1], env)
            a, b = e[2], e[3]
            if a[1] or b is None or b[1]:
                raise Rs2vError("let x = if .. with statements")
            ta, tb = self.type_of(a[2], env), self.type_of(b[2], env)
            return (ta or tb, "(if %s then %s else %s)" % (c, self.ex(a[2], env), self.ex(b[2], env)))
        raise Rs2vError("let x = %s .." % e[0])

    def assign(self, s, env, cont, ctx):
        lhs, op, rhs = s[1], s[2], s[3]
        if lhs[0] != "path" or len(lhs[1]) != 1 or lhs[1][0] not in env:
            raise Rs2vError("assignment to %r" % (lhs,))
        n = lhs[1][0]
        t = env[n][0]
        env2 = dict(env)
        if op == "=":
            if rhs[0] == "bin" and rhs[1] in ("+", "-") and rhs[3] == ("num", 1) and t == Ty.NAT and rhs[1] == "-":
                return self.dec(n, self.ex(rhs[2], env), env, cont, ctx)
            env2[n] = (t, self.num(rhs, t, env))
            return cont(env2)
        if op == "+=" and rhs == ("num", 1) and t in (Ty.NAT, Ty.NUM_N):
            env2[n] = (t, "(S %s)" % env[n][1] if t == Ty.NAT else "(%s + 1)%%N" % env[n][1])
            return cont(env2)
        if op == "-=" and rhs == ("num", 1) and t == Ty.NAT:
            return self.dec(n, env[n][1], env, cont, ctx)
        raise Rs2vError("assignment %s %s on %s" % (n, op, t))

    def dec(self, n, term, env, cont, ctx):
        v = self.newvar(n)
        env2 = dict(env)
        env2[n] = (Ty.NAT, v)
        panic = self.cfg["step"]["panic"] if ctx.get("loop") else self.cfg["res"]["panic"]
        return "match usize_dec %s with\n| None => %s\n| Some %s =>\n%s\nend" % (term, panic, v, cont(env2))

    def effect(self, e, env, cont, ctx):
        k = e[0]
        if k == "if":
            return self.cond(e, env, cont, ctx)
        if k == "iflet":
            return self.iflet(e, env, cont, ctx)
        if k == "match":
            return self.match(e, env, cont, ctx)
        if k == "block":
            return self.run(e[1], e[2], env, lambda env2, _v=None: cont(env2), ctx)
        if k == "mcall" and e[1][0] == "path" and len(e[1][1]) == 1 and e[1][1][0] in env:
            n, m, args = e[1][1][0], e[2], e[3]
            t, cur = env[n]
            env2 = dict(env)
            if t in (Ty.STR, Ty.STR_REV):
                if m == "push" and len(args) == 1:
                    a = self.ex(args[0], env)
                    env2[n] = (t, "(%s ++ [%s])" % (cur, a) if t == Ty.STR else "(%s :: %s)" % (a, cur))
                    return cont(env2)
                if m == "push_str" and len(args) == 1:
                    if args[0][0] == "str" and t == Ty.STR_REV:
                        a = coq_str_lit(args[0][1][::-1])
                    elif t == Ty.STR_REV:
                        a = "(rev %s)" % self.ex(args[0], env)
                    else:
                        a = self.ex(args[0], env)
                    env2[n] = (t, "(%s ++ %s)" % (cur, a) if t == Ty.STR else "(%s ++ %s)" % (a, cur))
                    return cont(env2)
                if m == "clear" and not args:
                    env2[n] = (t, "[]")
                    return cont(env2)
            raise Rs2vError("method %s.%s" % (n, m))
        if k == "call" and e[1][0] == "path":
            h = self.cfg.get("helpers", {}).get(e[1][1][-1])
            if h and h.get("mut") is not None:
                mi = h["mut"]
                tgt = e[2][mi]
                if tgt[0] != "ref" or tgt[1][0] != "path" or tgt[1][1][0] not in env:
                    raise Rs2vError("&mut argument of %s" % h["coq"])
                n = tgt[1][1][0]
                argt = [self.ex(a, env) for a in e[2]]
                env2 = dict(env)
                env2[n] = (env[n][0], "(%s %s)" % (h["coq"], " ".join(argt)))
                return cont(env2)
        raise Rs2vError("effect %r" % (e,))

    def cond(self, e, env, cont, ctx):
        c = self.ex(e[1], env)
        a = self.run(e[2][1], e[2][2], env, lambda env2, _v=None: cont(env2), ctx)
        if e[3] is None:
            b = cont(env)
        else:
            b = self.run(e[3][1], e[3][2], env, lambda env2, _v=None: cont(env2), ctx)
        return "if %s then\n%s\nelse\n%s" % (c, a, b)

    def iflet(self, e, env, cont, ctx):
        pat, scrut, blk, els = e[1], e[2], e[3], e[4]
        if pat[0] != "ctor" or pat[1] != ["Some"] or len(pat[2]) != 1:
            raise Rs2vError("if let pattern %r" % (pat,))
        h = self.cfg.get("iflet_scrutinee")
        if not h:
            raise Rs2vError("if let not configured")
        st, sterm = h(self, scrut, env)
        v = self.newvar(pat[2][0] or "x")
        env2 = dict(env)
        if pat[2][0]:
            env2[pat[2][0]] = (st, v)
        a = self.run(blk[1], blk[2], env2, lambda env3, _v=None: cont({x: env3[x] for x in env}), ctx)
        b = cont(env) if els is None else self.run(els[1], els[2], env, lambda env3, _v=None: cont(env3), ctx)
        return "match %s with\n| Some %s =>\n%s\n| None =>\n%s\nend" % (sterm, v, a, b)

    def match(self, e, env, cont, ctx):
        h = self.cfg.get("match_handler")
        if not h:
            raise Rs2vError("match not configured")
        return h(self, e, env, cont, ctx)

    def tail(self, e, env, k, ctx):
        """a block's tail expression: either control flow whose arms end the block, or a value"""
        if e[0] == "if":
            c = self.ex(e[1], env)
            a = self.run(e[2][1], e[2][2], env, k, ctx)
            if e[3] is None:
                b = k(env, None)
            else:
                b = self.run(e[3][1], e[3][2], env, k, ctx)
            return "if %s then\n%s\nelse\n%s" % (c, a, b)
        if e[0] == "block":
            return self.run(e[1], e[2], env, k, ctx)
        if e[0] in ("iflet", "match"):
            return self.effect(e, env, lambda env2, _v=None: k(env2, None), ctx)
        if self.is_unit_effect(e, env):
            return self.effect(e, env, lambda env2, _v=None: k(env2, None), ctx)
        return k(env, e)

    def is_unit_effect(self, e, env):
        """a unit-valued call written without ';' as the last expression of a block"""
        if e[0] == "mcall" and e[1][0] == "path" and len(e[1][1]) == 1 and e[1][1][0] in env \
                and e[2] in ("push", "push_str", "clear"):
            return True
        if e[0] == "call" and e[1][0] == "path":
            h = self.cfg.get("helpers", {}).get(e[1][1][-1])
            return bool(h and h.get("mut") is not None)
        return False

    # ---- loops
    def loop(self, s, env, cont, ctx):
        if ctx.get("loop"):
            raise Rs2vError("nested loop")
        pat, it, body = s[1], s[2], s[3]
        name = "%s_body" % self.cfg["coq_name"]
        sv = "st"
        benv = self.unpack(env, sv)
        lp = self.cfg["loop"]
        if it[0] == "bin" and it[1] == "..":
            # for _i in a..b : iteration count fixed at loop entry, the item is unused
            if pat in self.used_names(body):
                raise Rs2vError("range loop variable is used")
            item = None
            count = "(%s - %s)%%nat" % (self.ex(it[3], env), self.ex(it[2], env))
            drive = lp["for_n"] % (name_call(name, self.cfg), count, self.pack(env))
        elif it[0] == "mcall" and it[2] == "chars" and not it[3]:
            item = self.newvar(pat)
            benv[pat] = (Ty.CHAR, item)
            drive = lp["for_each"] % (name_call(name, self.cfg), self.ex(it[1], env), self.pack(env))
        elif it[0] == "path" and lp.get("for_each_elem"):
            item = self.newvar(pat)
            benv[pat] = (self.cfg.get("elem_type", Ty.STR), item)
            drive = lp["for_each"] % (name_call(name, self.cfg), self.ex(it, env), self.pack(env))
        else:
            raise Rs2vError("loop iterator %r" % (it,))
        stp = self.cfg["step"]
        body_term = self.run(body[1], body[2], benv,
                             lambda env2, v=None: stp["cont"] % self.pack(env2), {"loop": True})
        params = self.cfg.get("fn_params", "")
        self.loops.append((name, "Definition %s %s (%s : %s)%s : %s :=\n%s.\n" % (
            name, params, sv, self.cfg["state_type"],
            " (%s : %s)" % (item, self.cfg.get("item_type", "char")) if item else "",
            stp["type"], body_term)))
        sv2 = self.newvar("st")
        after = cont(self.unpack(env, sv2))
        return self.cfg["res"]["consume"] % {"drive": drive, "sv": sv2, "after": after}

    def used_names(self, node):
        out = set()

        def walk(n):
            if isinstance(n, tuple):
                if n and n[0] == "path" and len(n) > 1 and isinstance(n[1], list):
                    out.update(n[1])
                for x in n:
                    walk(x)
            elif isinstance(n, list):
                for x in n:
                    walk(x)
        walk(node)
        return out

    # ---- whole function
    def function(self, params, body):
        env = {}
        for pn, _ in params:
            if pn in self.cfg["params"]:
                env[pn] = self.cfg["params"][pn]
        term = self.run(body[1], body[2], env, lambda env2, v: self.final(v, env2), {})
        return term

    def final(self, v, env):
        if v is None:
            f = self.cfg.get("final_state")
            if f:
                return f(self, env)
            raise Rs2vError("function ends without a value")
        return self.result_value(v, env)


def name_call(name, cfg):
    a = cfg.get("fn_args", "")
    return "(%s %s)" % (name, a) if a else name


# ---------------------------------------------------------------------------------------------
# ADDITIVE EXTENSION (builder B9): methods of `impl` blocks working on HashMap / Vec state.
#
#   MethodP / parse_method   parse `fn f(&self | &mut self | self, ..)` inside `impl T { .. }`
#   FnM(Fn)                  executor for such methods:
#     * struct fields `self.f` are components of the state (env keys "self.f"); HashMap operations become
#       gmap terms: contains_key -> map_has, get -> !!, insert -> <[k:=v]>, remove -> delete, and
#       `match m.remove(k) {..}` scrutinises `m !! k` with the map being `delete k m` in both arms;
#     * value-producing blocks: `let x = match OPT { Some(v) => .., None => .. };` / `let x = if ..` with
#       `let`s inside the arms (emitted as a Coq `let x_N := .. in`);
#     * `match` on an Option in statement or tail position, arms are blocks;
#     * `for x in &vec | vec.iter() | vec | map.keys()`: the body becomes a separate definition
#       state -> item -> lstep state result (Rs2vMapLib.for_each_ret); `return e` inside the body is
#       `LRet <function result>`; the state is the mutable receiver OR the one mutable local in scope;
#       every Coq variable in scope (function parameters, pattern / let variables) is a parameter of the body;
#     * block scoping: a `let` inside a block does not leak into the code after the block;
#     * the function result is built by cfg['result'](fn, expr, env) so that a `&mut self` method can return
#       the receiver as it is AT THAT POINT together with the value (an early `return Err(..)` after a
#       mutation is therefore visible in the translation).
#   Everything not understood raises Rs2vError.  Nothing above this line is changed by the extension.
class MethodP(P):
    receiver = None

    def fn(self):
        """fn name([&[mut] self | [mut] self,] params) [-> type] block"""
        while not self.at("id", "fn"):
            if self.at("eof"):
                raise Rs2vError("eof looking for fn")
            self.i += 1
        self.eat("id", "fn")
        name = self.eat("id")
        if self.opt("op", "<"):
            raise Rs2vError("generic fn %s" % name)
        self.eat("op", "(")
        if self.at("op", "&") and (self.peek(1) == ("id", "self") or
                                   (self.peek(1) == ("id", "mut") and self.peek(2) == ("id", "self"))):
            self.i += 1
            self.receiver = "mut" if self.opt("id", "mut") else "ref"
            self.eat("id", "self")
            self.opt("op", ",")
        elif self.at("id", "self") or (self.at("id", "mut") and self.peek(1) == ("id", "self")):
            self.opt("id", "mut")
            self.eat("id", "self")
            self.receiver = "own"
            self.opt("op", ",")
        params = []
        while not self.at("op", ")"):
            self.opt("id", "mut")
            pn = self.eat("id")
            self.eat("op", ":")
            mut_ref = self.at("op", "&") and self.peek(1) == ("id", "mut")
            self.skip_type()
            params.append((pn, mut_ref))
            self.opt("op", ",")
        self.eat("op", ")")
        if self.opt("op", "->"):
            self.skip_type()
        return name, params, self.block()


def impl_block(src, type_name):
    """the text between the braces of the inherent `impl type_name { .. }` (comments and literals respected)"""
    m = re.search(r"^\s*impl\s+%s\s*\{" % re.escape(type_name), src, re.M)
    if not m:
        raise Rs2vError("impl %s not found" % type_name)
    i, depth, n = m.end() - 1, 0, len(src)
    start = i
    while i < n:
        c = src[i]
        if src.startswith("//", i):
            j = src.find("\n", i)
            i = n if j < 0 else j
            continue
        if src.startswith("/*", i):
            j = src.find("*/", i)
            if j < 0:
                raise Rs2vError("unterminated comment")
            i = j + 2
            continue
        if c == '"':
            mm = re.compile(r'"(?:\\.|[^"\\])*"', re.S).match(src, i)
            if not mm:
                raise Rs2vError("unterminated string")
            i = mm.end()
            continue
        if c == "'":
            mm = re.compile(r"'(?:\\.|[^'\\])'").match(src, i)
            if mm:
                i = mm.end()
                continue
        if c == "{":
            depth += 1
        elif c == "}":
            depth -= 1
            if depth == 0:
                return src[start + 1:i]
        i += 1
    raise Rs2vError("impl %s unbalanced" % type_name)


def parse_method(src, type_name, name):
    """-> (receiver in {None,'ref','mut','own'}, [(param, is_mut_ref)], body block) of `fn name` in `impl type_name`"""
    body = impl_block(src, type_name)
    ms = list(re.finditer(r"\bfn\s+%s\s*\(" % re.escape(name), body))
    if len(ms) != 1:
        raise Rs2vError("fn %s: %d definitions in impl %s" % (name, len(ms), type_name))
    p = MethodP(lex(body[ms[0].start():], stop_after_item=True))
    n, params, blk = p.fn()
    return p.receiver, params, blk


META = ("%decl", "%bound")


class FnM(Fn):
    """cfg keys used on top of Fn's (all optional unless noted):
      coq_name      (required) prefix of the generated loop-body definitions
      fn_binders    '(self : reg) (x : name)'  binders of the generated function, repeated on every loop body
      fn_args       'self x'
      result_type   coq type of the function result (the R of lstep S R)
      result        f(fn, expr, env) -> coq term of the function result for the Rust value `expr` (default: ex)
      mut_self      True when the receiver is `&mut self`
      self_state    dict(type='reg', fields={'self.commands': '(cmds %s)', ..}, pack=f(fn, env) -> term)
      maps          {map type: dict(key=type, val=type)}
      lists         {list type: element type}
      coq_types     {type: coq type text}
      locals        {rust name: type} of the `let mut` locals
      helpers       {method name: dict(coq=, ret=)}   other translated `&self` methods callable as self.m(..)
      map_put       f(fn, map type, expr, env) -> stored term           (default: ex)
      map_got       f(fn, map type, key term, coq var) -> (type, term)   what a value read from the map is
      sort          '(merge_sort name_le %s)'   translation of v.sort()
    """

    def __init__(self, cfg):
        super().__init__(cfg)
        self.nloops = 0

    # ---- scoping helpers
    def meta(self, env, key, default):
        return env[key][1] if key in env else default

    def enter(self, env):
        e = dict(env)
        e["%decl"] = ("meta", frozenset())
        return e

    def leave(self, outer, inner):
        """the environment after a block: names the block declared itself are restored"""
        declared = self.meta(inner, "%decl", frozenset())
        out = {}
        for n in outer:
            if n in META:
                out[n] = outer[n]
            elif n in declared:
                out[n] = outer[n]
            else:
                out[n] = inner.get(n, outer[n])
        return out

    def declare(self, env, name, coqvar=None, coqtype=None):
        env["%decl"] = ("meta", self.meta(env, "%decl", frozenset()) | {name})
        if coqvar is not None:
            env["%bound"] = ("meta", self.meta(env, "%bound", ()) + ((coqvar, coqtype),))
        return env

    def coq_type(self, t):
        ct = self.cfg.get("coq_types", {}).get(t)
        if ct is None:
            raise Rs2vError("no coq type for %s" % (t,))
        return ct

    def is_self(self, e):
        return e == ("path", ["self"])

    def self_term(self, env):
        return self.cfg["self_state"]["pack"](self, env)

    # ---- types
    def type_of(self, e, env):
        k = e[0]
        if k == "field" and self.is_self(e[1]):
            key = "self." + e[2]
            if key in env:
                return env[key][0]
            raise Rs2vError("unknown field %s" % key)
        if k == "path" and e[1] == ["None"]:
            return "opt:?"
        if k == "call" and e[1] == ("path", ["Some"]) and len(e[2]) == 1:
            return "opt:%s" % self.type_of(e[2][0], env)
        if k == "mcall":
            recv, m = e[1], e[2]
            if self.is_self(recv) and m in self.cfg.get("helpers", {}):
                return self.cfg["helpers"][m]["ret"]
            if m not in self.cfg.get("method_types", {}):
                if m in ("contains_key", "is_some", "is_none"):
                    return Ty.BOOL
                if m == "get":
                    t = self.type_of(recv, env)
                    if t in self.cfg.get("maps", {}):
                        return "opt:%s" % self.cfg["maps"][t]["val"]
        if k in ("block", "match", "if", "iflet"):
            return self.value_of(e, env)[0]
        return super().type_of(e, env)

    # ---- expressions
    def ex(self, e, env):
        k = e[0]
        if k == "path" and len(e[1]) == 1 and e[1][0] in env and isinstance(env[e[1][0]][1], tuple):
            return "(" + ", ".join(env[e[1][0]][1]) + ")"
        if k == "path" and e[1] == ["None"]:
            return "None"
        if k == "field" and self.is_self(e[1]):
            key = "self." + e[2]
            if key in env:
                return env[key][1]
            raise Rs2vError("unknown field %s" % key)
        if k == "call" and e[1] == ("path", ["Some"]) and len(e[2]) == 1:
            return "(Some %s)" % self.ex(e[2][0], env)
        if k == "bin" and e[1] in ("==", "!="):
            tl, tr = self.type_of(e[2], env), self.type_of(e[3], env)
            if str(tl).startswith("opt:") or str(tr).startswith("opt:"):
                if "opt:?" not in (tl, tr) and tl != tr:
                    raise Rs2vError("== between %s and %s" % (tl, tr))
                s = "(bool_decide (%s = %s))" % (self.ex(e[2], env), self.ex(e[3], env))
                return s if e[1] == "==" else "(negb %s)" % s
        if k == "mcall":
            recv, m, args = e[1], e[2], e[3]
            if self.is_self(recv) and m in self.cfg.get("helpers", {}):
                h = self.cfg["helpers"][m]
                return "(%s %s)" % (h["coq"], " ".join([self.self_term(env)] + [self.ex(a, env) for a in args]))
            if m not in self.cfg.get("methods", {}):
                if m in ("contains_key", "get") and len(args) == 1:
                    t = self.type_of(recv, env)
                    if t in self.cfg.get("maps", {}):
                        kt = self.type_of(args[0], env)
                        if kt != self.cfg["maps"][t]["key"]:
                            raise Rs2vError("%s key of type %s" % (m, kt))
                        f = "(map_has %s %s)" if m == "contains_key" else "(%s !! %s)"
                        return f % (self.ex(recv, env), self.ex(args[0], env))
                if m in ("is_some", "is_none") and not args:
                    t = self.type_of(recv, env)
                    if str(t).startswith("opt:"):
                        s = "(opt_is_some %s)" % self.ex(recv, env)
                        return s if m == "is_some" else "(negb %s)" % s
        if k in ("block", "match", "if", "iflet"):
            return self.value_of(e, env)[1]
        return super().ex(e, env)

    # ---- value-producing blocks / matches / ifs (no effects on the state, no return)
    def value_of(self, e, env):
        """-> (type, coq term) of an expression that may be a block, an `if` or a `match` on an Option"""
        if e[0] == "block":
            got = []

            def k(env2, v):
                if v is None:
                    raise Rs2vError("block used as a value has no tail expression")
                got.append(self.type_of(v, env2))
                if self.state_sig(env2) != self.state_sig(env):
                    raise Rs2vError("state change inside a value block")
                return self.ex(v, env2)
            term = self.run(e[1], e[2], self.enter(env), k, {"value": True})
            if not got or any(g != got[0] for g in got):
                raise Rs2vError("value block of several types %r" % (got,))
            return got[0], term
        if e[0] == "if":
            if e[3] is None:
                raise Rs2vError("`if` without else used as a value")
            c = self.ex(e[1], env)
            ta, a = self.value_of(e[2], env)
            tb, b = self.value_of(e[3], env)
            if ta != tb:
                raise Rs2vError("if arms of types %s / %s" % (ta, tb))
            return ta, "(if %s then %s else %s)" % (c, a, b)
        if e[0] == "iflet":
            e = self.iflet_as_match(e)
        if e[0] == "match":
            types = []

            def arm(body, env2, _env1):
                t, term = self.value_of(body, env2)
                types.append(t)
                return term
            env_after, text = self.option_match(e, env, arm)
            if self.state_sig(env_after) != self.state_sig(env):
                raise Rs2vError("effectful scrutinee in a value match")
            if any(t != types[0] for t in types):
                raise Rs2vError("match arms of types %r" % (types,))
            return types[0], "(" + text + ")"
        return self.type_of(e, env), self.ex(e, env)

    def state_sig(self, env):
        return tuple(sorted((n, str(v[1])) for n, v in env.items() if n.startswith("self.") or n in self.cfg.get("locals", {})))

    def scrutinee(self, e, env):
        """-> (element type, coq term of the Option, env after evaluating it, key term or None)"""
        if e[0] == "mcall" and e[2] in ("get", "remove") and len(e[3]) == 1 and e[1][0] == "field" and self.is_self(e[1][1]):
            key = "self." + e[1][2]
            if key not in env or env[key][0] not in self.cfg.get("maps", {}):
                raise Rs2vError("match on %s of %s" % (e[2], key))
            mt, mterm = env[key]
            kt = self.type_of(e[3][0], env)
            if kt != self.cfg["maps"][mt]["key"]:
                raise Rs2vError("%s key of type %s" % (e[2], kt))
            kterm = self.ex(e[3][0], env)
            env2 = dict(env)
            if e[2] == "remove":
                if not self.cfg.get("mut_self"):
                    raise Rs2vError("remove on an immutable receiver")
                env2[key] = (mt, "(delete %s %s)" % (kterm, mterm))
            return ("mapval", mt), "%s !! %s" % (mterm, kterm), env2, kterm
        t = self.type_of(e, env)
        if str(t).startswith("opt:") and t != "opt:?":
            return t[4:], self.ex(e, env), env, None
        raise Rs2vError("match scrutinee %r" % (e,))

    def option_match(self, e, env, arm):
        """`match OPT { Some(v) => A, None => B }` (either order, `_` for the remaining case);
        arm(body, env in the arm, env after the scrutinee) -> coq text.  -> (env after the scrutinee, text)"""
        et, sterm, env1, kterm = self.scrutinee(e[1], env)
        some = none = None
        for pat, body in e[2]:
            if pat[0] == "ctor" and pat[1] == ["Some"] and len(pat[2]) == 1 and some is None:
                some = (pat[2][0], body)
            elif pat[0] == "ctor" and pat[1] == ["None"] and not pat[2] and none is None:
                none = body
            elif pat[0] == "wild" and (some is None) != (none is None):
                if some is None:
                    some = (None, body)
                else:
                    none = body
            else:
                raise Rs2vError("match pattern %r" % (pat,))
        if some is None or none is None:
            raise Rs2vError("match on an Option needs a Some and a None arm")
        v = self.newvar(some[0] or "w")
        env2 = self.enter(env1)
        if isinstance(et, tuple):
            vt, vterm = self.cfg.get("map_got", lambda fn, mt, k, var: (fn.cfg["maps"][mt]["val"], var))(self, et[1], kterm, v)
            ctype = self.coq_type(("stored", et[1]))
        else:
            vt, vterm = et, v
            ctype = self.coq_type(et)
        if some[0]:
            env2[some[0]] = (vt, vterm)
            self.declare(env2, some[0])
        self.declare(env2, "%var", v, ctype)
        a = arm(some[1], env2, env1)
        b = arm(none, self.enter(env1), env1)
        return env1, "match %s with\n| Some %s =>\n%s\n| None =>\n%s\nend" % (sterm, v, a, b)

    # ---- statements
    def bind(self, name, e, env, cont, ctx):
        if name in self.cfg.get("locals", {}) and name in env:
            raise Rs2vError("mutable local %s declared twice" % name)
        if e[0] in ("match", "if", "block", "iflet"):
            t, term = self.value_of(e, env)
            v = self.newvar(name)
            env2 = dict(env)
            env2[name] = (t, v)
            self.declare(env2, name, v, self.coq_type(t))
            return "let %s := %s in\n%s" % (v, term, cont(env2))
        return super().bind(name, e, env, lambda env2, _v=None: cont(self.declare(dict(env2), name)), ctx)

    def effect(self, e, env, cont, ctx):
        k = e[0]
        if k == "block":
            return self.run(e[1], e[2], self.enter(env), lambda env2, _v=None: cont(self.leave(env, env2)), ctx)
        if k == "mcall" and e[1][0] == "field" and self.is_self(e[1][1]):
            key, m, args = "self." + e[1][2], e[2], e[3]
            if key in env and env[key][0] in self.cfg.get("maps", {}) and m in ("insert", "remove"):
                if ctx.get("value"):
                    raise Rs2vError("state change inside a value block")
                if not self.cfg.get("mut_self"):
                    raise Rs2vError("%s on an immutable receiver" % m)
                mt, mterm = env[key]
                if self.type_of(args[0], env) != self.cfg["maps"][mt]["key"]:
                    raise Rs2vError("%s key type" % m)
                kterm = self.ex(args[0], env)
                env2 = dict(env)
                if m == "insert" and len(args) == 2:
                    if self.type_of(args[1], env) != self.cfg["maps"][mt]["val"]:
                        raise Rs2vError("insert value type")
                    put = self.cfg.get("map_put", lambda fn, mt_, x, env_: fn.ex(x, env_))
                    env2[key] = (mt, "(<[%s := %s]> %s)" % (kterm, put(self, mt, args[1], env), mterm))
                    return cont(env2)
                if m == "remove" and len(args) == 1:
                    env2[key] = (mt, "(delete %s %s)" % (kterm, mterm))
                    return cont(env2)
            raise Rs2vError("effect %s.%s" % (key, m))
        if k == "mcall" and e[1][0] == "path" and len(e[1][1]) == 1 and e[1][1][0] in env \
                and env[e[1][1][0]][0] in self.cfg.get("lists", {}) and e[1][1][0] in self.cfg.get("locals", {}):
            n, m, args = e[1][1][0], e[2], e[3]
            t, cur = env[n]
            env2 = dict(env)
            if m == "push" and len(args) == 1:
                if self.type_of(args[0], env) != self.cfg["lists"][t]:
                    raise Rs2vError("push of a %s" % self.type_of(args[0], env))
                env2[n] = (t, "(%s ++ [%s])" % (cur, self.ex(args[0], env)))
                return cont(env2)
            if m == "sort" and not args and self.cfg.get("sort"):
                env2[n] = (t, self.cfg["sort"] % cur)
                return cont(env2)
            raise Rs2vError("method %s.%s" % (n, m))
        return super().effect(e, env, cont, ctx)

    def cond(self, e, env, cont, ctx):
        c = self.ex(e[1], env)
        a = self.run(e[2][1], e[2][2], self.enter(env), lambda env2, _v=None: cont(self.leave(env, env2)), ctx)
        if e[3] is None:
            b = cont(env)
        else:
            b = self.run(e[3][1], e[3][2], self.enter(env), lambda env2, _v=None: cont(self.leave(env, env2)), ctx)
        return "if %s then\n%s\nelse\n%s" % (c, a, b)

    def iflet_as_match(self, e):
        """`if let Some(v) = OPT { A } [else { B }]` is `match OPT { Some(v) => { A }, _ => { B } }`"""
        pat, scrut, blk, els = e[1], e[2], e[3], e[4]
        if pat[0] != "ctor" or pat[1] != ["Some"] or len(pat[2]) != 1:
            raise Rs2vError("if let pattern %r" % (pat,))
        return ("match", scrut, [(pat, blk), (("wild",), els if els is not None else ("block", [], None))])

    def iflet(self, e, env, cont, ctx):
        return self.match(self.iflet_as_match(e), env, cont, ctx)

    def match(self, e, env, cont, ctx):
        """statement position: the arms' values are dropped"""
        def arm(body, env2, env1):
            return self.tail(body, env2, lambda env3, _v=None: cont(self.leave(env1, env3)), ctx)
        return self.option_match(e, env, arm)[1]

    def tail(self, e, env, k, ctx):
        if e[0] == "iflet":
            e = self.iflet_as_match(e)
        if e[0] == "match":
            return self.option_match(e, env, lambda body, env2, _env1: self.tail(body, env2, k, ctx))[1]
        if e[0] == "mcall" and self.is_unit_effect(e, env):
            return self.effect(e, env, lambda env2, _v=None: k(env2, None), ctx)
        return super().tail(e, env, k, ctx)

    def is_unit_effect(self, e, env):
        if e[0] == "mcall" and e[1][0] == "field" and self.is_self(e[1][1]) and e[2] == "insert":
            return True
        if e[0] == "mcall" and e[1][0] == "path" and len(e[1][1]) == 1 and e[1][1][0] in env \
                and env[e[1][1][0]][0] in self.cfg.get("lists", {}) and e[2] in ("push", "sort"):
            return True
        return super().is_unit_effect(e, env)

    def result(self, e, env):
        f = self.cfg.get("result")
        return f(self, e, env) if f else self.ex(e, env)

    def ret(self, e, env, ctx):
        if ctx.get("value"):
            raise Rs2vError("return inside a value block")
        if e is None:
            raise Rs2vError("return without a value")
        v = self.result(e, env)
        return "LRet %s" % v if ctx.get("loop") else v

    def final(self, v, env):
        if v is None:
            raise Rs2vError("function ends without a value")
        return self.result(v, env)

    # ---- loops over a Vec / the keys of a map, with early return
    def loop_state(self, env):
        """-> (coq type, pack(env) -> term, unpack(env, state var) -> env)"""
        muts = [n for n in self.cfg.get("locals", {}) if n in env]
        if self.cfg.get("mut_self") and muts:
            raise Rs2vError("loop state with several components (receiver and %s)" % muts)
        if len(muts) > 1:
            raise Rs2vError("loop state with several components %s" % muts)
        if self.cfg.get("mut_self"):
            ss = self.cfg["self_state"]

            def unpack(env_, sv):
                env2 = dict(env_)
                for key, proj in ss["fields"].items():
                    env2[key] = (env_[key][0], proj % sv)
                return env2
            return ss["type"], lambda env_: self.self_term(env_), unpack
        if muts:
            n = muts[0]

            def unpack1(env_, sv):
                env2 = dict(env_)
                env2[n] = (env_[n][0], sv)
                return env2
            return self.coq_type(env[n][0]), lambda env_: env_[n][1], unpack1
        return "unit", lambda env_: "tt", lambda env_, sv: dict(env_)

    def loop(self, s, env, cont, ctx):
        if ctx.get("loop"):
            raise Rs2vError("nested loop")
        if ctx.get("value"):
            raise Rs2vError("loop inside a value block")
        pat, it, body = s[1], s[2], s[3]
        src = it[1] if it[0] == "ref" else it
        if src[0] == "mcall" and src[2] == "iter" and not src[3]:
            src = src[1]
        if src[0] == "mcall" and src[2] == "keys" and not src[3] and self.type_of(src[1], env) in self.cfg.get("maps", {}):
            et = self.cfg["maps"][self.type_of(src[1], env)]["key"]
            lterm = "(map_keys %s)" % self.ex(src[1], env)
        else:
            lt = self.type_of(src, env)
            if lt not in self.cfg.get("lists", {}):
                raise Rs2vError("loop iterator %r" % (it,))
            et = self.cfg["lists"][lt]
            lterm = self.ex(src, env)
        self.nloops += 1
        name = "%s_loop%d" % (self.cfg["coq_name"], self.nloops)
        stype, pack, unpack = self.loop_state(env)
        bound = self.meta(env, "%bound", ())
        seen, binders, args = set(), [], []
        for v, ct in bound:            # a later binder of the same name shadows (names are fresh, so none)
            if v in seen:
                raise Rs2vError("coq variable %s bound twice" % v)
            seen.add(v)
            binders.append("(%s : %s)" % (v, ct))
            args.append(v)
        item = self.newvar(pat)
        benv = self.enter(unpack(env, "st"))
        benv[pat] = (et, item)
        self.declare(benv, pat, item, self.coq_type(et))
        self.declare(benv, "%st", "st", stype)
        body_term = self.run(body[1], body[2], benv, lambda env2, v=None: "LCont %s" % pack(env2), {"loop": True})
        rtype = self.cfg["result_type"]
        self.loops.append((name, "Definition %s %s (st : %s) (%s : %s) : lstep (%s) (%s) :=\n%s.\n" % (
            name, " ".join([self.cfg.get("fn_binders", "")] + binders), stype, item, self.coq_type(et), stype, rtype,
            body_term)))
        sv = self.newvar("st")
        env_after = unpack(env, sv)
        self.declare(env_after, "%st", sv, stype)
        env_after["%decl"] = env.get("%decl", ("meta", frozenset()))
        call = "(%s)" % " ".join([name] + ([self.cfg["fn_args"]] if self.cfg.get("fn_args") else []) + args)
        return "match for_each_ret %s %s %s with\n| LRet r => r\n| LCont %s =>\n%s\nend" % (
            call, lterm, pack(env), sv, cont(env_after))

    def function(self, params, body):
        env = {}
        for pn, _ in params:
            if pn in self.cfg["params"]:
                env[pn] = self.cfg["params"][pn]
        for key, (t, term) in self.cfg.get("self_fields", {}).items():
            env[key] = (t, term)
        env["%bound"] = ("meta", ())
        env["%decl"] = ("meta", frozenset())
        return self.run(body[1], body[2], env, lambda env2, v: self.final(v, env2), {})


# =================================================================================================
# Second wave (first client: lib/gen/parser_gen.py, the rest of duckscript/src/parser.rs).  Purely additive:
# P / Fn / parse_fn above are unchanged; the classes below extend them.
#
#   P2    parser:   `loop { .. }`, `let (a, b) = e;`, struct literals `T { f: e, g }`, `&mut e` kept apart from `&e`
#   Fn2   executor: struct-valued locals and `&mut Struct` parameters (fields are separate symbolic values: `s.f = e`,
#                   `s.f.is_none()`), Option values with PATH REFINEMENT (`if x.is_none() {A} else {B}` becomes
#                   `match x with None => A | Some v => B[x := Some v]`, so a later `x.unwrap()` needs no panic arm; an
#                   unwrap / `v[i]` the executor knows nothing about is hoisted into a match with an explicit panic arm),
#                   `match CALL(..) { Ok(v) => .., Err(e) => return Err(e) }` on callees that return a result type
#                   (`ires`: IOk / IErr / IPanic, or any other shape given by the configuration), tuple destructuring,
#                   `Vec::push / append / is_empty`, `loop {}` with explicit fuel, `for x in s.lines()`, and loop bodies
#                   that take the immutable locals of the enclosing function they use as extra parameters.
#                   The SHAPE of every generated function (parameters, loop state tuple, extra body parameters) is
#                   fixed by the configuration and checked against the source: a source that needs another shape
#                   raises Rs2vError, it never changes the type of a generated definition.
POISON = "\0unavailable"
MUTATORS = ("push", "push_str", "clear", "append")
KEYWORDS = ("if", "match", "loop", "for", "while", "let", "return", "break", "true", "false", "mut", "ref", "in", "else")


class P2(P):
    def unary(self, no_struct):
        if self.at("op", "&") and self.peek(1) == ("id", "mut"):
            self.i += 2
            return ("refmut", self.unary(no_struct))
        return super().unary(no_struct)

    def stmt(self):
        if self.at("id", "loop") and self.peek(1) == ("op", "{"):
            self.i += 1
            b = self.block()
            self.opt("op", ";")
            return ("loop", b)
        if self.at("id", "while"):
            raise Rs2vError("while loop")
        if self.at("id", "let") and (self.peek(1) == ("op", "(")):
            self.i += 2
            names = []
            while not self.at("op", ")"):
                self.opt("id", "mut")
                names.append(self.eat("id"))
                if not self.opt("op", ","):
                    break
            self.eat("op", ")")
            if self.opt("op", ":"):
                self.skip_type()
            self.eat("op", "=")
            e = self.expr()
            self.eat("op", ";")
            return ("lettuple", names, e)
        return super().stmt()

    def atom(self, no_struct):
        a = self.peek()
        if a[0] == "id" and not no_struct and a[1] not in KEYWORDS and not a[1].endswith("!"):
            j = self.i + 1
            while self.t[j] == ("op", "::") and self.t[j + 1][0] == "id":
                j += 2
            last = self.t[j - 1][1]
            if self.t[j] == ("op", "{") and last[:1].isupper() and (
                    self.t[j + 1] == ("op", "}") or
                    (self.t[j + 1][0] == "id" and self.t[j + 2] in (("op", ":"), ("op", ","), ("op", "}")))):
                path = [self.t[x][1] for x in range(self.i, j, 2)]
                self.i = j + 1
                fields = []
                while not self.at("op", "}"):
                    fname = self.eat("id")
                    if self.opt("op", ":"):
                        fields.append((fname, self.expr()))
                    else:
                        fields.append((fname, ("path", [fname])))
                    if not self.opt("op", ","):
                        break
                self.eat("op", "}")
                return ("struct", path, fields)
        return super().atom(no_struct)


def parse_fn2(src, name):
    """like parse_fn, with the P2 grammar"""
    m = re.search(r"(?:pub(?:\([a-z]+\))?\s+)?fn\s+%s\s*\(" % re.escape(name), src)
    if not m:
        raise Rs2vError("fn %s not found" % name)
    p = P2(lex(src[m.start():], stop_after_item=True))
    n, params, body = p.fn()
    return params, body


def read_statics(src):
    """`static NAME: char = 'c';` / `static NAME: &str = "..";` at the top level of a file -> {NAME: (Ty, value)}"""
    out = {}
    for m in re.finditer(r"^(?:pub(?:\([a-z]+\))?\s+)?(?:static|const)\s+(\w+)\s*:\s*([^=;]+?)\s*=\s*([^;]+);", src, re.M):
        name, ty, lit = m.group(1), m.group(2).strip(), m.group(3).strip()
        toks = lex(lit)
        if len(toks) != 2:
            continue
        if ty == "char" and toks[0][0] == "char":
            out[name] = (Ty.CHAR, toks[0][1])
        elif ty in ("&str", "&'static str") and toks[0][0] == "str":
            out[name] = (Ty.STR, toks[0][1])
    return out


def read_struct(src, name):
    """field names of `pub struct NAME { pub f: T, .. }`, with the information whether NAME::new() is all-None:
    #[derive(.. Default ..)], every field an Option<..>, and `fn new() -> NAME { Default::default() }`"""
    m = re.search(r"((?:#\[[^\]]*\]\s*)*)pub\s+struct\s+%s\s*\{(.*?)\n\}" % re.escape(name), src, re.S)
    if not m:
        raise Rs2vError("struct %s not found" % name)
    attrs, body = m.group(1), m.group(2)
    body = re.sub(r"//[^\n]*", "", body)
    fields = re.findall(r"(?:pub\s+)?(\w+)\s*:\s*([^,\n]+(?:<[^\n]*>)?)\s*,", body)
    derive_default = re.search(r"derive\([^)]*\bDefault\b", attrs) is not None
    all_opt = all(t.strip().startswith("Option<") for _, t in fields)
    im = re.search(r"impl\s+%s\s*\{(.*?)\n\}" % re.escape(name), src, re.S)
    new_default = bool(im and re.search(r"fn\s+new\s*\(\s*\)\s*->\s*%s\s*\{\s*Default::default\(\)\s*\}" % re.escape(name),
                                        im.group(1)))
    return [f for f, _ in fields], (derive_default and all_opt and new_default)


def some_inner(term):
    """X when term is literally `(Some X)`"""
    if isinstance(term, str) and term.startswith("(Some ") and term.endswith(")"):
        inner, d = term[6:-1], 0
        for ch in inner:
            if ch == "(":
                d += 1
            elif ch == ")":
                d -= 1
                if d < 0:
                    return None
        return inner if d == 0 else None
    return None


def T_opt(t):
    return ("option", t)


def T_list(t):
    return ("list", t)


def T_tuple(*ts):
    return ("tuple", list(ts))


def T_struct(n):
    return ("struct", n)


def is_struct(t):
    return isinstance(t, tuple) and t[0] == "struct"


RES_SHAPES = {
    # result type of a callee: constructor of success, pattern / payload of failure, panic constructor (or None)
    "ires": {"ok": "IOk %s", "err_pat": "IErr e", "err_payload": "e", "panic": "IPanic"},
    "tres": {"ok": "TOk %s", "err_pat": "TErr e l s", "err_payload": "(e, l, s)", "panic": None},
}


class Fn2(Fn):
    """cfg keys in addition to / instead of Fn's:
      params       {rust name: (type, coq term | {field: (type, term)})}
      locals       {rust name: type}                     declared types of `let mut x = None / vec![] / 1`
      statics      {NAME: (Ty, python value)}            from read_statics
      structs      {Name: {"fields": [(f, type)], "coq": coq type, "mk": fmt over the fields, "proj": {f: fmt}, "new_is_none": bool}}
      fn_params / fn_args                                 binder text / argument text of the loop-body definition
      loop         {"state": [dotted names], "body_params": [(dotted rust name, coq name)], "fuel": coq term,
                    "item": (type, coq type)}            shape of the (single) loop
      step / res   spellings (see parser_gen)
      helpers      {rust fn path: {"call": f(fn, args, env) -> term, "res": key of RES_SHAPES, "ret": type,
                                   "ok": f(fn, args, env, var) -> (coq pattern, env2), "err": f(fn, args, env) -> payload,
                                   "tail": bool}}
      ctor_handlers {rust path: f(fn, args, env) -> (type, term)},  struct_handlers {rust path: f(fn, fields, env) -> (type, term)}
      iflet_ctors  {rust path: coq pattern}
      err_kinds    [names of ScriptError variants that have a model constructor E<name>], is_meta f(fn, e, env) -> bool
      ok_wrap      f(fn, term, env) -> term               what Ok(x) carries in the model besides x
    """

    def __init__(self, cfg):
        super().__init__(cfg)
        self.fresh_names = set()
        self._pack = None
        self._h = 0

    def newvar(self, base):
        v = super().newvar(re.sub(r"\W", "_", base))
        self.fresh_names.add(v)
        return v

    # ---- environment with dotted names (struct fields)
    def lvalue(self, e):
        if e[0] == "path" and len(e[1]) == 1:
            return e[1][0]
        if e[0] == "field":
            b = self.lvalue(e[1])
            return None if b is None else b + "." + e[2]
        return None

    def has(self, env, dotted):
        parts = dotted.split(".")
        if parts[0] not in env:
            return False
        v = env[parts[0]]
        for p in parts[1:]:
            if not (is_struct(v[0]) and isinstance(v[1], dict) and p in v[1]):
                return False
            v = v[1][p]
        return True

    def get(self, env, dotted):
        parts = dotted.split(".")
        if parts[0] not in env:
            raise Rs2vError("unknown variable %s" % parts[0])
        v = env[parts[0]]
        for p in parts[1:]:
            if not (is_struct(v[0]) and isinstance(v[1], dict) and p in v[1]):
                raise Rs2vError("no field %s in %s" % (p, dotted))
            v = v[1][p]
        return v

    def set(self, env, dotted, val):
        parts = dotted.split(".")
        env2 = dict(env)
        if len(parts) == 1:
            env2[dotted] = val
            return env2

        def upd(v, ps):
            if not ps:
                return val
            if not (is_struct(v[0]) and isinstance(v[1], dict) and ps[0] in v[1]):
                raise Rs2vError("no field %s in %s" % (ps[0], dotted))
            d = dict(v[1])
            d[ps[0]] = upd(d[ps[0]], ps[1:])
            return (v[0], d)
        if parts[0] not in env:
            raise Rs2vError("unknown variable %s" % parts[0])
        env2[parts[0]] = upd(env[parts[0]], parts[1:])
        return env2

    def struct_term(self, t, fields):
        """a struct value as one Coq term"""
        sc = self.cfg.get("structs", {}).get(t[1])
        if sc and "term" in sc:
            return sc["term"](self, fields)
        if not sc or "mk" not in sc:
            raise Rs2vError("struct %s has no Coq representation here" % t[1])
        terms = []
        for f, _ft in sc["fields"]:
            ft, term = fields[f]
            terms.append(self.struct_term(ft, term) if isinstance(term, dict) else self.plain(term, f))
        return sc["mk"] % tuple(terms)

    def struct_of_term(self, t, term):
        """the symbolic fields of a struct held in the Coq variable `term`"""
        sc = self.cfg["structs"][t[1]]
        return (t, {f: (ft, sc["proj"][f] % term) for f, ft in sc["fields"]})

    def plain(self, term, what="value"):
        if term == POISON or (isinstance(term, str) and POISON in term):
            raise Rs2vError("%s is not available at this point" % what)
        return term

    def value(self, e, env):
        """(type, term | field dict) of an expression that may denote a whole struct"""
        while e[0] in ("ref", "refmut"):
            e = e[1]
        if e[0] == "mcall" and e[2] in ("clone", "to_owned") and not e[3]:
            return self.value(e[1], env)
        lv = self.lvalue(e)
        if lv is not None and self.has(env, lv):
            return self.get(env, lv)
        if e[0] == "call" and e[1][0] == "path" and len(e[1][1]) == 2 and e[1][1][1] == "new" and not e[2]:
            sc = self.cfg.get("structs", {}).get(e[1][1][0])
            if sc:
                if not sc.get("new_is_none"):
                    raise Rs2vError("%s::new() is not known to be all-None" % e[1][1][0])
                return (T_struct(e[1][1][0]), {f: (ft, "None") for f, ft in sc["fields"]})
        return (self.type_of(e, env), self.ex(e, env))

    # ---- types
    def type_of(self, e, env):
        k = e[0]
        lv = self.lvalue(e)
        if lv is not None and self.has(env, lv):
            return self.get(env, lv)[0]
        if k == "path":
            name = "::".join(e[1])
            if name in self.cfg.get("statics", {}):
                return self.cfg["statics"][name][0]
            if name == "None":
                return None
            if name in self.cfg.get("ctor_types", {}):
                return self.cfg["ctor_types"][name]
        if k in ("ref", "refmut"):
            return self.type_of(e[1], env)
        if k == "num":
            return None
        if k == "tuple":
            return T_tuple(*[self.type_of(x, env) for x in e[1]])
        if k == "struct":
            name = "::".join(e[1])
            if name in self.cfg.get("ctor_types", {}):
                return self.cfg["ctor_types"][name]
        if k == "call" and e[1][0] == "path":
            name = "::".join(e[1][1])
            if name == "Some" and len(e[2]) == 1:
                return T_opt(self.type_of(e[2][0], env))
            if name in self.cfg.get("ctor_types", {}):
                return self.cfg["ctor_types"][name]
        if k == "index":
            t = self.type_of(e[1], env)
            if t in (Ty.STR, "vec"):
                return Ty.CHAR
            if isinstance(t, tuple) and t[0] == "list":
                return t[1]
            raise Rs2vError("index into %s" % (t,))
        if k == "mcall":
            m = e[2]
            if m == "unwrap":
                t = self.type_of(e[1], env)
                if isinstance(t, tuple) and t[0] == "option":
                    return t[1]
                raise Rs2vError("unwrap on %s" % (t,))
            if m in ("trim", "trim_start", "trim_end"):
                return Ty.STR
            if m in ("starts_with", "is_some", "is_none", "is_empty"):
                return Ty.BOOL
            if m == "len":
                return Ty.NAT
            if m in ("to_string", "clone", "to_owned"):
                t = self.type_of(e[1], env)
                return Ty.STR if t == Ty.STR_REV else t
        return super().type_of(e, env)

    # ---- pure expressions
    def ex(self, e, env):
        k = e[0]
        lv = self.lvalue(e)
        if lv is not None and self.has(env, lv):
            t, term = self.get(env, lv)
            if isinstance(term, dict):
                return self.struct_term(t, term)
            self.plain(term, lv)
            if t == Ty.STR_REV:
                return "(rev %s)" % term
            return term
        if k == "path":
            name = "::".join(e[1])
            st = self.cfg.get("statics", {}).get(name)
            if st:
                return coq_char(st[1]) if st[0] == Ty.CHAR else coq_str_lit(st[1])
            if name == "None":
                return "None"
            h = self.cfg.get("ctor_handlers", {}).get(name)
            if h:
                return h(self, [], env)[1]
        if k == "refmut":
            return self.ex(e[1], env)
        if k == "struct":
            h = self.cfg.get("struct_handlers", {}).get("::".join(e[1]))
            if not h:
                raise Rs2vError("struct literal %s" % "::".join(e[1]))
            return h(self, e[2], env)[1]
        if k == "call" and e[1][0] == "path":
            name = "::".join(e[1][1])
            if name == "Some" and len(e[2]) == 1:
                return "(Some %s)" % self.ex(e[2][0], env)
            h = self.cfg.get("ctor_handlers", {}).get(name)
            if h:
                return h(self, e[2], env)[1]
            if name == "String::new" and not e[2]:
                return "[]"
        if k == "index":
            raise Rs2vError("v[i] in a position where it cannot be hoisted")
        if k == "mcall":
            recv, m, args = e[1], e[2], e[3]
            if m in ("is_some", "is_none") and not args:
                return "(opt_%s %s)" % (m, self.ex(recv, env))
            if m == "is_empty" and not args:
                rl = self.lvalue(recv)
                if rl is not None and self.has(env, rl) and self.get(env, rl)[0] == Ty.STR_REV:
                    return "(list_is_empty %s)" % self.plain(self.get(env, rl)[1], rl)
                return "(list_is_empty %s)" % self.ex(recv, env)
            if m == "unwrap" and not args:
                inner = some_inner(self.ex(recv, env))
                if inner is None:
                    raise Rs2vError("unwrap in a position where it cannot be hoisted")
                return inner
            if m == "trim" and not args:
                return "(trim %s)" % self.ex(recv, env)
            if m == "starts_with" and len(args) == 1:
                return "(str_starts_with %s %s)" % (self.ex(args[0], env), self.ex(recv, env))
            if m == "len" and not args:
                return "(length %s)" % self.ex(recv, env)
            if m in ("to_string", "clone", "to_owned") and not args:
                return self.ex(recv, env)
        return super().ex(e, env)

    # ---- partial sub-expressions (v[i], x.unwrap()) are bound by an explicit match before the statement that uses them
    def hoist(self, e, env, ctx, k, hint="x"):
        pend = []

        def walk(n, guarded):
            if isinstance(n, list):
                return [walk(x, guarded) for x in n]
            if not isinstance(n, tuple) or not n:
                return n
            if n[0] in ("if", "iflet", "match", "block", "char", "str", "num", "bool"):
                return n
            if n[0] == "path":
                return n
            if n[0] == "index":
                if guarded:
                    raise Rs2vError("v[i] on the right of a short-circuit operator")
                sub = ("index", walk(n[1], guarded), walk(n[2], guarded))
                self._h += 1
                tmp = "%%h%d" % self._h
                pend.append((tmp, "index", sub))
                return ("path", [tmp])
            if n[0] == "mcall" and n[2] == "unwrap" and not n[3]:
                recv = walk(n[1], guarded)
                if guarded:
                    raise Rs2vError("unwrap on the right of a short-circuit operator")
                self._h += 1
                tmp = "%%h%d" % self._h
                pend.append((tmp, "unwrap", recv))
                return ("path", [tmp])
            if n[0] == "bin" and n[1] in ("&&", "||"):
                return ("bin", n[1], walk(n[2], guarded), walk(n[3], True))
            if n[0] == "struct":
                return ("struct", n[1], [(f, walk(x, guarded)) for f, x in n[2]])
            return tuple(walk(x, guarded) if isinstance(x, (tuple, list)) else x for x in n)

        e2 = walk(e, False)

        def bindall(i, env_):
            if i == len(pend):
                return k(e2, env_)
            tmp, kind, sub = pend[i]
            env2 = dict(env_)
            if kind == "index":
                et = self.type_of(sub, env_)
                v = self.newvar(hint)
                env2[tmp] = (et, v)
                return "match nth_error %s %s with\n| None => %s\n| Some %s =>\n%s\nend" % (
                    self.ex(sub[1], env_), self.num(sub[2], Ty.NAT, env_), self.panic_term(ctx), v, bindall(i + 1, env2))
            t = self.type_of(sub, env_)
            if not (isinstance(t, tuple) and t[0] == "option"):
                raise Rs2vError("unwrap on %s" % (t,))
            term = self.ex(sub, env_)
            inner = some_inner(term)
            if inner is not None:
                env2[tmp] = (t[1], inner)
                return bindall(i + 1, env2)
            v = self.newvar(hint)
            env2[tmp] = (t[1], v)
            return "match %s with\n| None => %s\n| Some %s =>\n%s\nend" % (term, self.panic_term(ctx), v, bindall(i + 1, env2))
        return bindall(0, env)

    # ---- outcomes
    def panic_term(self, ctx):
        p = self.cfg["step"]["panic"] if ctx.get("loop") else self.cfg["res"]["panic"]
        if not p:
            raise Rs2vError("a panic is not expressible here")
        return p

    def fail_term(self, payload, ctx):
        if ctx.get("loop"):
            return self.cfg["step"]["fail"] % payload
        return self.cfg["res"]["err"] % payload

    def err_payload(self, x, env):
        """the model's error payload for the Rust error expression x"""
        if x[0] == "path" and len(x[1]) == 1 and x[1][0] in env and env[x[1][0]][0] == "error":
            return env[x[1][0]][1]
        if x[0] == "call" and x[1][0] == "path" and len(x[1][1]) == 2 and x[1][1][0] == "ScriptError" and len(x[2]) == 1:
            kind = x[1][1][1]
            if kind not in self.cfg.get("err_kinds", ()):
                raise Rs2vError("error kind %s has no model constructor" % kind)
            im = self.cfg.get("is_meta")
            if not im or not im(self, x[2][0], env):
                raise Rs2vError("error %s does not carry the function's meta_info" % kind)
            f = self.cfg.get("err_fmt", "%s")
            return f % ("E" + kind)
        raise Rs2vError("error value %r" % (x,))

    def result(self, e, env, ctx):
        """the function's result (`return e` or the tail value) in context ctx"""
        if e[0] == "call" and e[1][0] == "path":
            name = "::".join(e[1][1])
            if name == "Ok" and len(e[2]) == 1:
                if ctx.get("loop"):
                    raise Rs2vError("return Ok(..) inside the loop")

                def fin(x2, env2):
                    term = self.ex(x2, env2)
                    w = self.cfg.get("ok_wrap")
                    if w:
                        term = w(self, term, env2)
                    return self.cfg["res"]["ok"] % term
                return self.hoist(e[2][0], env, ctx, fin)
            if name == "Err" and len(e[2]) == 1:
                return self.fail_term(self.err_payload(e[2][0], env), ctx)
            h = self.helper(e[1][1])
            if h and h.get("tail") and not ctx.get("loop"):
                return h["call"](self, e[2], env)
        raise Rs2vError("result value %r" % (e,))

    def ret(self, e, env, ctx):
        if e is None:
            raise Rs2vError("return without a value")
        return self.result(e, env, ctx)

    def final(self, v, env):
        if v is None:
            raise Rs2vError("function ends without a value")
        return self.result(v, env, {})

    def helper(self, path):
        hs = self.cfg.get("helpers", {})
        return hs.get("::".join(path)) or hs.get(path[-1])

    # ---- scoping of blocks in statement position
    def declared(self, node):
        """names a block declares at its own level (let / let (..))"""
        out = set()
        if isinstance(node, tuple) and node and node[0] == "block":
            for s in node[1]:
                if s[0] == "let":
                    out.add(s[1])
                elif s[0] == "lettuple":
                    out.update(s[1])
        return out

    def restrict(self, env3, env, blocks=(), names=()):
        d = set(names)
        for b in blocks:
            if b is not None:
                d |= self.declared(b)
        sh = sorted(x for x in d if x in env)
        if sh:
            raise Rs2vError("a nested block re-declares %s" % ", ".join(sh))
        return {x: env3[x] for x in env}

    # ---- statements
    def stmt(self, s, env, cont, ctx):
        k = s[0]
        if k == "lettuple":
            return self.bind_tuple(s[1], s[2], env, cont, ctx)
        if k in ("loop", "for"):
            return self.loop2(s, env, cont, ctx)
        if k == "break":
            if not ctx.get("loop"):
                raise Rs2vError("break outside a loop")
            return self.cfg["step"]["brk"] % self._pack(env)
        return super().stmt(s, env, cont, ctx)

    def loop(self, s, env, cont, ctx):
        return self.loop2(s, env, cont, ctx)

    def bind_tuple(self, names, e, env, cont, ctx):
        t = self.type_of(e, env)
        if not (isinstance(t, tuple) and t[0] == "tuple" and len(t[1]) == len(names)):
            raise Rs2vError("let (%s) = a value of type %s" % (", ".join(names), t))
        term = self.ex(e, env)
        env2 = dict(env)
        vs = []
        for n, nt in zip(names, t[1]):
            v = self.newvar(n if n != "_" else "w")
            vs.append(v)
            if n != "_":
                env2[n] = (nt, v)
        return "match %s with\n| (%s) =>\n%s\nend" % (term, ", ".join(vs), cont(env2))

    def bind(self, name, e, env, cont, ctx):
        while e[0] == "block" and not e[1] and e[2] is not None:
            e = e[2]
        declared_t = self.cfg.get("locals", {}).get(name)
        if e[0] == "if":
            t, term = self.pure_cond(e, env)
            env2 = dict(env)
            env2[name] = (declared_t or t, term)
            return cont(env2)
        if e[0] == "match":
            def k(env2, v):
                if v is None:
                    raise Rs2vError("let %s = match .. without a value" % name)
                return self.bind(name, v, env2, lambda env3, _v=None: cont(self.keep(env3, env, name)), ctx)
            return self.match_(e, env, k, ctx)
        if e[0] == "mcall" and e[2] == "collect" and not e[3] and e[1][0] == "mcall" and e[1][2] == "chars" and not e[1][3]:
            return self.bind(name, e[1][1], env, cont, ctx)      # let chars: Vec<char> = s.chars().collect();
        if e[0] == "call" and e[1] == ("path", ["String", "new"]) and not e[2]:
            env2 = dict(env)
            env2[name] = (declared_t or Ty.STR, "[]")
            return cont(env2)
        if e[0] == "macro" and e[1] == "vec" and not e[2]:
            if declared_t is None:
                raise Rs2vError("type of local %s unknown" % name)
            env2 = dict(env)
            env2[name] = (declared_t, "[]")
            return cont(env2)

        def k2(e2, env2):
            if e2[0] == "num":
                if declared_t is None:
                    raise Rs2vError("type of local %s unknown" % name)
                t, val = declared_t, self.num(e2, declared_t, env2)
            else:
                t, val = self.value(e2, env2)
            if isinstance(val, dict):
                env3 = dict(env2)
                env3[name] = (t, val)
                return cont(env3)
            t = declared_t or t
            if t is None:
                raise Rs2vError("type of local %s unknown" % name)
            if t == Ty.STR_REV and val != "[]":
                raise Rs2vError("a reversed string local initialised with a value")
            env3 = dict(env2)
            env3[name] = (t, val)
            return cont(env3)
        return self.hoist(e, env, ctx, k2, hint=name)

    def keep(self, env3, env, name):
        out = {x: env3[x] for x in env}
        out[name] = env3[name]
        return out

    def pure_cond(self, e, env):
        if e[0] == "if":
            a, b = e[2], e[3]
            if a[1] or a[2] is None or b is None or b[1] or b[2] is None:
                raise Rs2vError("let x = if .. with statements")
            c = self.ex(e[1], env)
            ta, tb = self.type_of(a[2], env), self.type_of(b[2], env)
            return (ta or tb, "(if %s then %s else %s)" % (c, self.ex(a[2], env), self.ex(b[2], env)))
        raise Rs2vError("let x = %s .." % e[0])

    def assign(self, s, env, cont, ctx):
        lhs, op, rhs = s[1], s[2], s[3]
        lv = self.lvalue(lhs)
        if lv is None or not self.has(env, lv):
            raise Rs2vError("assignment to %r" % (lhs,))
        t, cur = self.get(env, lv)
        if op == "=" and rhs[0] == "match":
            def k(env2, v):
                if v is None:
                    raise Rs2vError("%s = match .. without a value" % lv)
                return self.assign(("assign", lhs, "=", v), env2, lambda env3, _v=None: cont(self.restrict(env3, env)), ctx)
            return self.match_(rhs, env, k, ctx)
        if op in ("+=", "-=") or (op == "=" and rhs[0] == "bin" and rhs[1] in ("+", "-") and rhs[2] == lhs):
            amount = rhs if op != "=" else rhs[3]
            sign = op[0] if op != "=" else rhs[1]
            if amount != ("num", 1) or isinstance(cur, dict):
                raise Rs2vError("assignment %s %s %r" % (lv, op, rhs))
            self.plain(cur, lv)
            if sign == "+" and t == Ty.NAT:
                return cont(self.set(env, lv, (t, "(S %s)" % cur)))
            if sign == "+" and t == Ty.NUM_N:
                return cont(self.set(env, lv, (t, "(%s + 1)%%N" % cur)))
            if sign == "-" and t == Ty.NAT:
                v = self.newvar(lv)
                return "match usize_dec %s with\n| None => %s\n| Some %s =>\n%s\nend" % (
                    cur, self.panic_term(ctx), v, cont(self.set(env, lv, (t, v))))
            raise Rs2vError("assignment %s %s on %s" % (lv, op, t))
        if op != "=":
            raise Rs2vError("assignment operator %s" % op)

        def k2(e2, env2):
            vt, val = (t, self.num(e2, t, env2)) if e2[0] == "num" else self.value(e2, env2)
            if isinstance(val, dict) != isinstance(cur, dict):
                raise Rs2vError("assignment of a struct to a non-struct (%s)" % lv)
            if not isinstance(val, dict):
                if t == Ty.STR_REV:
                    raise Rs2vError("assignment to the reversed string %s" % lv)
            return cont(self.set(env2, lv, (t, val)))
        return self.hoist(rhs, env, ctx, k2, hint=lv)

    def is_unit_effect(self, e, env):
        if e[0] == "mcall" and e[2] in MUTATORS:
            lv = self.lvalue(e[1])
            return lv is not None and self.has(env, lv)
        return False

    def effect(self, e, env, cont, ctx):
        k = e[0]
        if k == "if":
            return self.if_(e, env, lambda env2, _v=None: cont(self.restrict(env2, env, (e[2], e[3]))), ctx)
        if k == "iflet":
            return self.iflet2(e, env, lambda env2, _v=None: cont(self.restrict(env2, env, (e[3], e[4]), [x for x in e[1][2] if x])),
                               ctx)
        if k == "match":
            names = [x for pat, _b in e[2] if pat[0] == "ctor" for x in pat[2] if x]
            return self.match_(e, env, lambda env2, _v=None: cont(self.restrict(env2, env, [b for _p, b in e[2]], names)), ctx)
        if k == "block":
            return self.run(e[1], e[2], env, lambda env2, _v=None: cont(self.restrict(env2, env, (e,))), ctx)
        if k == "mcall" and e[2] in MUTATORS:
            lv = self.lvalue(e[1])
            if lv is None or not self.has(env, lv):
                raise Rs2vError("method %s on %r" % (e[2], e[1]))
            t, cur = self.get(env, lv)
            m, args = e[2], e[3]
            if isinstance(cur, dict):
                raise Rs2vError("method %s on the struct %s" % (m, lv))
            self.plain(cur, lv)

            def k2(a2, env2):
                if isinstance(t, tuple) and t[0] == "list":
                    if m == "push" and len(a2) == 1:
                        at, av = self.value(a2[0], env2)
                        a = self.struct_term(at, av) if isinstance(av, dict) else av
                        return cont(self.set(env2, lv, (t, "(%s ++ [%s])" % (cur, a))))
                    if m == "append" and len(a2) == 1 and a2[0][0] == "refmut":
                        src = self.lvalue(a2[0][1])
                        if src is None or not self.has(env2, src) or self.get(env2, src)[0] != t:
                            raise Rs2vError("append of %r" % (a2[0],))
                        env3 = self.set(env2, lv, (t, "(%s ++ %s)" % (cur, self.plain(self.get(env2, src)[1], src))))
                        return cont(self.set(env3, src, (t, "[]")))
                    if m == "clear" and not a2:
                        return cont(self.set(env2, lv, (t, "[]")))
                if t in (Ty.STR, Ty.STR_REV):
                    if m == "push" and len(a2) == 1:
                        a = self.ex(a2[0], env2)
                        return cont(self.set(env2, lv, (t, "(%s ++ [%s])" % (cur, a) if t == Ty.STR else "(%s :: %s)" % (a, cur))))
                    if m == "push_str" and len(a2) == 1:
                        lit = a2[0]
                        while lit[0] == "ref":
                            lit = lit[1]
                        if t == Ty.STR_REV:
                            a = coq_str_lit(lit[1][::-1]) if lit[0] == "str" else "(rev %s)" % self.ex(lit, env2)
                            return cont(self.set(env2, lv, (t, "(%s ++ %s)" % (a, cur))))
                        return cont(self.set(env2, lv, (t, "(%s ++ %s)" % (cur, self.ex(lit, env2)))))
                    if m == "clear" and not a2:
                        return cont(self.set(env2, lv, (t, "[]")))
                raise Rs2vError("method %s.%s on %s" % (lv, m, t))
            return self.hoist(args, env, ctx, k2, hint="x")
        raise Rs2vError("effect %r" % (e,))

    def cond(self, e, env, cont, ctx):
        return self.effect(e, env, cont, ctx)

    def opt_test(self, c, env):
        """(dotted name, True for is_some) when c is `[!]x.is_some()` / `[!]x.is_none()` on an Option-typed variable / field"""
        pos = True
        while c[0] == "not":
            pos = not pos
            c = c[1]
        if c[0] == "mcall" and c[2] in ("is_some", "is_none") and not c[3]:
            lv = self.lvalue(c[1])
            if lv is not None and self.has(env, lv):
                t, term = self.get(env, lv)
                if isinstance(t, tuple) and t[0] == "option" and not isinstance(term, dict):
                    return lv, (pos if c[2] == "is_some" else not pos)
        return None

    def runblk(self, blk, env, k, ctx):
        if blk is None:
            return k(env, None)
        return self.run(blk[1], blk[2], env, k, ctx)

    def if_(self, e, env, k, ctx):
        c, a, b = e[1], e[2], e[3]
        ot = self.opt_test(c, env)
        if ot:
            lv, positive = ot
            t, term = self.get(env, lv)
            self.plain(term, lv)
            inner = some_inner(term)
            if inner is not None or term == "None":
                return self.runblk(a if (inner is not None) == positive else b, env, k, ctx)
            v = self.newvar(lv)
            some_blk, none_blk = (a, b) if positive else (b, a)
            return "match %s with\n| Some %s =>\n%s\n| None =>\n%s\nend" % (
                term, v, self.runblk(some_blk, self.set(env, lv, (t, "(Some %s)" % v)), k, ctx),
                self.runblk(none_blk, self.set(env, lv, (t, "None")), k, ctx))
        return self.hoist(c, env, ctx, lambda c2, env2: "if %s then\n%s\nelse\n%s" % (
            self.ex(c2, env2), self.runblk(a, env2, k, ctx), self.runblk(b, env2, k, ctx)), hint="x")

    def iflet(self, e, env, cont, ctx):
        return self.effect(e, env, cont, ctx)

    def iflet2(self, e, env, k, ctx):
        pat, scrut, blk, els = e[1], e[2], e[3], e[4]
        if pat[0] != "ctor":
            raise Rs2vError("if let pattern %r" % (pat,))
        name = "::".join(pat[1])
        if name == "Some" and len(pat[2]) == 1:
            return self.opt_match(scrut, pat[2][0], blk, els, env, k, ctx)
        cp = self.cfg.get("iflet_ctors", {}).get(name)
        if cp and all(x is None for x in pat[2]):
            term = self.ex(scrut, env)
            return "match %s with\n| %s =>\n%s\n| _ =>\n%s\nend" % (term, cp, self.runblk(blk, env, k, ctx),
                                                                  self.runblk(els, env, k, ctx))
        raise Rs2vError("if let pattern %s" % name)

    def opt_match(self, scrut, var, some_blk, none_blk, env, k, ctx):
        """match scrut { Some(var) => some_blk, None => none_blk } on an Option value, with refinement of a variable"""
        while scrut[0] in ("ref", "refmut"):
            scrut = scrut[1]
        lv = self.lvalue(scrut)
        t = self.type_of(scrut, env)
        if not (isinstance(t, tuple) and t[0] == "option"):
            raise Rs2vError("Some(..) pattern on %s" % (t,))
        term = self.ex(scrut, env)
        inner = some_inner(term)
        if inner is not None:
            env2 = dict(env)
            if var:
                env2[var] = (t[1], inner)
            return self.runblk(some_blk, env2, k, ctx)
        if term == "None":
            return self.runblk(none_blk, env, k, ctx)
        v = self.newvar(var or "x")
        refinable = lv is not None and self.has(env, lv)
        env_s = self.set(env, lv, (t, "(Some %s)" % v)) if refinable else dict(env)
        if var:
            env_s[var] = (t[1], v)
        env_n = self.set(env, lv, (t, "None")) if refinable else env
        return "match %s with\n| Some %s =>\n%s\n| None =>\n%s\nend" % (
            term, v, self.runblk(some_blk, env_s, k, ctx), self.runblk(none_blk, env_n, k, ctx))

    def match(self, e, env, cont, ctx):
        return self.effect(e, env, cont, ctx)

    def arm(self, body, env, k, ctx):
        if body[0] == "block":
            return self.run(body[1], body[2], env, k, ctx)
        return self.tail(body, env, k, ctx)

    def match_(self, e, env, k, ctx):
        scrut, arms = e[1], e[2]
        byc = {}
        for pat, body in arms:
            if pat[0] != "ctor" or len(pat[1]) != 1 or pat[1][0] in byc:
                raise Rs2vError("match pattern %r" % (pat,))
            byc[pat[1][0]] = (pat[2], body)
        if scrut[0] == "call" and scrut[1][0] == "path":
            h = self.helper(scrut[1][1])
            if not h or not h.get("res"):
                raise Rs2vError("match on a call of %s" % "::".join(scrut[1][1]))
            if set(byc) != {"Ok", "Err"} or len(byc["Ok"][0]) != 1 or len(byc["Err"][0]) != 1:
                raise Rs2vError("match arms %s on a Result" % sorted(byc))
            shape = RES_SHAPES[h["res"]]
            call = h["call"](self, scrut[2], env)
            okvar, okbody = byc["Ok"][0][0], byc["Ok"][1]
            if h.get("ok"):
                okpat, env_ok = h["ok"](self, scrut[2], env, okvar)
            else:
                v = self.newvar(okvar or "r")
                okpat, env_ok = v, dict(env)
                if okvar:
                    env_ok[okvar] = (h["ret"], v)
            errvar, errbody = byc["Err"][0][0], byc["Err"][1]
            env_err = dict(env)
            if errvar:
                env_err[errvar] = ("error", h["err"](self, scrut[2], env) if h.get("err") else shape["err_payload"])
            out = ["match %s with" % call,
                   "| %s =>" % (shape["ok"] % okpat), self.arm(okbody, env_ok, k, ctx),
                   "| %s =>" % shape["err_pat"], self.arm(errbody, env_err, k, ctx)]
            if shape["panic"]:
                out += ["| %s => %s" % (shape["panic"], self.panic_term(ctx))]
            out.append("end")
            return "\n".join(out)
        if set(byc) == {"Some", "None"} and len(byc["Some"][0]) == 1 and not byc["None"][0]:
            sb, nb = byc["Some"][1], byc["None"][1]
            wrap = lambda b: b if b[0] == "block" else ("block", [], b)  # noqa: E731
            return self.opt_match(scrut, byc["Some"][0][0], wrap(sb), wrap(nb), env, k, ctx)
        raise Rs2vError("match scrutinee %r" % (scrut,))

    def tail(self, e, env, k, ctx):
        if e[0] == "if":
            return self.if_(e, env, k, ctx)
        if e[0] == "match":
            return self.match_(e, env, k, ctx)
        if e[0] == "iflet":
            return self.iflet2(e, env, k, ctx)
        if e[0] == "block":
            return self.run(e[1], e[2], env, k, ctx)
        if self.is_unit_effect(e, env):
            return self.effect(e, env, lambda env2, _v=None: k(env2, None), ctx)
        return k(env, e)

    # ---- the loop
    def assigned_names(self, node):
        out = set()

        def walk(n):
            if isinstance(n, list):
                for x in n:
                    walk(x)
                return
            if not isinstance(n, tuple) or not n:
                return
            if n[0] == "assign":
                lv = self.lvalue(n[1])
                out.add(lv if lv is not None else "?")
            elif n[0] == "mcall" and n[2] in MUTATORS:
                lv = self.lvalue(n[1])
                out.add(lv if lv is not None else "?")
            elif n[0] == "refmut":
                lv = self.lvalue(n[1])
                out.add(lv if lv is not None else "?")
            for x in n:
                if isinstance(x, (tuple, list)):
                    walk(x)
        walk(node)
        return out

    def is_closed(self, term):
        return not (set(re.findall(r"[A-Za-z_][A-Za-z0-9_']*", term)) & self.fresh_names)

    def loop2(self, s, env, cont, ctx):
        if ctx.get("loop"):
            raise Rs2vError("nested loop")
        if self.loops:
            raise Rs2vError("more than one loop")
        lc = self.cfg.get("loop")
        if not lc:
            raise Rs2vError("a loop, but no loop is configured for this function")
        if s[0] == "loop":
            pat, it, body = None, None, s[1]
        else:
            pat, it, body = s[1], s[2], s[3]
        state = lc["state"]
        for n in state:
            if not self.has(env, n) or isinstance(self.get(env, n)[1], dict):
                raise Rs2vError("loop state variable %s is not in scope" % n)
        for a in sorted(self.assigned_names(body)):
            root = a.split(".")[0]
            if a == "?":
                raise Rs2vError("the loop assigns to something that is not a variable")
            if root in env and not any(a == n or a.startswith(n + ".") for n in state):
                raise Rs2vError("the loop assigns %s, which is not part of the configured state (%s)" % (a, ", ".join(state)))
        bparams = lc.get("body_params", [])
        bp = dict(bparams)

        def close(dotted, tv):
            t, term = tv
            if isinstance(term, dict):
                return (t, {f: close(dotted + "." + f, x) for f, x in term.items()})
            if dotted in bp:
                return (t, bp[dotted])
            return (t, term if (term != POISON and self.is_closed(term)) else POISON)
        benv = {n: close(n, tv) for n, tv in env.items()}
        svars = []
        for n in state:
            v = self.newvar(n)
            svars.append(v)
            benv = self.set(benv, n, (self.get(env, n)[0], v))
        name = "%s_body" % self.cfg["coq_name"]
        call = "(%s%s%s)" % (name, (" " + self.cfg["fn_args"]) if self.cfg.get("fn_args") else "",
                             "".join(" " + self.plain(self.ex(self.field_path(n), env), n) for n, _c in bparams))

        def pack(env_):
            ts = [self.plain(self.get(env_, n)[1], n) for n in state]
            return ts[0] if len(ts) == 1 else "(" + ", ".join(ts) + ")"
        init = pack(env)
        item_decl = ""
        if s[0] == "loop":
            if not lc.get("fuel"):
                raise Rs2vError("`loop` without a configured fuel expression")
            drive = "loop_fuel %s %s %s" % (call, lc["fuel"], init)
        elif it[0] == "bin" and it[1] == "..":
            if pat in self.used_names(body):
                raise Rs2vError("range loop variable is used")
            drive = "for_n %s (%s - %s)%%nat %s" % (call, self.ex(it[3], env), self.ex(it[2], env), init)
        elif it[0] == "mcall" and it[2] == "lines" and not it[3] and lc.get("item"):
            item = self.newvar(pat)
            benv[pat] = (lc["item"][0], item)
            item_decl = " (%s : %s)" % (item, lc["item"][1])
            drive = "%s %s (lines %s) %s" % (lc.get("for_each", "for_each_x"), call, self.ex(it[1], env), init)
        else:
            raise Rs2vError("loop iterator %r" % (it,))
        stp = self.cfg["step"]
        self._pack = pack
        body_term = self.run(body[1], body[2], benv, lambda env2, v=None: stp["cont"] % pack(env2), {"loop": True})
        self._pack = None
        if POISON in body_term:
            raise Rs2vError("the loop body uses a local of the enclosing function that is not one of its parameters")
        spat = svars[0] if len(svars) == 1 else "(" + ", ".join(svars) + ")"
        self.loops.append((name, "Definition %s%s%s (st : %s)%s : %s :=\nmatch st with\n| %s =>\n%s\nend.\n" % (
            name, (" " + self.cfg["fn_params"]) if self.cfg.get("fn_params") else "",
            "".join(" (%s : %s)" % (c, lc["body_param_types"][c]) for _n, c in bparams),
            lc["state_type"], item_decl, stp["type"], spat, body_term)))
        avars = [self.newvar(n) for n in state]
        env_after = env
        for n, v in zip(state, avars):
            env_after = self.set(env_after, n, (self.get(env, n)[0], v))
        apat = avars[0] if len(avars) == 1 else "(" + ", ".join(avars) + ")"
        return self.cfg["res"]["consume"] % {"drive": drive, "pat": apat, "after": cont(env_after)}

    def field_path(self, dotted):
        parts = dotted.split(".")
        e = ("path", [parts[0]])
        for p in parts[1:]:
            e = ("field", e, p)
        return e

    # ---- whole function
    def function(self, params, body):
        env = {}
        for pn, _ in params:
            if pn in self.cfg["params"]:
                env[pn] = self.cfg["params"][pn]
        return self.run(body[1], body[2], env, lambda env2, v: self.final(v, env2), {})


# =================================================================================================
# Glue wave (builder B16; first client: lib/gen/cli_gen.py — duckscript_cli/src/main.rs and linter.rs).  Purely
# additive: nothing above this line is changed, the classes below extend P2 / Fn2.
#
#   lex_q / PQ / parse_fn_q   the `?` operator (postfix, ("try", e)); otherwise the P2 grammar
#   FnGlue   executor for "glue" functions that decide which callee runs and hand its verdict on:
#     * the function result is built by the configuration (`result_handler`), so a function can return a model value
#       of any type (an `option lint_kind`, a `result`, an `action`, a pair ..); a function without a value
#       (`fn main`) ends in `final_unit`; `exit(<literal>)` ends it through `exit_handler`;
#     * callees that return a `Result` and are abstracted by the model (library verdicts) are described by `results`:
#       `match CALL(..) { Ok(x) => A, Err(e) => B }` (either order, `_` for the arm that is not named), `CALL(..)?`
#       as a statement or as the value of a `let` (Err(e) => return Err(e));
#     * `match VALUE { Path::Ctor(ref x) => A, .., _ => B }` on a value whose model type is described by `enums`
#       (also as the value of a `let`: the continuation is copied into the arms);
#     * `let (a, b, c) = if C { (x, y, z) } else { .. };` — the `if` is pushed outwards (the continuation is copied
#       into the branches), tuple literals bind their components directly;
#     * `v[<literal>]` on a Vec the function never mutates (`const_lists`) is bound ONCE by
#       `match nth_error v i with None => <panic> | Some x => ..` and reused inside that arm — so
#       `args[1] == "a" || args[1] == "b"` needs no second (unreachable) panic arm and is allowed on the right of `||`
#       when the same element was already read on every path to it;
#     * `for x in &list { .. return e; .. }` over a list-typed value (Rs2vCliLib.for_each_r, `lstep`: LCont / LRet);
#     * `println!` / `print!` only write to stdout: `print_handler` may record a tag (env["%printed"]) and otherwise the
#       arguments are not looked at (Display of the values cannot change control flow);
#     * an `if` whose condition is a known literal (`let run = true` bound through a tuple) is decided here.
#   Everything not understood raises Rs2vError.
TOK_Q = re.compile(TOK.pattern.replace(r"[{}()\[\];,.:=<>!&+\-*|]", r"[{}()\[\];,.:=<>!&+\-*|?]"), re.S | re.X)
if TOK_Q.pattern == TOK.pattern:
    raise Rs2vError("rs2v: the operator class of TOK changed; TOK_Q must be adapted")


def lex_q(src, stop_after_item=False):
    """lex with the `?` operator"""
    pos, toks = 0, []
    depth, opened = 0, False
    while pos < len(src):
        if stop_after_item and opened and depth == 0:
            break
        m = TOK_Q.match(src, pos)
        if not m:
            raise Rs2vError("cannot tokenise at: %r" % src[pos:pos + 30])
        pos = m.end()
        k = m.lastgroup
        if k == "ws":
            continue
        t = m.group(k)
        if k == "char":
            toks.append(("char", unescape(t[1:-1])))
        elif k == "str":
            toks.append(("str", unescape(t[1:-1])))
        elif k == "num":
            toks.append(("num", int(t)))
        elif k == "id":
            toks.append(("id", t))
        else:
            toks.append(("op", t))
            if t == "{":
                depth += 1
                opened = True
            elif t == "}":
                depth -= 1
    toks.append(("eof", None))
    return toks


class PQ(P2):
    def postfix(self, e):
        while True:
            e = super().postfix(e)
            if self.opt("op", "?"):
                e = ("try", e)
                continue
            return e


def parse_fn_q(src, name):
    """-> (params, body) of the free function `name`, PQ grammar; exactly one definition must exist"""
    ms = list(re.finditer(r"(?:pub(?:\([a-z]+\))?\s+)?fn\s+%s\s*\(" % re.escape(name), src))
    if len(ms) != 1:
        raise Rs2vError("fn %s: %d definitions" % (name, len(ms)))
    p = PQ(lex_q(src[ms[0].start():], stop_after_item=True))
    n, params, body = p.fn()
    return params, body


class FnGlue(Fn2):
    """cfg keys in addition to Fn2's (all optional):
      result_handler  f(fn, e, env, ctx) -> coq term of the function's RESULT for the Rust expression e (None: not handled)
      final_unit      f(fn, env) -> term                  result of a function that ends without a value
      exit_handler    f(fn, status literal, env) -> term  `exit(<literal>);`
      print_handler   f(fn, macro name, args, env) -> env println!/print!
      let_handlers    {local: f(fn, e, env) -> (type, term)}     a `let` whose right-hand side the configuration models
      opaque_macros   macros whose value is never inspected (include_str): the local is bound as unavailable
      calls           {rust path: {"call": f(fn, args, env) -> term, "ret": type}}    pure crate-local callees
      results         {rust path: {"call": f(fn, args, env) -> term,
                                   "ok": f(fn, rust var or None) -> (coq pattern, (type, value) or None),
                                   "err": f(fn) -> (coq pattern, payload term), "infallible": bool}}
      enums           {model type: {"ctors": {rust ctor path: f(fn, [rust vars]) -> (coq pattern, {rust var: (type, value)})},
                                    "all": number of constructors of the Coq type}}
      const_lists     names of Vec values the function never mutates
      list_loop       {"item": f(fn, coq var) -> (type, value), "item_type": coq type, "result_type": coq type}
      res             {"err": fmt of the function result for an error payload, "panic": term}, step {"ret": fmt}
    """

    # ---- whole function
    def function(self, params, body):
        env = {}
        for pn, _ in params:
            if pn in self.cfg["params"]:
                env[pn] = self.cfg["params"][pn]
        env["%printed"] = ("meta", ())
        mutated = {a.split(".")[0] for a in self.assigned_names(body)}
        bad = sorted(mutated & set(self.cfg.get("const_lists", ())))
        if bad:
            raise Rs2vError("%s is mutated, but configured as never mutated" % ", ".join(bad))
        return self.run(body[1], body[2], env, lambda env2, v: self.final(v, env2), {})

    def final(self, v, env):
        if v is None:
            f = self.cfg.get("final_unit")
            if f:
                return f(self, env)
            raise Rs2vError("function ends without a value")
        return self.result(v, env, {})

    def result(self, e, env, ctx):
        h = self.cfg.get("result_handler")
        if not h:
            return super().result(e, env, ctx)

        def fin(e2, env2):
            v = h(self, e2, env2, ctx)
            if v is None:
                raise Rs2vError("result value %r" % (e2,))
            return (self.cfg["step"]["ret"] % v) if ctx.get("loop") else v
        return self.hoist(e, env, ctx, fin)

    def fail_term(self, payload, ctx):
        v = self.cfg["res"]["err"] % payload
        return (self.cfg["step"]["ret"] % v) if ctx.get("loop") else v

    # ---- callees
    def callee(self, table, e):
        if e[0] == "call" and e[1][0] == "path":
            return self.cfg.get(table, {}).get("::".join(e[1][1]))
        return None

    def type_of(self, e, env):
        c = self.callee("calls", e)
        if c:
            return c["ret"]
        if e[0] == "bool":
            return Ty.BOOL
        return super().type_of(e, env)

    def ex(self, e, env):
        c = self.callee("calls", e)
        if c:
            return c["call"](self, e[2], env)
        if e[0] == "try":
            raise Rs2vError("`?` in a position where it cannot be hoisted")
        return super().ex(e, env)

    def try_(self, call, env, k, ctx):
        """CALL(..)?  — k(env, (type, value) of the Ok payload or None)"""
        r = self.callee("results", call)
        if r is None:
            raise Rs2vError("`?` on %r" % (call,))
        if r.get("infallible"):
            r["call"](self, call[2], env)           # the arguments are still checked
            return k(env, r["ok"](self, None)[1])
        term = r["call"](self, call[2], env)
        v = self.newvar("r")
        okpat, oktv = r["ok"](self, v)
        errpat, payload = r["err"](self)
        return "match %s with\n| %s =>\n%s\n| %s =>\n%s\nend" % (term, okpat, k(env, oktv), errpat,
                                                                  self.fail_value(payload, env, ctx))

    def fail_value(self, payload, env, ctx):
        """the function's result for `return Err(e)` where e is the error a callee returned (the `?` operator)"""
        h = self.cfg.get("result_handler")
        if h:
            env2 = dict(env)
            env2["%err"] = ("error", payload)
            v = h(self, ("call", ("path", ["Err"]), [("path", ["%err"])]), env2, ctx)
            if v is not None:
                return (self.cfg["step"]["ret"] % v) if ctx.get("loop") else v
        return self.fail_term(payload, ctx)

    # ---- statements
    def stmt(self, s, env, cont, ctx):
        if s[0] == "break" and ctx.get("list_loop"):
            raise Rs2vError("break inside a loop over a list")
        return super().stmt(s, env, cont, ctx)

    def bind(self, name, e, env, cont, ctx):
        lh = self.cfg.get("let_handlers", {}).get(name)
        if lh:
            env2 = dict(env)
            env2[name] = lh(self, e, env)
            return cont(env2)
        if e[0] == "macro" and e[1] in self.cfg.get("opaque_macros", ()):
            env2 = dict(env)
            env2[name] = ("opaque", POISON)
            return cont(env2)
        if e[0] == "try":
            def k(env2, tv):
                env3 = dict(env2)
                env3[name] = tv if tv is not None else ("opaque", POISON)
                return cont(env3)
            return self.try_(e[1], env, k, ctx)
        return super().bind(name, e, env, cont, ctx)

    def keep3(self, env3, env, names):
        return {x: env3[x] for x in env3 if x in env or x in names or x.startswith("%")}

    def bind_tuple(self, names, e, env, cont, ctx):
        while e[0] == "block" and not e[1] and e[2] is not None:
            e = e[2]
        if e[0] == "if":
            if e[3] is None:
                raise Rs2vError("let (..) = if .. without else")

            def kk(env2, v=None):
                if v is None:
                    raise Rs2vError("let (..) = if ..: a branch without a value")
                return self.bind_tuple(names, v, env2, lambda env3, _v=None: cont(self.keep3(env3, env, names)), ctx)
            return self.if_(e, env, kk, ctx)
        if e[0] == "tuple" and len(e[1]) == len(names):
            def k2(items, env2):
                env3 = dict(env2)
                for n, x in zip(names, items):
                    if n != "_":
                        env3[n] = self.value(x, env2)
                return cont(env3)
            return self.hoist(e[1], env, ctx, k2, hint=names[0] if names[0] != "_" else "x")
        return super().bind_tuple(names, e, env, cont, ctx)

    def effect(self, e, env, cont, ctx):
        k = e[0]
        if k == "macro":
            ph = self.cfg.get("print_handler")
            if e[1] in ("println", "print") and ph:
                return cont(ph(self, e[1], e[2], env))
            raise Rs2vError("macro %s! in statement position" % e[1])
        if k == "try":
            return self.try_(e[1], env, lambda env2, _tv: cont(env2), ctx)
        if k == "call" and e[1] == ("path", ["exit"]) and self.cfg.get("exit_handler"):
            if len(e[2]) != 1 or e[2][0][0] != "num":
                raise Rs2vError("exit(..) with something else than a literal")
            return self.cfg["exit_handler"](self, e[2][0][1], env)
        if k == "tuple" and not e[1]:
            return cont(env)
        return super().effect(e, env, cont, ctx)

    def if_(self, e, env, k, ctx):
        c, a, b = e[1], e[2], e[3]
        if self.opt_test(c, env):
            return super().if_(e, env, k, ctx)

        def go(c2, env2):
            t = self.ex(c2, env2)
            if t == "true":
                return self.runblk(a, env2, k, ctx)
            if t == "false":
                return self.runblk(b, env2, k, ctx)
            return "if %s then\n%s\nelse\n%s" % (t, self.runblk(a, env2, k, ctx), self.runblk(b, env2, k, ctx))
        return self.hoist(c, env, ctx, go, hint="x")

    # ---- partial sub-expressions, with reuse of elements of never-mutated vectors
    def hoist(self, e, env, ctx, k, hint="x"):
        pend, local = [], {}
        consts = self.cfg.get("const_lists", ())

        def ckey(n):
            if n[1][0] == "path" and len(n[1][1]) == 1 and n[1][1][0] in consts and n[2][0] == "num":
                return "%%ix:%s:%d" % (n[1][1][0], n[2][1])
            return None

        def walk(n, guarded):
            if isinstance(n, list):
                return [walk(x, guarded) for x in n]
            if not isinstance(n, tuple) or not n:
                return n
            if n[0] in ("if", "iflet", "match", "block", "char", "str", "num", "bool", "path"):
                return n
            if n[0] == "index":
                key = ckey(n)
                if key is not None and key in env:
                    return ("path", [key])
                if key is not None and key in local:
                    return ("path", [local[key]])
                if guarded:
                    raise Rs2vError("v[i] on the right of a short-circuit operator")
                sub = ("index", walk(n[1], guarded), walk(n[2], guarded))
                self._h += 1
                tmp = "%%h%d" % self._h
                pend.append((tmp, "index", sub, key))
                if key is not None:
                    local[key] = tmp
                return ("path", [tmp])
            if n[0] == "mcall" and n[2] == "unwrap" and not n[3]:
                recv = walk(n[1], guarded)
                if guarded:
                    raise Rs2vError("unwrap on the right of a short-circuit operator")
                self._h += 1
                tmp = "%%h%d" % self._h
                pend.append((tmp, "unwrap", recv, None))
                return ("path", [tmp])
            if n[0] == "bin" and n[1] in ("&&", "||"):
                return ("bin", n[1], walk(n[2], guarded), walk(n[3], True))
            if n[0] == "struct":
                return ("struct", n[1], [(f, walk(x, guarded)) for f, x in n[2]])
            return tuple(walk(x, guarded) if isinstance(x, (tuple, list)) else x for x in n)

        e2 = walk(e, False)

        def bindall(i, env_):
            if i == len(pend):
                return k(e2, env_)
            tmp, kind, sub, key = pend[i]
            env2 = dict(env_)
            if kind == "index":
                et = self.type_of(sub, env_)
                v = self.newvar(hint)
                env2[tmp] = (et, v)
                if key is not None:
                    env2[key] = (et, v)
                return "match nth_error %s %s with\n| None => %s\n| Some %s =>\n%s\nend" % (
                    self.ex(sub[1], env_), self.num(sub[2], Ty.NAT, env_), self.panic_term(ctx), v, bindall(i + 1, env2))
            t = self.type_of(sub, env_)
            if not (isinstance(t, tuple) and t[0] == "option"):
                raise Rs2vError("unwrap on %s" % (t,))
            term = self.ex(sub, env_)
            inner = some_inner(term)
            if inner is not None:
                env2[tmp] = (t[1], inner)
                return bindall(i + 1, env2)
            v = self.newvar(hint)
            env2[tmp] = (t[1], v)
            return "match %s with\n| None => %s\n| Some %s =>\n%s\nend" % (term, self.panic_term(ctx), v, bindall(i + 1, env2))
        return bindall(0, env)

    def panic_term(self, ctx):
        p = self.cfg["res"].get("panic")
        if not p:
            raise Rs2vError("a panic is not expressible here")
        return (self.cfg["step"]["ret"] % p) if ctx.get("loop") else p

    # ---- match
    def match_(self, e, env, k, ctx):
        s = e[1]
        while s[0] in ("ref", "refmut"):
            s = s[1]
        r = self.callee("results", s)
        if r is not None:
            return self.match_result(s, r, e[2], env, k, ctx)
        try:
            t = self.type_of(s, env)
        except Rs2vError:
            t = None
        en = self.cfg.get("enums", {}).get(t) if isinstance(t, str) else None
        if en is not None:
            return self.match_enum(s, en, e[2], env, k, ctx)
        return super().match_(e, env, k, ctx)

    def split_arms(self, arms):
        named, wild = [], None
        for i, (pat, body) in enumerate(arms):
            if pat[0] == "wild":
                if i != len(arms) - 1:
                    raise Rs2vError("`_` arm that is not the last one")
                wild = body
            elif pat[0] == "ctor":
                name = "::".join(pat[1])
                if any(name == n for n, _s, _b in named):
                    raise Rs2vError("two arms for %s" % name)
                named.append((name, pat[2], body))
            else:
                raise Rs2vError("match pattern %r" % (pat,))
        return named, wild

    def match_result(self, call, r, arms, env, k, ctx):
        named, wild = self.split_arms(arms)
        out = ["match %s with" % r["call"](self, call[2], env)]
        for name, subs, body in named:
            if name not in ("Ok", "Err") or len(subs) != 1:
                raise Rs2vError("arm %s(..) on a Result" % name)
            env2 = dict(env)
            if name == "Ok":
                v = self.newvar(subs[0] or "r")
                pat, tv = r["ok"](self, v)
                if subs[0]:
                    if tv is None:
                        raise Rs2vError("the Ok payload of this callee has no model value")
                    env2[subs[0]] = tv
            else:
                pat, payload = r["err"](self)
                if subs[0]:
                    env2[subs[0]] = ("error", payload)
            out += ["| %s =>" % pat, self.arm(body, env2, k, ctx)]
        if wild is not None:
            if len(named) >= 2:
                raise Rs2vError("`_` arm after Ok and Err")
            out += ["| _ =>", self.arm(wild, env, k, ctx)]
        elif len(named) != 2:
            raise Rs2vError("match on a Result needs Ok and Err (or `_`)")
        out.append("end")
        return "\n".join(out)

    def match_enum(self, s, en, arms, env, k, ctx):
        named, wild = self.split_arms(arms)
        out = ["match %s with" % self.ex(s, env)]
        for name, subs, body in named:
            c = en["ctors"].get(name)
            if not c:
                raise Rs2vError("constructor %s has no model counterpart" % name)
            pat, binds = c(self, subs)
            env2 = dict(env)
            env2.update(binds)
            out += ["| %s =>" % pat, self.arm(body, env2, k, ctx)]
        if wild is not None:
            out += ["| _ =>", self.arm(wild, env, k, ctx)]
        elif len(named) != en["all"]:
            raise Rs2vError("match without `_` that does not name every constructor")
        out.append("end")
        return "\n".join(out)

    def iflet2(self, e, env, k, ctx):
        """`if let Ctor(x) = CALL / VALUE { A } [else { B }]` on a Result callee or a configured enum is the match with a `_` arm"""
        pat, scrut, blk, els = e[1], e[2], e[3], e[4]
        s = scrut
        while s[0] in ("ref", "refmut"):
            s = s[1]
        arms = [(pat, blk), (("wild",), els if els is not None else ("block", [], None))]
        if pat[0] == "ctor":
            r = self.callee("results", s)
            if r is not None:
                return self.match_result(s, r, arms, env, k, ctx)
            try:
                t = self.type_of(s, env)
            except Rs2vError:
                t = None
            en = self.cfg.get("enums", {}).get(t) if isinstance(t, str) else None
            if en is not None:
                return self.match_enum(s, en, arms, env, k, ctx)
        return super().iflet2(e, env, k, ctx)

    # ---- for x in &list
    def loop2(self, s, env, cont, ctx):
        if s[0] == "for" and self.cfg.get("list_loop"):
            it = s[2]
            while it[0] in ("ref", "refmut"):
                it = it[1]
            if it[0] == "mcall" and it[2] == "iter" and not it[3]:
                it = it[1]
            lv = self.lvalue(it)
            if lv is not None and self.has(env, lv):
                t, term = self.get(env, lv)
                if isinstance(t, tuple) and t[0] == "list" and not isinstance(term, dict):
                    return self.list_loop(s[1], lv, s[3], env, cont, ctx)
        return super().loop2(s, env, cont, ctx)

    def list_loop(self, pat, lv, body, env, cont, ctx):
        if ctx.get("loop"):
            raise Rs2vError("nested loop")
        if self.loops:
            raise Rs2vError("more than one loop")
        lc = self.cfg["list_loop"]
        for a in sorted(self.assigned_names(body)):
            if a == "?" or a.split(".")[0] in env:
                raise Rs2vError("the loop assigns %s (a loop over a list carries no state here)" % a)

        def close(tv):
            t, term = tv
            if isinstance(term, dict):
                return (t, {f: close(x) for f, x in term.items()})
            return (t, term if (isinstance(term, str) and term != POISON and self.is_closed(term)) else POISON)
        benv = {n: (tv if n == "%printed" else close(tv)) for n, tv in env.items() if n == "%printed" or not n.startswith("%")}
        item = self.newvar(pat)
        benv[pat] = lc["item"](self, item)
        name = "%s_body" % self.cfg["coq_name"]
        call = "(%s%s)" % (name, (" " + self.cfg["fn_args"]) if self.cfg.get("fn_args") else "")
        body_term = self.run(body[1], body[2], benv, lambda env2, v=None: "LCont st", {"loop": True, "list_loop": True})
        if POISON in body_term:
            raise Rs2vError("the loop body uses a local of the enclosing function that is not one of its parameters")
        self.loops.append((name, "Definition %s%s (st : unit) (%s : %s) : lstep unit (%s) :=\n%s.\n" % (
            name, (" " + self.cfg["fn_params"]) if self.cfg.get("fn_params") else "", item, lc["item_type"],
            lc["result_type"], body_term)))
        return "match for_each_r %s %s tt with\n| LRet r => r\n| LCont _ =>\n%s\nend" % (
            call, self.plain(self.get(env, lv)[1], lv), cont(env))


# =================================================================================================
# State-machine wave, builder B13 (first client: lib/gen/alias_gen.py — AliasCommand::run of duckscript_sdk/src/types/command.rs
# and clear of types/scope.rs).  Purely additive: nothing above this line is changed; the classes below extend P2 / Fn2.
#
#   PState    parser:   closures `|a, _| expr` (arguments of retain & co), methods with a receiver (`fn f(&self, ..)`, the
#                   MethodP.fn grammar) together with the P2 grammar (`let (a, b) = ..`, struct literals, `&mut e`)
#   parse_trait_method   `fn name` inside `impl Trait for Type { .. }`
#   FnState   executor (on top of Fn2: struct-valued parameters with dotted fields, Option refinement, tuple `let`):
#     * HashMap-typed values (cfg["maps"]) are gmap terms wherever they live (a local, a `&mut` parameter, a field of a
#       struct parameter): insert -> <[k := v]>, remove -> delete, len -> size, retain(|k, v| e) -> map_retain (fun k v => e);
#       key-set-typed values (cfg["sets"]: a table of which the model keeps only the KEYS) : insert / remove -> set_add / set_del
#       spelled by the configuration;
#     * `for x in <Vec-typed value>` with SEVERAL mutable components: the state tuple is fixed by cfg["loop"]["state"] and
#       checked against what the body assigns; the body becomes `Definition <coq_name>_loop<i> <fn binders> (st : S) (x : T)
#       : lstep S R` driven by Rs2vMapLib.for_each_ret (`return e` inside the body = LRet <function result>);
#     * calls of functions that are NOT translated here but abstracted by the model (a callee that is a Section variable of
#       the hand model, a random-name generator, a helper working on a part of the state the model does not keep) are given
#       by cfg["calls"]: per callee a `bind` (let x = CALL), `tuple` (let (a, b) = CALL) and / or `stmt` (CALL;) handler that
#       CHECKS the actual arguments and returns the new symbolic environment — a call the configuration does not list, or
#       one with other arguments than the handler expects, is Rs2vError;
#     * `match e { _ => .. }` (evaluate e for its effect), `Some(x) / _` arms, references that alias a state component
#       (`let t = part_of(state); t.remove(k)`: type ("alias", dotted name));
#     * `n.to_string()` on an integer is cfg["num_to_string"], str::starts_with / ends_with / contains are cfg["str_preds"];
#     * the function result is cfg["result"](fn, expr, env, ctx): it can pair the value with the state AS IT IS at that
#       point (all mutations before an early return are visible); a function without a value ends in cfg["final_state"].
#   Everything not understood raises Rs2vError.
def balanced_block(src, open_at):
    """the text between the brace at src[open_at] and its partner (comments, string and char literals respected)"""
    i, depth, n = open_at, 0, len(src)
    str_re = re.compile(r'"(?:\\.|[^"\\])*"', re.S)
    chr_re = re.compile(r"'(?:\\.|[^'\\])'")
    while i < n:
        c = src[i]
        if src.startswith("//", i):
            j = src.find("\n", i)
            i = n if j < 0 else j
            continue
        if src.startswith("/*", i):
            j = src.find("*/", i)
            if j < 0:
                raise Rs2vError("unterminated comment")
            i = j + 2
            continue
        if c == '"':
            mm = str_re.match(src, i)
            if not mm:
                raise Rs2vError("unterminated string")
            i = mm.end()
            continue
        if c == "'":
            mm = chr_re.match(src, i)
            if mm:
                i = mm.end()
                continue
        if c == "{":
            depth += 1
        elif c == "}":
            depth -= 1
            if depth == 0:
                return src[open_at + 1:i]
        i += 1
    raise Rs2vError("unbalanced block")


class PState(P2):
    receiver = None
    fn = MethodP.fn          # `fn name([&[mut]] self, params) [-> type] block`; sets self.receiver

    def unary(self, no_struct):
        if self.at("op", "|") or self.at("op", "||"):
            names = []
            if not self.opt("op", "||"):
                self.eat("op", "|")
                while not self.at("op", "|"):
                    self.opt("op", "&")
                    self.opt("id", "mut")
                    names.append(self.eat("id"))
                    if self.at("op", ":"):
                        raise Rs2vError("closure parameter with a type annotation")
                    if not self.opt("op", ","):
                        break
                self.eat("op", "|")
            if self.at("op", "{"):
                raise Rs2vError("closure with a block body")
            return ("closure", names, self.expr(no_struct=no_struct))
        return super().unary(no_struct)


def parse_fn_state(src, name):
    """a free function, PState grammar -> ([(param, is_mut_ref)], body)"""
    ms = list(re.finditer(r"(?:pub(?:\([a-z]+\))?\s+)?fn\s+%s\s*\(" % re.escape(name), src))
    if len(ms) != 1:
        raise Rs2vError("fn %s: %d definitions" % (name, len(ms)))
    p = PState(lex(src[ms[0].start():], stop_after_item=True))
    _n, params, body = p.fn()
    if p.receiver is not None:
        raise Rs2vError("fn %s has a receiver" % name)
    return params, body


def parse_trait_method(src, trait, type_name, name):
    """`fn name` of `impl trait for type_name { .. }` -> (receiver, [(param, is_mut_ref)], body)"""
    ms = list(re.finditer(r"^\s*impl\s+%s\s+for\s+%s\s*\{" % (re.escape(trait), re.escape(type_name)), src, re.M))
    if len(ms) != 1:
        raise Rs2vError("impl %s for %s: %d blocks" % (trait, type_name, len(ms)))
    body = balanced_block(src, ms[0].end() - 1)
    fs = list(re.finditer(r"\bfn\s+%s\s*\(" % re.escape(name), body))
    if len(fs) != 1:
        raise Rs2vError("fn %s: %d definitions in impl %s for %s" % (name, len(fs), trait, type_name))
    p = PState(lex(body[fs[0].start():], stop_after_item=True))
    _n, params, blk = p.fn()
    return p.receiver, params, blk


STATE_MAP_EFFECTS = ("insert", "remove", "retain", "clear")


class FnState(Fn2):
    """cfg keys in addition to Fn2's (see the block comment above):
      maps          {type: {"key": type, "val": type}}
      sets          {type: {"elem": type, "add": fmt (elem, set), "del": fmt (elem, set)}}
      coq_types     {type: coq type text}                    types of loop state components / loop items
      fn_params / fn_args                                     binders / arguments of the generated function (repeated on loop bodies)
      self          (type, {field: (type, term)})            the receiver
      loop          {"state": [dotted names]}
      result_type   coq type of the function result
      result        f(fn, expr, env, ctx) -> term            final_state  f(fn, env) -> term
      calls         {rust path (full or last segment): {"bind": f(fn, args, env, name) -> env2,
                                                        "tuple": f(fn, args, env, names) -> (wrap: continuation text -> text, env2),
                                                        "stmt": f(fn, args, env) -> env2}}
      num_to_string fmt                                       str_preds {method: fmt % {"recv":.., "arg":..}}
    """

    def __init__(self, cfg):
        super().__init__(cfg)
        self.nloops = 0

    # ---- helpers
    def is_map(self, t):
        return isinstance(t, str) and t in self.cfg.get("maps", {})

    def is_set(self, t):
        return isinstance(t, str) and t in self.cfg.get("sets", {})

    def coq_type(self, t):
        ct = self.cfg.get("coq_types", {}).get(t)
        if ct is None:
            raise Rs2vError("no coq type for %s" % (t,))
        return ct

    def strip(self, e):
        while e[0] in ("ref", "refmut") or (e[0] == "mcall" and e[2] in ("clone", "to_owned") and not e[3]):
            e = e[1]
        return e

    def place(self, e, env):
        """dotted name of the state component the expression denotes (through `&`, `&mut`, aliases), or None"""
        e = self.strip(e)
        lv = self.lvalue(e)
        if lv is None or not self.has(env, lv):
            return None
        t = self.get(env, lv)[0]
        if isinstance(t, tuple) and t[0] == "alias":
            return t[1] if self.has(env, t[1]) else None
        return lv

    def call_cfg(self, e):
        if e[0] == "call" and e[1][0] == "path":
            cs = self.cfg.get("calls", {})
            return cs.get("::".join(e[1][1])) or cs.get(e[1][1][-1])
        return None

    # ---- types / expressions
    def type_of(self, e, env):
        if e[0] == "mcall":
            m = e[2]
            if m == "to_string" and not e[3] and self.type_of(e[1], env) in (Ty.NUM_N, Ty.NAT):
                return Ty.STR
            if m in self.cfg.get("str_preds", {}):
                return Ty.BOOL
            if m == "len" and not e[3]:
                return Ty.NAT
        if e[0] == "closure":
            raise Rs2vError("a closure used as a value")
        return super().type_of(e, env)

    def ex(self, e, env):
        k = e[0]
        if k == "closure":
            raise Rs2vError("a closure used as a value")
        if k == "mcall":
            recv, m, args = e[1], e[2], e[3]
            if m == "to_string" and not args:
                t = self.type_of(recv, env)
                if t in (Ty.NUM_N, Ty.NAT):
                    f = self.cfg.get("num_to_string", {}).get(t)
                    if not f:
                        raise Rs2vError("to_string on %s" % t)
                    return f % self.ex(recv, env)
            if m == "len" and not args:
                t = self.type_of(recv, env)
                if self.is_map(t) or self.is_set(t):
                    return "(size %s)" % self.ex(recv, env)
            if m == "is_empty" and not args:
                t = self.type_of(recv, env)
                if isinstance(t, tuple) and t[0] == "list":
                    return "(vec_is_empty %s)" % self.ex(recv, env)
                if self.is_map(t) or self.is_set(t):
                    return "(Nat.eqb (size %s) 0)" % self.ex(recv, env)
            if m in self.cfg.get("str_preds", {}) and len(args) == 1:
                if self.type_of(recv, env) != Ty.STR or self.type_of(args[0], env) != Ty.STR:
                    raise Rs2vError("%s on %s" % (m, self.type_of(recv, env)))
                return self.cfg["str_preds"][m] % {"recv": self.ex(recv, env), "arg": self.ex(args[0], env)}
        if k == "bin" and e[1] == "+":
            t = self.type_of(e[2], env) if e[2][0] != "num" else (self.type_of(e[3], env) if e[3][0] != "num" else None)
            if t == Ty.NUM_N:
                return "(%s + %s)%%N" % (self.num(e[2], t, env), self.num(e[3], t, env))
        lv = self.lvalue(e)
        if lv is not None and self.has(env, lv):
            t = self.get(env, lv)[0]
            if isinstance(t, tuple) and t[0] == "alias":
                return self.ex(self.field_path(t[1]), env)
        return super().ex(e, env)

    # ---- statements
    def stmt(self, s, env, cont, ctx):
        if s[0] == "break":
            raise Rs2vError("break")
        return super().stmt(s, env, cont, ctx)

    def bind(self, name, e, env, cont, ctx):
        c = self.call_cfg(e)
        if c is not None:
            if not c.get("bind"):
                raise Rs2vError("let %s = a call of %s" % (name, "::".join(e[1][1])))
            return cont(c["bind"](self, e[2], env, name))
        return super().bind(name, e, env, cont, ctx)

    def bind_tuple(self, names, e, env, cont, ctx):
        c = self.call_cfg(e)
        if c is not None:
            if not c.get("tuple"):
                raise Rs2vError("let (%s) = a call of %s" % (", ".join(names), "::".join(e[1][1])))
            wrap, env2 = c["tuple"](self, e[2], env, names)
            return wrap(cont(env2))
        return super().bind_tuple(names, e, env, cont, ctx)

    def map_effect(self, e, env):
        """env after `PLACE.insert / remove / retain / clear (..)` on a map- or key-set-typed state component, else None"""
        if e[0] != "mcall" or e[2] not in STATE_MAP_EFFECTS:
            return None
        lv = self.place(e[1], env)
        if lv is None:
            return None
        t, cur = self.get(env, lv)
        m, args = e[2], e[3]
        if isinstance(cur, dict):
            return None
        if self.is_map(t):
            mc = self.cfg["maps"][t]
            self.plain(cur, lv)
            if m == "insert" and len(args) == 2:
                if self.type_of(args[0], env) != mc["key"] or self.type_of(args[1], env) != mc["val"]:
                    raise Rs2vError("%s.insert of a %s / %s" % (lv, self.type_of(args[0], env), self.type_of(args[1], env)))
                return self.set(env, lv, (t, "(<[%s := %s]> %s)" % (self.ex(args[0], env), self.ex(args[1], env), cur)))
            if m == "remove" and len(args) == 1:
                if self.type_of(args[0], env) != mc["key"]:
                    raise Rs2vError("%s.remove of a %s" % (lv, self.type_of(args[0], env)))
                return self.set(env, lv, (t, "(delete %s %s)" % (self.ex(args[0], env), cur)))
            if m == "clear" and not args:
                return self.set(env, lv, (t, "(map_retain (fun _ _ => false) %s)" % cur))
            if m == "retain" and len(args) == 1 and args[0][0] == "closure" and len(args[0][1]) == 2:
                kn, vn = args[0][1]
                env2 = dict(env)
                binders = []
                for nm, ty in ((kn, mc["key"]), (vn, mc["val"])):
                    if nm == "_":
                        binders.append("_")
                    else:
                        v = self.newvar(nm)
                        env2[nm] = (ty, v)
                        binders.append(v)
                if self.type_of(args[0][2], env2) != Ty.BOOL:
                    raise Rs2vError("retain closure of type %s" % (self.type_of(args[0][2], env2),))
                body = self.ex(args[0][2], env2)
                return self.set(env, lv, (t, "(map_retain (fun %s => %s) %s)" % (" ".join(binders), body, cur)))
            raise Rs2vError("method %s.%s" % (lv, m))
        if self.is_set(t):
            sc = self.cfg["sets"][t]
            self.plain(cur, lv)
            if m in ("insert", "remove") and len(args) >= 1 and self.type_of(args[0], env) == sc["elem"]:
                # insert(k, value): the value is not kept by the model (key set)
                if (m == "insert" and len(args) not in (1, 2)) or (m == "remove" and len(args) != 1):
                    raise Rs2vError("method %s.%s" % (lv, m))
                return self.set(env, lv, (t, sc["add" if m == "insert" else "del"] % (self.ex(args[0], env), cur)))
            raise Rs2vError("method %s.%s" % (lv, m))
        return None

    def is_unit_effect(self, e, env):
        if e[0] == "mcall" and e[2] in STATE_MAP_EFFECTS:
            lv = self.place(e[1], env)
            if lv is not None:
                t = self.get(env, lv)[0]
                if self.is_map(t) or self.is_set(t):
                    return True
        c = self.call_cfg(e)
        if c is not None and c.get("stmt"):
            return True
        return super().is_unit_effect(e, env)

    def effect(self, e, env, cont, ctx):
        if e[0] == "mcall" and e[2] in STATE_MAP_EFFECTS:
            env2 = self.map_effect(e, env)
            if env2 is not None:
                return cont(env2)
        c = self.call_cfg(e)
        if c is not None:
            if not c.get("stmt"):
                raise Rs2vError("a call of %s as a statement" % "::".join(e[1][1]))
            return cont(c["stmt"](self, e[2], env))
        if e[0] == "tuple" and not e[1]:
            return cont(env)
        return super().effect(e, env, cont, ctx)

    def match_(self, e, env, k, ctx):
        scrut, arms = e[1], e[2]
        if len(arms) == 1 and arms[0][0] == ("wild",):
            # `match e { _ => body }`: e is evaluated for its effect only
            body = arms[0][1]
            if not (scrut[0] == "mcall" and self.is_unit_effect(scrut, env)) and self.call_cfg(scrut) is None:
                self.ex(scrut, env)          # must at least be an expression the executor can evaluate (no effect)
                return self.arm(body, env, k, ctx)
            return self.effect(scrut, env, lambda env2, _v=None: self.arm(body, env2, k, ctx), ctx)
        pats = [p for p, _b in arms]
        if len(arms) == 2 and pats[1] == ("wild",) and pats[0][0] == "ctor" and pats[0][1] in (["Some"], ["None"]):
            other = ("ctor", ["None"], []) if pats[0][1] == ["Some"] else ("ctor", ["Some"], [None])
            return super().match_(("match", scrut, [arms[0], (other, arms[1][1])]), env, k, ctx)
        return super().match_(e, env, k, ctx)

    def arm(self, body, env, k, ctx):
        if body == ("tuple", []):
            return k(env, None)
        return super().arm(body, env, k, ctx)

    def tail(self, e, env, k, ctx):
        if e == ("tuple", []):
            return k(env, None)
        return super().tail(e, env, k, ctx)

    # ---- results
    def result(self, e, env, ctx):
        f = self.cfg.get("result")
        if not f:
            raise Rs2vError("no result builder configured")
        v = f(self, e, env, ctx)
        return "LRet %s" % v if ctx.get("loop") else v

    def ret(self, e, env, ctx):
        if e is None:
            return self.final(None, env) if not ctx.get("loop") else "LRet %s" % self.final(None, env)
        return self.result(e, env, ctx)

    def final(self, v, env):
        if v is None or v == ("tuple", []):
            f = self.cfg.get("final_state")
            if not f:
                raise Rs2vError("function ends without a value")
            return f(self, env)
        return self.result(v, env, {})

    # ---- loops: `for x in <list>` over a configured state tuple, with early return
    def assigned_names(self, node):
        out = super().assigned_names(node)

        def walk(n):
            if isinstance(n, list):
                for x in n:
                    walk(x)
                return
            if not isinstance(n, tuple) or not n:
                return
            if n[0] == "mcall" and n[2] in STATE_MAP_EFFECTS:
                lv = self.lvalue(self.strip(n[1]))
                out.add(lv if lv is not None else "?")
            if n[0] == "call" and self.call_cfg(n) is not None:
                out.add("?")                 # configured callees may change any part of the state
            for x in n:
                if isinstance(x, (tuple, list)):
                    walk(x)
        walk(node)
        return out

    def loop2(self, s, env, cont, ctx):
        if ctx.get("loop"):
            raise Rs2vError("nested loop")
        if s[0] != "for":
            raise Rs2vError("`loop {}`")
        lc = self.cfg.get("loop")
        if not lc:
            raise Rs2vError("a loop, but no loop is configured for this function")
        pat, it, body = s[1], s[2], s[3]
        src = self.strip(it)
        if src[0] == "mcall" and src[2] in ("iter", "into_iter") and not src[3]:
            src = self.strip(src[1])
        lt = self.type_of(src, env)
        if not (isinstance(lt, tuple) and lt[0] == "list"):
            raise Rs2vError("loop iterator %r" % (it,))
        lterm = self.ex(src, env)
        state = [n for n in lc["state"] if self.has(env, n)]
        if state != list(lc["state"]):
            raise Rs2vError("loop state variables not in scope: %s" % ", ".join(n for n in lc["state"] if n not in state))
        for n in state:
            if isinstance(self.get(env, n)[1], dict):
                raise Rs2vError("loop state variable %s is a struct" % n)
        for a in sorted(self.assigned_names(body)):
            root = a.split(".")[0]
            if a == "?":
                raise Rs2vError("the loop changes something that is not a variable (or calls a configured callee)")
            if root in env and not any(a == n or a.startswith(n + ".") for n in state):
                raise Rs2vError("the loop assigns %s, which is not part of the configured state (%s)" % (a, ", ".join(state)))

        def close(tv):
            t, term = tv
            if isinstance(term, dict):
                return (t, {f: close(x) for f, x in term.items()})
            if term is None:
                return (t, term)
            return (t, term if (term != POISON and self.is_closed(term)) else POISON)
        benv = {n: close(tv) for n, tv in env.items()}
        svars = []
        for n in state:
            v = self.newvar(n.split(".")[-1])
            svars.append(v)
            benv = self.set(benv, n, (self.get(env, n)[0], v))
        self.nloops += 1
        name = "%s_loop%d" % (self.cfg["coq_name"], self.nloops)
        stype = " * ".join("(%s)" % self.coq_type(self.get(env, n)[0]) for n in state) if state else "unit"

        def pack(env_):
            ts = [self.plain(self.get(env_, n)[1], n) for n in state]
            return "tt" if not ts else (ts[0] if len(ts) == 1 else "(" + ", ".join(ts) + ")")
        init = pack(env)
        item = self.newvar(pat)
        benv[pat] = (lt[1], item)
        body_term = self.run(body[1], body[2], benv, lambda env2, v=None: "LCont %s" % pack(env2), {"loop": True})
        if POISON in body_term:
            raise Rs2vError("the loop body uses a local of the enclosing function that is not available in it")
        spat = "_" if not svars else (svars[0] if len(svars) == 1 else "(" + ", ".join(svars) + ")")
        self.loops.append((name, "Definition %s%s (st : %s) (%s : %s) : lstep (%s) (%s) :=\nmatch st with\n| %s =>\n%s\nend.\n" % (
            name, (" " + self.cfg["fn_params"]) if self.cfg.get("fn_params") else "", stype, item,
            self.coq_type(lt[1]), stype, self.cfg["result_type"], spat, body_term)))
        avars = [self.newvar(n.split(".")[-1]) for n in state]
        env_after = env
        for n, v in zip(state, avars):
            env_after = self.set(env_after, n, (self.get(env, n)[0], v))
        apat = "_" if not avars else (avars[0] if len(avars) == 1 else "(" + ", ".join(avars) + ")")
        call = "(%s%s)" % (name, (" " + self.cfg["fn_args"]) if self.cfg.get("fn_args") else "")
        return "match for_each_ret %s %s %s with\n| LRet r => r\n| LCont %s =>\n%s\nend" % (
            call, lterm, init, apat, cont(env_after))

    # ---- whole function
    def function(self, params, body):
        env = {}
        if self.cfg.get("self") is not None:
            env["self"] = self.cfg["self"]
        for pn, _ in params:
            if pn in self.cfg["params"]:
                env[pn] = self.cfg["params"][pn]
        return self.run(body[1], body[2], env, lambda env2, v: self.final(v, env2), {})


# =================================================================================================
# Third wave, builder B11 (first client: lib/gen/eval_gen.py, duckscript_sdk/src/utils/eval.rs).  Purely additive:
# everything above this line is unchanged; FnE extends Fn2 (parser: P2 / parse_fn2 as they are).
#
#   FnE   executor, on top of Fn2:
#     * `match X { Enum::A(a, b) => .., Enum::B => .., _ => .. }` on the enums the configuration declares (cfg['enums']):
#       one Coq match arm per Rust arm, the continuation duplicated into the arms, a trailing `_` arm allowed, every
#       variant must be covered otherwise;
#     * `let x = if c { A } else { break; }` (an arm that leaves the loop / the function instead of giving a value): the
#       continuation goes into the arms that do give a value;
#     * struct values held in ONE Coq term (`instruction.instruction_type` is the configured projection of that term);
#     * `s.ends_with(p)`, `s.contains(p)`, `s.replace(p, r)`, `s.starts_with(p)` with string or char patterns
#       (Rs2vEvalStrLib.str_ends_with / str_contains / str_replace; `replace` needs a NON-EMPTY LITERAL pattern);
#     * `for x in &list { .. }` without break / return / partial operation: `fold_left body list state`;
#       `loop { .. }` with fuel as in Fn2, with a configurable name of the body definition;
#     * calls with `&mut` parameters that the configuration models as ONE state value (cfg['effect_calls'] for
#       `let (a, b) = CALL(..);`, cfg['method_effects'] for `recv.method(..)` statements such as HashMap insert / remove):
#       the handler returns the new environment, nothing is guessed;
#     * `let NAME = e;` can be emitted as a definition of its own (cfg['named_lets']);
#     * `Err(error.to_string())`.
#     Safety net (Fn2 hands the value of a block's last expression to a continuation that may drop it): a last
#     expression that contains a call FnE has no translation for is refused, and every leaf of a loop body checks that
#     no variable outside the configured loop state has changed.
RES_SHAPES.setdefault("eval_itres", {"ok": "ITOk %s", "err_pat": "ITErr e _ _", "err_payload": "e", "panic": "ITPanic"})

PURE_METHODS_E = ("clone", "to_string", "to_owned", "as_str", "len", "is_empty", "is_some", "is_none", "unwrap", "trim",
                  "starts_with", "ends_with", "contains", "replace")


class StopAfterLet(Exception):
    """raised by a named let configured with stop=True: everything the client wanted has been translated"""


class FnE(Fn2):
    """cfg keys in addition to Fn2's:
      enums          {Rust enum name: {"type": type tag, "ctors": {variant: (coq constructor, [argument types])}}}
      structs        as Fn2; a struct VALUE may also be a single Coq term (then "proj" is used for field access)
      loop           Fn2's keys plus "e": True (use FnE's loop), "name": name of the body definition, "pure": True for a
                     `for x in list` body that is a plain state transformer, "item": (type, coq type),
                     "ghost": [names of the state components that are not Rust variables]
      extra_env      {name: (type, term)} put into the environment besides the parameters (state values with no Rust name)
      effect_calls   {rust path: f(fn, names, args, env, cont, ctx) -> coq text}   for `let (names..) = path(args);`
      method_effects {(receiver variable, method): f(fn, args, env) -> env2}
      named_lets     {rust local: {"def": coq name, "binders": text, "args": text, "type": coq type, "stop": bool}}
      result_handler f(fn, expr, env, ctx) -> coq term | None   (the function's result for a Rust value Fn2 does not know)
    """

    def __init__(self, cfg):
        super().__init__(cfg)
        self.aux = []

    # ---- struct values held in one Coq term
    def plain_field(self, e, env):
        if e[0] != "field":
            return None
        lv = self.lvalue(e)
        if lv is not None and self.has(env, lv):
            return None
        bt, bterm = self.value(e[1], env)
        if is_struct(bt) and isinstance(bterm, str):
            sc = self.cfg.get("structs", {}).get(bt[1])
            if not sc or e[2] not in sc.get("proj", {}) or e[2] not in dict(sc["fields"]):
                raise Rs2vError("field %s of %s has no Coq projection here" % (e[2], bt[1]))
            return (dict(sc["fields"])[e[2]], sc["proj"][e[2]] % self.plain(bterm, "struct value"))
        return None

    def value(self, e, env):
        e0 = e
        while e0[0] in ("ref", "refmut") or (e0[0] == "mcall" and e0[2] in ("clone", "to_owned") and not e0[3]):
            e0 = e0[1]
        pf = self.plain_field(e0, env)
        if pf is not None:
            return pf
        return super().value(e, env)

    def pattern_term(self, e, env, what, literal_nonempty=False):
        """the pattern argument of starts_with / ends_with / contains / replace as a Coq string"""
        while e[0] == "ref" or (e[0] == "mcall" and e[2] in ("to_string", "as_str", "to_owned") and not e[3]):
            e = e[1]
        if e[0] == "str":
            if literal_nonempty and e[1] == "":
                raise Rs2vError("%s with an empty pattern" % what)
            return coq_str_lit(e[1])
        if e[0] == "char":
            return "[" + coq_char(e[1]) + "]"
        if e[0] == "path":
            st = self.cfg.get("statics", {}).get("::".join(e[1]))
            if st and st[0] == Ty.CHAR:
                return "[" + coq_char(st[1]) + "]"
            if st and st[0] == Ty.STR and (st[1] != "" or not literal_nonempty):
                return coq_str_lit(st[1])
        if literal_nonempty:
            raise Rs2vError("%s: the pattern is not a non-empty literal" % what)
        if self.type_of(e, env) == Ty.STR:
            return self.ex(e, env)
        raise Rs2vError("%s: pattern %r" % (what, e))

    def type_of(self, e, env):
        if e[0] == "field":
            pf = self.plain_field(e, env)
            if pf is not None:
                return pf[0]
        if e[0] == "mcall":
            if e[2] in ("ends_with", "contains"):
                return Ty.BOOL
            if e[2] == "replace":
                return Ty.STR
            if e[2] == "as_str" and not e[3]:
                return self.type_of(e[1], env)
        if e[0] == "tuple" and not e[1]:
            return "unit"
        return super().type_of(e, env)

    def ex(self, e, env):
        if e[0] == "field":
            pf = self.plain_field(e, env)
            if pf is not None:
                return pf[1]
        if e[0] == "tuple" and not e[1]:
            return "tt"
        if e[0] == "mcall":
            recv, m, args = e[1], e[2], e[3]
            if m in ("starts_with", "ends_with", "contains") and len(args) == 1:
                if self.type_of(recv, env) != Ty.STR:
                    raise Rs2vError("%s on %s" % (m, self.type_of(recv, env)))
                return "(str_%s %s %s)" % (m, self.pattern_term(args[0], env, m), self.ex(recv, env))
            if m == "replace" and len(args) == 2:
                if self.type_of(recv, env) != Ty.STR:
                    raise Rs2vError("replace on %s" % (self.type_of(recv, env),))
                rep = args[1]
                while rep[0] == "ref":
                    rep = rep[1]
                if rep[0] == "char":
                    raise Rs2vError("replace: the replacement is a char")
                return "(str_replace %s %s %s)" % (self.pattern_term(args[0], env, "replace", True),
                                                   self.pattern_term(rep, env, "replace (replacement)"), self.ex(recv, env))
            if m == "as_str" and not args:
                return self.ex(recv, env)
        return super().ex(e, env)

    # ---- what may stand as the last expression of a block
    def inert(self, e):
        """no call in e that FnE has no translation for (such a value may be handed to any continuation)"""
        if isinstance(e, list):
            return all(self.inert(x) for x in e)
        if not isinstance(e, tuple) or not e:
            return True
        k = e[0]
        if k in ("char", "str", "num", "bool", "path"):
            return True
        if k == "call":
            if e[1][0] != "path":
                return False
            name = "::".join(e[1][1])
            known = name in ("Some", "Ok", "Err", "String::new") or name in self.cfg.get("ctor_types", {}) \
                or name in self.cfg.get("ctor_handlers", {}) or self.helper(e[1][1]) is not None
            return known and self.inert(e[2])
        if k == "mcall":
            return e[2] in PURE_METHODS_E and self.inert(e[1]) and self.inert(e[3])
        if k == "macro":
            return e[1] == "vec" and not e[2]
        if k == "struct":
            return all(self.inert(x) for _f, x in e[2])
        if k in ("if", "iflet", "match", "block", "let", "assign", "for", "loop", "return", "break"):
            return False
        return all(self.inert(x) for x in e[1:] if isinstance(x, (tuple, list)))

    def method_effect(self, e, env):
        if e[0] == "mcall" and e[1][0] == "path" and len(e[1][1]) == 1:
            return self.cfg.get("method_effects", {}).get((e[1][1][0], e[2]))
        return None

    def is_unit_effect(self, e, env):
        if self.method_effect(e, env) is not None:
            return True
        return super().is_unit_effect(e, env)

    def tail(self, e, env, k, ctx):
        if e[0] not in ("if", "match", "iflet", "block") and not self.is_unit_effect(e, env) and not self.inert(e):
            raise Rs2vError("the last expression of a block contains a call that is not understood: %r" % (e,))
        return super().tail(e, env, k, ctx)

    def effect(self, e, env, cont, ctx):
        h = self.method_effect(e, env)
        if h is not None:
            return self.hoist(e[3], env, ctx, lambda a2, env2: cont(h(self, a2, env2)), hint="x")
        return super().effect(e, env, cont, ctx)

    # ---- statements
    def stmt(self, s, env, cont, ctx):
        if s[0] == "break" and ctx.get("loop") and not self.cfg["step"].get("brk"):
            raise Rs2vError("break in a loop that is translated as a fold")
        return super().stmt(s, env, cont, ctx)

    def panic_term(self, ctx):
        p = self.cfg["step"].get("panic") if ctx.get("loop") else self.cfg["res"].get("panic")
        if not p:
            raise Rs2vError("a panic is not expressible here")
        return p

    def no_shadow(self, name, ctx):
        """inside a loop body a new binding must not hide a variable of the enclosing function: the loop state is read back
        by NAME at the end of the body"""
        if ctx.get("loop") and name and name != "_" and name in getattr(self, "_outer", ()):
            raise Rs2vError("the loop body re-declares %s" % name)

    def opt_match(self, scrut, var, some_blk, none_blk, env, k, ctx):
        self.no_shadow(var, ctx)
        return super().opt_match(scrut, var, some_blk, none_blk, env, k, ctx)

    def bind(self, name, e, env, cont, ctx):
        self.no_shadow(name, ctx)
        e0 = e
        while e0[0] == "block" and not e0[1] and e0[2] is not None:
            e0 = e0[2]
        if e0[0] == "if":
            a, b = e0[2], e0[3]
            pure = not a[1] and a[2] is not None and b is not None and not b[1] and b[2] is not None \
                and a[2][0] not in ("if", "match", "iflet", "block") and b[2][0] not in ("if", "match", "iflet", "block")
            if not pure:
                def k(env2, v):
                    if v is None:
                        raise Rs2vError("let %s = if ..: an arm that goes on has no value" % name)
                    return self.bind(name, v, env2, lambda env3, _v=None: cont(self.keep(env3, env, name)), ctx)
                return self.if_(e0, env, k, ctx)
        nl = self.cfg.get("named_lets", {}).get(name)
        if nl:
            def cont2(env2, _v=None):
                t, term = env2[name]
                if ctx.get("loop") or isinstance(term, dict) or not self.is_closed(self.plain(term, name)):
                    raise Rs2vError("let %s = .. depends on more than the function's parameters" % name)
                if any(n == nl["def"] for n, _t in self.aux):
                    raise Rs2vError("let %s twice" % name)
                self.aux.append((nl["def"], "Definition %s %s : %s :=\n%s.\n" % (nl["def"], nl["binders"], nl["type"], term)))
                if nl.get("stop"):
                    raise StopAfterLet(name)
                env3 = dict(env2)
                env3[name] = (t, "(%s %s)" % (nl["def"], nl["args"]) if nl["args"] else nl["def"])
                return cont(env3)
            return super().bind(name, e, env, cont2, ctx)
        return super().bind(name, e, env, cont, ctx)

    def bind_tuple(self, names, e, env, cont, ctx):
        for n in names:
            self.no_shadow(n, ctx)
        if e[0] == "call" and e[1][0] == "path":
            h = self.cfg.get("effect_calls", {}).get("::".join(e[1][1]))
            if h:
                return h(self, names, e[2], env, cont, ctx)
        return super().bind_tuple(names, e, env, cont, ctx)

    def err_payload(self, x, env):
        while x[0] == "mcall" and x[2] in ("to_string", "clone") and not x[3]:
            x = x[1]
        return super().err_payload(x, env)

    def result(self, e, env, ctx):
        h = self.cfg.get("result_handler")
        if h:
            r = h(self, e, env, ctx)
            if r is not None:
                return r
        return super().result(e, env, ctx)

    # ---- match on a configured enum
    def match_(self, e, env, k, ctx):
        scrut, arms = e[1], e[2]
        enums = self.cfg.get("enums", {})
        ename = None
        for pat, _body in arms:
            if pat[0] == "ctor" and len(pat[1]) == 2 and pat[1][0] in enums:
                ename = pat[1][0]
        if ename is None:
            return super().match_(e, env, k, ctx)
        en = enums[ename]

        def go(scrut2, env2):
            t = self.type_of(scrut2, env2)
            if t != en["type"]:
                raise Rs2vError("match with %s patterns on a value of type %s" % (ename, t))
            term = self.ex(scrut2, env2)
            out, seen, wild = ["match %s with" % term], set(), False
            for pat, body in arms:
                if wild:
                    raise Rs2vError("match arm after `_`")
                if pat[0] == "wild":
                    wild = True
                    out += ["| _ =>", self.arm(body, env2, k, ctx)]
                    continue
                if pat[0] != "ctor" or len(pat[1]) != 2 or pat[1][0] != ename or pat[1][1] not in en["ctors"]:
                    raise Rs2vError("match pattern %r" % (pat,))
                var = pat[1][1]
                if var in seen:
                    raise Rs2vError("variant %s::%s matched twice" % (ename, var))
                seen.add(var)
                coq, argts = en["ctors"][var]
                if len(pat[2]) != len(argts):
                    raise Rs2vError("pattern %s::%s with %d fields" % (ename, var, len(pat[2])))
                env3, vs = dict(env2), []
                for x, xt in zip(pat[2], argts):
                    if xt is None:           # a field the model's constructor does not keep
                        if x:
                            raise Rs2vError("%s::%s: the model does not keep the field bound to %s" % (ename, var, x))
                        continue
                    self.no_shadow(x, ctx)
                    v = self.newvar(x or "w")
                    vs.append(v)
                    if x:
                        env3[x] = (xt, v)
                out += ["| %s =>" % " ".join([coq] + vs), self.arm(body, env3, k, ctx)]
            if not wild and seen != set(en["ctors"]):
                raise Rs2vError("match on %s does not cover %s" % (ename, ", ".join(sorted(set(en["ctors"]) - seen))))
            out.append("end")
            return "\n".join(out)
        return self.hoist(scrut, env, ctx, go, hint="x")

    # ---- loops
    def loop2(self, s, env, cont, ctx):
        lc = self.cfg.get("loop")
        if not lc or not lc.get("e"):
            return super().loop2(s, env, cont, ctx)
        if ctx.get("loop"):
            raise Rs2vError("nested loop")
        if self.loops:
            raise Rs2vError("more than one loop")
        if s[0] == "loop":
            pat, it, body = None, None, s[1]
        else:
            pat, it, body = s[1], s[2], s[3]
        state = lc["state"]
        for n in state:
            if not self.has(env, n) or isinstance(self.get(env, n)[1], dict):
                raise Rs2vError("loop state variable %s is not in scope" % n)
        for a in sorted(self.assigned_names(body)):
            root = a.split(".")[0]
            if a == "?":
                raise Rs2vError("the loop assigns to something that is not a variable")
            if root in env and not any(a == n or a.startswith(n + ".") for n in state):
                raise Rs2vError("the loop assigns %s, which is not part of the configured state (%s)" % (a, ", ".join(state)))

        def close(tv):
            t, term = tv
            if isinstance(term, dict):
                return (t, {f: close(x) for f, x in term.items()})
            return (t, term if (term != POISON and self.is_closed(term)) else POISON)
        benv = {n: close(tv) for n, tv in env.items()}
        svars = []
        for n in state:
            v = self.newvar(n)
            svars.append(v)
            benv = self.set(benv, n, (self.get(env, n)[0], v))
        name = lc.get("name") or ("%s_body" % self.cfg["coq_name"])
        call = "(%s%s)" % (name, (" " + self.cfg["fn_args"]) if self.cfg.get("fn_args") else "")
        frozen = {n: tv for n, tv in benv.items() if n not in state}

        def pack(env_, check=True):
            for n, tv in frozen.items():
                if check and n in env_ and env_[n] != tv:
                    raise Rs2vError("the loop body changes %s, which is not part of the configured state (%s)" % (n, ", ".join(state)))
            ts = [self.plain(self.get(env_, n)[1], n) for n in state]
            return ts[0] if len(ts) == 1 else "(" + ", ".join(ts) + ")"
        init = pack(env, False)
        item_decl = ""
        stp = self.cfg["step"]
        if s[0] == "loop":
            if not lc.get("fuel"):
                raise Rs2vError("`loop` without a configured fuel expression")
            if lc.get("pure"):
                raise Rs2vError("`loop` configured as a fold")
            drive = "loop_fuel %s %s %s" % (call, lc["fuel"], init)
        else:
            src = it
            while src[0] == "ref":
                src = src[1]
            if src[0] == "mcall" and src[2] == "iter" and not src[3]:
                src = src[1]
            lt = self.type_of(src, env) if src[0] in ("path", "field") else None
            if not (isinstance(lt, tuple) and lt[0] == "list" and lc.get("item") and lt[1] == lc["item"][0] and lc.get("pure")):
                raise Rs2vError("loop iterator %r" % (it,))
            item = self.newvar(pat)
            benv[pat] = (lc["item"][0], item)
            item_decl = " (%s : %s)" % (item, lc["item"][1])
            drive = "fold_left %s %s %s" % (call, self.ex(src, env), init)
        self._pack = pack
        self._outer = set(env)
        body_term = self.run(body[1], body[2], benv, lambda env2, v=None: stp["cont"] % pack(env2), {"loop": True})
        self._pack = None
        self._outer = set()
        if POISON in body_term:
            raise Rs2vError("the loop body uses a local of the enclosing function that is not one of its parameters")
        spat = svars[0] if len(svars) == 1 else "(" + ", ".join(svars) + ")"
        self.loops.append((name, "Definition %s%s (st : %s)%s : %s :=\nmatch st with\n| %s =>\n%s\nend.\n" % (
            name, (" " + self.cfg["fn_params"]) if self.cfg.get("fn_params") else "",
            lc["state_type"], item_decl, stp["type"], spat, body_term)))
        if lc.get("pure") and len(state) == 1:
            # a fold has one outcome: the state after the loop is the fold itself (no match, so that a later
            # `let` of the function stays a closed term)
            return cont(self.set(env, state[0], (self.get(env, state[0])[0], "(%s)" % drive)))
        avars = [self.newvar(n) for n in state]
        env_after = env
        for n, v in zip(state, avars):
            env_after = self.set(env_after, n, (self.get(env, n)[0], v))
        apat = avars[0] if len(avars) == 1 else "(" + ", ".join(avars) + ")"
        return self.cfg["res"]["consume"] % {"drive": drive, "pat": apat, "after": cont(env_after)}

    def newvar(self, base):
        return super().newvar(base.replace("%", ""))

    def function(self, params, body):
        env = {}
        for pn, _ in params:
            if pn in self.cfg["params"]:
                env[pn] = self.cfg["params"][pn]
        for n, tv in self.cfg.get("extra_env", {}).items():
            env[n] = tv
        return self.run(body[1], body[2], env, lambda env2, v: self.final(v, env2), {})


# =================================================================================================
# Record-state wave, builder B18 (first client: lib/gen/onerror_gen.py — the on_error command family of
# duckscript_sdk/src/sdk/std/on_error/).  Purely additive: nothing above this line is changed; FnRec extends FnState
# (parser: PState / parse_fn_state / parse_trait_method as they are).
#
#   FnRec   executor for command `run` functions that keep their state in a STRING-KEYED sub-map of which the hand model
#           keeps a typed record (one Option-typed field per key):
#     * cfg["records"] = {struct name: {"enum": "StateValue", "kinds": {variant: inner type},
#                                       "keys": {key literal: (field, variant)}}}: a struct-typed state component
#       (cfg["structs"], Fn2) that stands for a HashMap<String, Enum>.  The KEY of every access must evaluate to a string
#       LITERAL at translation time (a literal, a `static`, a local bound to one; through to_string / clone / &):
#         m.insert(K, Enum::V(x));     field(K) := Some x      V must be the variant the model keeps for K
#         m.remove(K);                 field(K) := None            m.clear();   every field := None
#         m.contains_key(K)            field(K) is Some
#         match m.get(K) { Some(v) => A, None => B }    a match on field(K) (decided statically when the field is known to
#                                      be Some / None at this point); v is a value of variant kind(K)
#         match v { Enum::V(x) => A, Enum::W(y) => B, _ => C }   on such a value: the arm of kind(K), else the `_` arm —
#                                      justified by the typed-record invariant the insert rule enforces
#         (`if let` forms of both)
#       an unknown key, a non-literal key, a value of another variant: Rs2vError (not understood), never a guess;
#     * VALUE-PRODUCING control flow with statements and effects in the arms — `let x = if c { s; a } else { t; b };`,
#       `let (a, b) = if ..`, `let x = match ..`, `let x = { s; e };` — by continuation duplication: the rest of the
#       function is translated once per leaf, every partial operation of a leaf (v[i]) is bound INSIDE its arm;
#     * cfg["inline"] = {fn name: {"params": .., "body": .., "ret": type}}: helpers that are executed at the call site
#       (a helper with a run-time key parameter is thereby specialised to the literal key of each call); an argument
#       that denotes a state component is passed by reference (alias), everything else by value; `return` inside an
#       inlined helper is refused; calls may sit inside a larger expression (they are bound first, left to right, never
#       on the right of a short-circuit operator);
#     * bool::to_string is cfg["bool_to_string"]; Vec::is_empty is an explicit match on the list;
#     * the function result goes through cfg["result"] (FnState) after inline calls / partial operations in it are bound.
#   Everything not understood raises Rs2vError.
LITERAL_TERM = re.compile(r"^\[(?:\d+%N(?:;\d+%N)*)?\]$")


def T_variant(enum, kind):
    return ("variant", enum, kind)


class FnRec(FnState):
    # ---- helpers
    def record_of(self, t):
        if is_struct(t):
            return self.cfg.get("records", {}).get(t[1])
        return None

    def rec_place(self, e, env):
        """dotted name of the record-backed map the expression denotes (through `&`, aliases), or None"""
        lv = self.place(e, env)
        if lv is None:
            return None
        t, val = self.get(env, lv)
        if self.record_of(t) is not None and isinstance(val, dict):
            return lv
        return None

    def literal(self, e, env, what):
        """the python string an expression of type String / &str evaluates to at translation time"""
        e = self.strip(e)
        while e[0] == "mcall" and e[2] in ("to_string", "to_owned", "clone", "as_str") and not e[3]:
            e = self.strip(e[1])
        if self.type_of(e, env) != Ty.STR:
            raise Rs2vError("%s: the key is not a string" % what)
        term = self.ex(e, env)
        if not LITERAL_TERM.match(term):
            raise Rs2vError("%s: the key is not a literal known at translation time" % what)
        return "".join(chr(int(x[:-2])) for x in term[1:-1].split(";") if x)

    def rec_key(self, lv, e, env, what):
        rc = self.record_of(self.get(env, lv)[0])
        key = self.literal(e, env, what)
        if key not in rc["keys"]:
            raise Rs2vError("%s: the model has no field for the state key %r" % (what, key))
        field, kind = rc["keys"][key]
        return rc, key, field, kind

    def inline_cfg(self, e):
        if e[0] == "call" and e[1][0] == "path":
            ic = self.cfg.get("inline", {})
            return ic.get("::".join(e[1][1])) or ic.get(e[1][1][-1])
        return None

    def has_inline(self, node):
        if isinstance(node, list):
            return any(self.has_inline(x) for x in node)
        if not isinstance(node, tuple) or not node:
            return False
        if self.inline_cfg(node) is not None:
            return True
        return any(self.has_inline(x) for x in node if isinstance(x, (tuple, list)))

    def let_names(self, node):
        """every name a `let` declares anywhere inside node"""
        out = set()

        def walk(n):
            if isinstance(n, list):
                for x in n:
                    walk(x)
                return
            if not isinstance(n, tuple) or not n:
                return
            if n[0] == "let":
                out.add(n[1])
            elif n[0] == "lettuple":
                out.update(n[1])
            elif n[0] == "ctor" and len(n) == 3 and isinstance(n[2], list):
                out.update(x for x in n[2] if isinstance(x, str))
            for x in n:
                if isinstance(x, (tuple, list)):
                    walk(x)
        walk(node)
        return out

    def leave(self, env_in, env_out, node):
        """the outer environment after a value-producing block: the outer names with their values as the block left them"""
        sh = sorted(x for x in self.let_names(node) if x in env_out)
        if sh:
            raise Rs2vError("a nested block re-declares %s" % ", ".join(sh))
        return {x: env_in[x] for x in env_out}

    # ---- types / expressions
    def type_of(self, e, env):
        if e[0] == "mcall":
            if e[2] == "to_string" and not e[3] and self.type_of(e[1], env) == Ty.BOOL:
                return Ty.STR
            if e[2] == "as_str" and not e[3]:
                return self.type_of(e[1], env)
            if e[2] == "contains_key" and len(e[3]) == 1 and self.rec_place(e[1], env) is not None:
                return Ty.BOOL
        if e[0] == "call" and e[1] == ("path", ["String", "new"]) and not e[2]:
            return Ty.STR
        if e[0] == "path" and len(e[1]) == 1 and e[1][0] in env and isinstance(env[e[1][0]][0], tuple) \
                and env[e[1][0]][0][0] == "variant":
            return env[e[1][0]][0]
        return super().type_of(e, env)

    def ex(self, e, env):
        if e[0] == "mcall":
            recv, m, args = e[1], e[2], e[3]
            if m == "to_string" and not args and self.type_of(recv, env) == Ty.BOOL:
                f = self.cfg.get("bool_to_string")
                if not f:
                    raise Rs2vError("to_string on a bool")
                return f % self.ex(recv, env)
            if m == "as_str" and not args:
                return self.ex(recv, env)
            if m == "is_empty" and not args:
                t = self.type_of(recv, env)
                if isinstance(t, tuple) and t[0] == "list":
                    return "(match %s with [] => true | _ :: _ => false end)" % self.ex(recv, env)
            if m == "contains_key" and len(args) == 1 and self.rec_place(recv, env) is not None:
                lv = self.rec_place(recv, env)
                _rc, _key, field, _kind = self.rec_key(lv, args[0], env, "%s.contains_key" % lv)
                cur = self.plain(self.get(env, lv + "." + field)[1], lv + "." + field)
                if some_inner(cur) is not None:
                    return "true"
                if cur == "None":
                    return "false"
                return "(match %s with Some _ => true | None => false end)" % cur
            if m in ("get", "insert", "remove", "clear") and self.rec_place(recv, env) is not None:
                raise Rs2vError("%s on the state map in a position the translator has no rule for" % m)
        if self.inline_cfg(e) is not None:
            raise Rs2vError("a call of an inlined helper in a position where it cannot be bound first")
        if e[0] == "path" and len(e[1]) == 1 and e[1][0] in env and isinstance(env[e[1][0]][0], tuple) \
                and env[e[1][0]][0][0] == "variant":
            raise Rs2vError("a value of the state map used as a whole (only `match` on it is understood)")
        return super().ex(e, env)

    def value2(self, e, env):
        """like value, a tuple expression gives (tuple type, [component values])"""
        if e[0] == "tuple" and e[1]:
            vs = [self.value2(x, env) for x in e[1]]
            return (T_tuple(*[v[0] for v in vs]), vs)
        return self.value(e, env)

    def as_term(self, tv, what):
        t, val = tv
        if isinstance(val, list):
            return "(" + ", ".join(self.as_term(x, what) for x in val) + ")"
        if isinstance(val, dict):
            return self.struct_term(t, val)
        return self.plain(val, what)

    # ---- binding inline calls and partial operations, then evaluating
    def hoist_calls(self, e, env, ctx, k):
        """k(e2, env2): e2 is e with every call of an inlined helper replaced by a temporary bound in env2"""
        pend = []

        def walk(n, guarded):
            if isinstance(n, list):
                return [walk(x, guarded) for x in n]
            if not isinstance(n, tuple) or not n:
                return n
            if n[0] in ("if", "iflet", "match", "block", "closure"):
                if self.has_inline(n):
                    raise Rs2vError("a call of an inlined helper inside a nested %s expression" % n[0])
                return n
            if n[0] in ("char", "str", "num", "bool", "path"):
                return n
            if self.inline_cfg(n) is not None:
                if guarded:
                    raise Rs2vError("a call of an inlined helper on the right of a short-circuit operator")
                args = walk(n[2], guarded)
                self._h += 1
                tmp = "%%c%d" % self._h
                pend.append((tmp, ("call", n[1], args)))
                return ("path", [tmp])
            if n[0] == "bin" and n[1] in ("&&", "||"):
                return ("bin", n[1], walk(n[2], guarded), walk(n[3], True))
            if n[0] == "struct":
                return ("struct", n[1], [(f, walk(x, guarded)) for f, x in n[2]])
            return tuple(walk(x, guarded) if isinstance(x, (tuple, list)) else x for x in n)

        e2 = walk(e, False)

        def bindall(i, env_):
            if i == len(pend):
                return k(e2, env_)
            tmp, call = pend[i]

            def kk(env2, tv):
                if e2 != ("path", [tmp]) and any(env2.get(x) != env_.get(x) for x in env_):
                    raise Rs2vError("an inlined helper that changes the state is called inside a larger expression")
                env3 = dict(env2)
                t, val = tv
                env3[tmp] = (t, self.as_term(tv, "the value of the inlined call") if isinstance(val, list) else val)
                return bindall(i + 1, env3)
            return self.inline_call(call, env_, ctx, kk)
        return bindall(0, env)

    def hoist_all(self, e, env, ctx, k):
        return self.hoist_calls(e, env, ctx, lambda e2, env2: self.hoist(e2, env2, ctx, k))

    def inline_call(self, call, env, ctx, k):
        """execute the helper's body at the call site; k(env2, (type, value))"""
        ic = self.inline_cfg(call)
        name = "::".join(call[1][1])
        params, body, args = ic["params"], ic["body"], call[2]
        if len(params) != len(args):
            raise Rs2vError("%s: %d arguments for %d parameters" % (name, len(args), len(params)))

        def go(args2, env1):
            cenv, roots = {}, []
            for (pn, _mut), a in zip(params, args2):
                pl = self.place(a, env1)
                if pl is not None and (isinstance(self.get(env1, pl)[1], dict) or self.is_map(self.get(env1, pl)[0])
                                       or self.is_set(self.get(env1, pl)[0])):
                    root = pl.split(".")[0]
                    if root not in roots:
                        roots.append(root)
                    cenv[pn] = (("alias", pl), None)
                else:
                    cenv[pn] = self.value(self.strip(a), env1)
            for r in roots:
                if r in cenv or r in self.let_names(body):
                    raise Rs2vError("%s: the name %s is used by both the caller's state and the helper" % (name, r))
                cenv[r] = env1[r]
            ctx2 = dict(ctx)
            ctx2["inline"] = name

            def done(cenv2, v):
                if v is None:
                    raise Rs2vError("%s: the inlined helper ends without a value" % name)

                def fin(cenv3, tv):
                    t = ic.get("ret") or tv[0]
                    env2 = dict(env1)
                    for r in roots:
                        env2[r] = cenv3[r]
                    return k(env2, (t, tv[1]))
                return self.eval_cps(v, cenv2, ctx2, fin)
            return self.run(body[1], body[2], cenv, done, ctx2)
        return self.hoist(args, env, ctx, go)

    def eval_cps(self, e, env, ctx, k):
        """k(env2, (type, value)) at every leaf of a value-producing expression (control flow, blocks, inline calls)"""
        while e[0] == "block" and not e[1] and e[2] is not None:
            e = e[2]

        def leaf(env2, v):
            if v is None:
                raise Rs2vError("a value-producing block ends without a value")
            return self.eval_cps(v, env2, ctx, k)
        if e[0] == "if":
            if e[3] is None:
                raise Rs2vError("a value-producing `if` without else")
            return self.if_(e, env, leaf, ctx)
        if e[0] == "iflet":
            return self.iflet2(e, env, leaf, ctx)
        if e[0] == "match":
            return self.match_(e, env, leaf, ctx)
        if e[0] == "block":
            return self.run(e[1], e[2], env, leaf, ctx)
        return self.hoist_all(e, env, ctx, lambda e2, env2: k(env2, self.value2(e2, env2)))

    def is_control(self, e):
        while e[0] == "block" and not e[1] and e[2] is not None:
            e = e[2]
        return e[0] in ("if", "iflet", "match", "block") or self.has_inline(e)

    # ---- statements
    def bind(self, name, e, env, cont, ctx):
        if self.call_cfg(e) is None and self.is_control(e):
            def k(env2, tv):
                t = self.cfg.get("locals", {}).get(name) or tv[0]
                if t is None:
                    raise Rs2vError("type of local %s unknown" % name)
                env3 = self.leave(env2, env, e)
                env3[name] = (t, self.as_term(tv, name) if isinstance(tv[1], list) else tv[1])
                return cont(env3)
            return self.eval_cps(e, env, ctx, k)
        return super().bind(name, e, env, cont, ctx)

    def bind_tuple(self, names, e, env, cont, ctx):
        if self.call_cfg(e) is None and self.is_control(e):
            def k(env2, tv):
                t, val = tv
                if not (isinstance(t, tuple) and t[0] == "tuple" and len(t[1]) == len(names)):
                    raise Rs2vError("let (%s) = a value of type %s" % (", ".join(names), t))
                env3 = self.leave(env2, env, e)
                if isinstance(val, list):
                    for n, x in zip(names, val):
                        if n != "_":
                            env3[n] = (x[0], self.as_term(x, n) if isinstance(x[1], list) else x[1])
                    return cont(env3)
                vs = []
                for n, nt in zip(names, t[1]):
                    v = self.newvar(n if n != "_" else "w")
                    vs.append(v)
                    if n != "_":
                        env3[n] = (nt, v)
                return "match %s with\n| (%s) =>\n%s\nend" % (self.plain(val, "tuple"), ", ".join(vs), cont(env3))
            return self.eval_cps(e, env, ctx, k)
        return super().bind_tuple(names, e, env, cont, ctx)

    def ret(self, e, env, ctx):
        if ctx.get("inline"):
            raise Rs2vError("%s: `return` inside an inlined helper" % ctx["inline"])
        return super().ret(e, env, ctx)

    def if_(self, e, env, k, ctx):
        if self.has_inline(e[1]):
            return self.hoist_calls(e[1], env, ctx, lambda c2, env2: FnState.if_(self, ("if", c2, e[2], e[3]), env2, k, ctx))
        return super().if_(e, env, k, ctx)

    # ---- the record-backed map
    def rec_effect(self, lv, m, args, env):
        what = "%s.%s" % (lv, m)
        if m == "insert" and len(args) == 2:
            rc, key, field, kind = self.rec_key(lv, args[0], env, what)
            val = self.strip(args[1])
            if not (val[0] == "call" and val[1][0] == "path" and len(val[1][1]) == 2 and val[1][1][0] == rc["enum"]
                    and len(val[2]) == 1):
                raise Rs2vError("%s: the value stored under %r is not %s::<variant>(..)" % (what, key, rc["enum"]))
            if val[1][1][1] != kind:
                raise Rs2vError("%s: the model keeps %s::%s under %r, the source stores %s::%s" % (
                    what, rc["enum"], kind, key, rc["enum"], val[1][1][1]))
            it = rc["kinds"][kind]
            if self.type_of(val[2][0], env) != it:
                raise Rs2vError("%s: %s::%s of a %s" % (what, rc["enum"], kind, self.type_of(val[2][0], env)))
            return self.set(env, lv + "." + field, (T_opt(it), "(Some %s)" % self.ex(val[2][0], env)))
        if m == "remove" and len(args) == 1:
            rc, key, field, kind = self.rec_key(lv, args[0], env, what)
            return self.set(env, lv + "." + field, (T_opt(rc["kinds"][kind]), "None"))
        if m == "clear" and not args:
            # every key the map can hold is one of the record's keys (typed-record invariant)
            rc = self.record_of(self.get(env, lv)[0])
            env2 = env
            for _key, (field, kind) in sorted(rc["keys"].items()):
                env2 = self.set(env2, lv + "." + field, (T_opt(rc["kinds"][kind]), "None"))
            return env2
        raise Rs2vError("method %s" % what)

    def is_unit_effect(self, e, env):
        if e[0] == "mcall" and e[2] in ("insert", "remove", "clear") and self.rec_place(e[1], env) is not None:
            return True
        return super().is_unit_effect(e, env)

    def effect(self, e, env, cont, ctx):
        if e[0] == "mcall" and e[2] in ("insert", "remove", "clear", "retain") and self.rec_place(e[1], env) is not None:
            return self.hoist_all(e[3], env, ctx, lambda a2, env2: cont(
                self.rec_effect(self.rec_place(e[1], env2), e[2], a2, env2)))
        if self.inline_cfg(e) is not None:
            # a helper called for its effect only
            return self.hoist_calls(e, env, ctx, lambda _e2, env2: cont({x: env2[x] for x in env}))
        return super().effect(e, env, cont, ctx)

    def rec_get(self, scrut, env):
        s = self.strip(scrut)
        if s[0] == "mcall" and s[2] == "get" and len(s[3]) == 1:
            lv = self.rec_place(s[1], env)
            if lv is not None:
                return lv, s[3][0]
        return None

    def variant_var(self, scrut, env):
        s = self.strip(scrut)
        if s[0] == "path" and len(s[1]) == 1 and s[1][0] in env:
            t = env[s[1][0]][0]
            if isinstance(t, tuple) and t[0] == "variant":
                return s[1][0]
        return None

    def rec_get_match(self, lv, keyexp, some_var, some_body, none_body, env, k, ctx):
        rc, key, field, kind = self.rec_key(lv, keyexp, env, "%s.get" % lv)
        fl = lv + "." + field
        t, cur = self.get(env, fl)
        self.plain(cur, fl)
        vt = T_variant(rc["enum"], kind)

        def some_env(env_, term):
            env2 = dict(env_)
            if some_var:
                env2[some_var] = (vt, term)
            return env2
        inner = some_inner(cur)
        if inner is not None:
            return self.arm(some_body, some_env(env, inner), k, ctx)
        if cur == "None":
            return self.arm(none_body, env, k, ctx)
        # reading does not change the symbolic state: the field keeps its term in both arms (a later `get` of the same
        # key matches on it again), so that a function that only reads returns the state it was given
        v = self.newvar(some_var or field)
        return "match %s with\n| Some %s =>\n%s\n| None =>\n%s\nend" % (
            cur, v, self.arm(some_body, some_env(env, v), k, ctx), self.arm(none_body, env, k, ctx))

    def variant_match(self, var, arms, env, k, ctx):
        """arms: [(pattern, body)]; the arm of the variant the model keeps for this key, else the `_` arm"""
        (_tag, enum, kind), term = env[var]
        rc = None
        for r in self.cfg.get("records", {}).values():
            if r["enum"] == enum:
                rc = r
        chosen = None
        for pat, body in arms:
            if pat == ("wild",):
                if chosen is None:
                    chosen = (None, body)
                break
            if pat[0] != "ctor" or len(pat[1]) != 2 or pat[1][0] != enum or len(pat[2]) > 1:
                raise Rs2vError("match pattern %r on a %s" % (pat, enum))
            if pat[1][1] == kind and chosen is None:
                chosen = (pat[2][0] if pat[2] else None, body)
        if chosen is None:
            raise Rs2vError("no arm for %s::%s" % (enum, kind))
        env2 = dict(env)
        if chosen[0]:
            env2[chosen[0]] = (rc["kinds"][kind], term)
        return self.arm(chosen[1], env2, k, ctx)

    def match_(self, e, env, k, ctx):
        scrut, arms = e[1], e[2]
        g = self.rec_get(scrut, env)
        if g is not None:
            some, none = None, None
            for pat, body in arms:
                if pat[0] == "ctor" and pat[1] == ["Some"] and len(pat[2]) == 1 and some is None:
                    some = (pat[2][0], body)
                elif (pat == ("wild",) or (pat[0] == "ctor" and pat[1] == ["None"] and not pat[2])) and none is None:
                    none = body
                else:
                    raise Rs2vError("match pattern %r on the result of get" % (pat,))
            if some is None or none is None:
                raise Rs2vError("match on the result of get: arms %r" % ([p for p, _b in arms],))
            return self.rec_get_match(g[0], g[1], some[0], some[1], none, env, k, ctx)
        var = self.variant_var(scrut, env)
        if var is not None:
            return self.variant_match(var, arms, env, k, ctx)
        if self.has_inline(scrut):
            return self.hoist_calls(scrut, env, ctx, lambda s2, env2: FnState.match_(self, ("match", s2, arms), env2, k, ctx))
        return super().match_(e, env, k, ctx)

    def iflet2(self, e, env, k, ctx):
        pat, scrut, blk, els = e[1], e[2], e[3], e[4]
        els = els if els is not None else ("block", [], None)
        g = self.rec_get(scrut, env)
        if g is not None:
            if not (pat[0] == "ctor" and pat[1] == ["Some"] and len(pat[2]) == 1):
                raise Rs2vError("if let pattern %r on the result of get" % (pat,))
            return self.rec_get_match(g[0], g[1], pat[2][0], blk, els, env, k, ctx)
        var = self.variant_var(scrut, env)
        if var is not None:
            return self.variant_match(var, [(pat, blk), (("wild",), els)], env, k, ctx)
        return super().iflet2(e, env, k, ctx)

    # ---- results
    def result(self, e, env, ctx):
        if ctx.get("inline"):
            raise Rs2vError("%s: the function result inside an inlined helper" % ctx["inline"])
        f = self.cfg.get("result")
        if not f:
            raise Rs2vError("no result builder configured")

        def fin(e2, env2):
            v = f(self, e2, env2, ctx)
            return "LRet %s" % v if ctx.get("loop") else v
        return self.hoist_all(e, env, ctx, fin)


# =================================================================================================
# Third wave, builder B12 (client: lib/gen/condslice_gen.py, eval_condition_for_slice / eval_condition of
# duckscript_sdk/src/utils/condition.rs).  Purely additive: nothing above this line is changed; the classes below
# extend P2 / Fn2.
#
#   PIdx   parser:   range indexing `v[a..b]`, `v[..]`, `v[a..]`, `v[..b]` (-> ("index", v, ("range", a|None, b|None)));
#                    the type annotation of a `let` is KEPT (("let", name, e, annotation text)) so that the executor can
#                    refuse an annotation that contradicts the configured type of the local.
#   FnIdx  executor: * `&v[a..b]` on a Vec / slice is hoisted into `match slice v a b with None => <panic> | Some w => ..`
#                      (explicit unwinding unless a <= b <= len), wherever it occurs: call argument, match scrutinee, let;
#                    * integer locals with a MODELLED OVERFLOW (cfg int_overflow: type -> spelling of the function that
#                      turns the mathematical result into `Some wrapped-or-exact` / `None` = panic): `x = x + n`,
#                      `x = x - n`, `x += n`, `x -= n` become a match on that function; arithmetic on such a type in
#                      any other position is refused (it would silently be unbounded);
#                    * unit enums (cfg enums; the variant list is read from the source with read_enum): values, `match`
#                      in statement / tail position, `_` arms are expanded per constructor, the matched variable is
#                      refined inside each arm;
#                    * `match CALL(..) { A(x) => .., B(y) => .., _ => .. }` on a callee whose model result type is given
#                      by cfg res_shapes: one Coq arm per MODEL constructor; a model constructor may bind the Rust
#                      pattern variables, stand for "every Rust variant not named in the shape" (needs a `_` arm),
#                      be a panic, or be an outcome of the model only (fuel) that is returned as it is;
#                    * Option<bool>-style values: `unwrap_or(d)`, `is_none / is_some` (spellings from cfg spell);
#                    * `for x in list` over a Vec / slice parameter: the body becomes a definition
#                      state -> item -> step, the state is packed into the configured record, `return e` inside the body
#                      is the step constructor cfg step.ret; `return Ok(..)` is allowed inside the loop;
#                    * error values: `"text".to_string()`, `format!("text {}", pure expr).to_string()` are mapped to
#                      the model's error codes by cfg err_texts (an unknown text is refused);
#                    * pure callees (cfg pure_helpers) in expression position;
#                    * assignments whose right-hand side has another type than the variable are refused.
#   Everything not understood raises Rs2vError.
class PIdx(P2):
    def postfix(self, e):
        while True:
            if self.opt("op", "("):
                e = ("call", e, self.args(")"))
            elif self.opt("op", "["):
                arith = self.PREC.index(("..",)) + 1
                lo = None if self.at("op", "..") else self.expr(arith)
                if self.opt("op", ".."):
                    hi = None if self.at("op", "]") else self.expr(arith)
                    self.eat("op", "]")
                    e = ("index", e, ("range", lo, hi))
                else:
                    self.eat("op", "]")
                    e = ("index", e, lo)
            elif self.at("op", ".") and self.peek(1)[0] == "id":
                self.i += 1
                n = self.eat("id")
                if self.opt("op", "("):
                    e = ("mcall", e, n, self.args(")"))
                else:
                    e = ("field", e, n)
            else:
                return e

    def stmt(self):
        if self.at("id", "let") and self.peek(1) != ("op", "("):
            self.i += 1
            self.opt("id", "mut")
            name = self.eat("id")
            ann = None
            if self.opt("op", ":"):
                j = self.i
                self.skip_type()
                ann = "".join(str(t[1]) for t in self.t[j:self.i])
            self.eat("op", "=")
            e = self.expr()
            self.eat("op", ";")
            return ("let", name, e, ann)
        return super().stmt()


def parse_fn_idx(src, name):
    """like parse_fn2, with the PIdx grammar"""
    m = re.search(r"(?:pub(?:\([a-z]+\))?\s+)?fn\s+%s\s*\(" % re.escape(name), src)
    if not m:
        raise Rs2vError("fn %s not found" % name)
    p = PIdx(lex(src[m.start():], stop_after_item=True))
    n, params, body = p.fn()
    return params, body


def read_enum(src, name):
    """variant names of the unit-only `enum NAME { A, B, .. }`"""
    m = re.search(r"\benum\s+%s\s*\{(.*?)\}" % re.escape(name), src, re.S)
    if not m:
        raise Rs2vError("enum %s not found" % name)
    body = re.sub(r"//[^\n]*", "", m.group(1))
    out = []
    for part in body.split(","):
        part = part.strip()
        if not part:
            continue
        if not re.fullmatch(r"[A-Za-z_][A-Za-z0-9_]*", part):
            raise Rs2vError("enum %s: variant %r is not a unit variant" % (name, part))
        out.append(part)
    return out


IDX_SPELL = {"is_none": "(opt_is_none %s)", "is_some": "(opt_is_some %s)", "is_empty": "(list_is_empty %s)",
             "unwrap_or": "(match %s with Some unwrap_or_v => unwrap_or_v | None => %s end)", "slice": "slice %s %s %s"}


class FnIdx(Fn2):
    """cfg keys in addition to Fn2's:
      enums         {Rust enum name: {variant: coq constructor}}        unit enums (the enum name is also the type)
      int_overflow  {type: fmt}     fmt % mathematical-result-term : option of the type; None = the operation panics
      annot         {local: [acceptable Rust type texts]}               checked when the `let` carries an annotation
      spell         spellings (see IDX_SPELL)
      pure_helpers  {rust fn path: {"term": f(fn, args, env) -> term, "ret": type}}
      calls         {rust fn path: {"call": f(fn, args, env) -> term, "res": key of res_shapes, "tail": bool}}
      res_shapes    {key: [model constructor, ..]}; a model constructor is a dict
                      {"coq": C, "rust": "Ok", "binds": [type | ("fixed", type, term)]}   arm for the Rust pattern Ok(..)
                      {"coq": C, "kind": "rest"}                      every Rust variant the shape does not name (`_` arm)
                      {"coq": C, "kind": "panic"}                     the callee unwinds
                      {"coq": C, "kind": "ret", "term": T}            model-only outcome, returned as T
      err_texts     {error text / format string: model error payload term}
      loop          for `for x in list`: {"kind": "list", "state": [names], "state_type": T, "pack": fmt, "driver": name,
                                          "item_coq": coq type of the item, "body_params": [], "body_param_types": {}}
      step          needs "ret": fmt over a function result (the early `return` of a loop body)
    """

    def sp(self, key):
        return self.cfg.get("spell", {}).get(key, IDX_SPELL[key])

    def enum_of(self, e):
        """(enum, variant) when e is the path Enum::Variant of a configured enum"""
        if e[0] == "path" and len(e[1]) == 2 and e[1][0] in self.cfg.get("enums", {}):
            if e[1][1] not in self.cfg["enums"][e[1][0]]:
                raise Rs2vError("enum %s has no model constructor for %s" % (e[1][0], e[1][1]))
            return e[1][0], e[1][1]
        return None

    def call_cfg(self, path):
        cs = self.cfg.get("calls", {})
        return cs.get("::".join(path))

    def is_list(self, t):
        return isinstance(t, tuple) and t[0] == "list"

    def is_opt(self, t):
        return isinstance(t, tuple) and t[0] == "option"

    # ---- types
    def type_of(self, e, env):
        k = e[0]
        ev = self.enum_of(e)
        if ev:
            return ev[0]
        if k == "mcall" and e[2] == "unwrap_or" and len(e[3]) == 1:
            t = self.type_of(e[1], env)
            if not self.is_opt(t):
                raise Rs2vError("unwrap_or on %s" % (t,))
            return t[1]
        if k == "call" and e[1][0] == "path":
            ph = self.cfg.get("pure_helpers", {}).get("::".join(e[1][1]))
            if ph:
                return ph["ret"]
        return super().type_of(e, env)

    # ---- pure expressions
    def ex(self, e, env):
        k = e[0]
        ev = self.enum_of(e)
        if ev:
            return self.cfg["enums"][ev[0]][ev[1]]
        if k == "bin" and e[1] in ("+", "-", "*"):
            for side in (e[2], e[3]):
                if side[0] != "num" and self.type_of(side, env) in self.cfg.get("int_overflow", {}):
                    raise Rs2vError("arithmetic on an overflow-modelled integer outside `x = x +/- n`")
        if k == "mcall":
            recv, m, args = e[1], e[2], e[3]
            if m in ("is_some", "is_none") and not args:
                t = self.type_of(recv, env)
                if not self.is_opt(t):
                    raise Rs2vError("%s on %s" % (m, t))
                return self.sp(m) % self.ex(recv, env)
            if m == "is_empty" and not args and self.is_list(self.type_of(recv, env)):
                return self.sp("is_empty") % self.ex(recv, env)
            if m == "unwrap_or" and len(args) == 1:
                t = self.type_of(recv, env)
                if not self.is_opt(t):
                    raise Rs2vError("unwrap_or on %s" % (t,))
                d = self.num(args[0], t[1], env)
                if args[0][0] != "num" and self.type_of(args[0], env) != t[1]:
                    raise Rs2vError("unwrap_or default of type %s" % (self.type_of(args[0], env),))
                term = self.ex(recv, env)
                inner = some_inner(term)
                if inner is not None:
                    return inner
                if term == "None":
                    return d
                return self.sp("unwrap_or") % (term, d)
        if k == "call" and e[1][0] == "path":
            ph = self.cfg.get("pure_helpers", {}).get("::".join(e[1][1]))
            if ph:
                return ph["term"](self, e[2], env)
        return super().ex(e, env)

    # ---- `&v[a..b]`
    def hoist(self, e, env, ctx, k, hint="x"):
        pend = []

        def walk(n, guarded):
            if isinstance(n, list):
                return [walk(x, guarded) for x in n]
            if not isinstance(n, tuple) or not n:
                return n
            if n[0] in ("if", "iflet", "match", "block", "char", "str", "num", "bool", "path", "macro"):
                return n
            if n[0] == "index" and isinstance(n[2], tuple) and n[2] and (
                    n[2][0] == "range" or (n[2][0] == "bin" and n[2][1] == "..")):
                if guarded:
                    raise Rs2vError("v[a..b] on the right of a short-circuit operator")
                lo, hi = (n[2][1], n[2][2]) if n[2][0] == "range" else (n[2][2], n[2][3])
                self._h += 1
                tmp = "%%s%d" % self._h
                pend.append((tmp, n[1], lo, hi))
                return ("path", [tmp])
            if n[0] == "bin" and n[1] in ("&&", "||"):
                return ("bin", n[1], walk(n[2], guarded), walk(n[3], True))
            if n[0] == "struct":
                return ("struct", n[1], [(f, walk(x, guarded)) for f, x in n[2]])
            return tuple(walk(x, guarded) if isinstance(x, (tuple, list)) else x for x in n)

        e2 = walk(e, False)
        if not pend:
            return super().hoist(e, env, ctx, k, hint)

        def bound(x, env_):
            if x[0] != "num" and self.type_of(x, env_) != Ty.NAT:
                raise Rs2vError("range bound of type %s" % (self.type_of(x, env_),))
            return self.num(x, Ty.NAT, env_)

        def bindall(i, env_):
            if i == len(pend):
                return super(FnIdx, self).hoist(e2, env_, ctx, k, hint)
            tmp, base, lo, hi = pend[i]
            bt = self.type_of(base, env_)
            if not self.is_list(bt):
                raise Rs2vError("range index into %s" % (bt,))
            bterm = self.ex(base, env_)            # bounds and base must be pure (no nested partial operation)
            lot = bound(lo, env_) if lo is not None else "0%nat"
            hit = bound(hi, env_) if hi is not None else "(length %s)" % bterm
            v = self.newvar(hint)
            env2 = dict(env_)
            env2[tmp] = (bt, v)
            return "match %s with\n| None => %s\n| Some %s =>\n%s\nend" % (
                self.sp("slice") % (bterm, lot, hit), self.panic_term(ctx), v, bindall(i + 1, env2))
        return bindall(0, env)

    # ---- outcomes
    def ret_term(self, term, ctx):
        if ctx.get("loop"):
            r = self.cfg["step"].get("ret")
            if not r:
                raise Rs2vError("return inside the loop is not expressible here")
            return r % term
        return term

    def fail_term(self, payload, ctx):
        if ctx.get("loop") and not self.cfg["step"].get("fail"):
            return self.ret_term(self.cfg["res"]["err"] % payload, ctx)
        return super().fail_term(payload, ctx)

    def err_payload(self, x, env):
        y = x
        while y[0] == "mcall" and y[2] in ("to_string", "to_owned", "clone") and not y[3]:
            y = y[1]
        texts = self.cfg.get("err_texts")
        if texts is not None:
            key = None
            if y[0] == "str":
                key = y[1]
            elif y[0] == "macro" and y[1] == "format" and y[2] and y[2][0][0] == "str":
                key = y[2][0][1]
                if key.count("{}") != len(y[2]) - 1 or key.count("{") != key.count("{}"):
                    raise Rs2vError("format string %r" % key)
                for a in y[2][1:]:
                    self.ex(a, env)                 # the interpolated values must be pure expressions
            if key is not None:
                if key not in texts:
                    raise Rs2vError("error text %r has no model error code" % key)
                return texts[key]
        if y[0] == "path" and len(y[1]) == 1 and y[1][0] in env and env[y[1][0]][0] == "error":
            return env[y[1][0]][1]
        return super().err_payload(x, env)

    def result(self, e, env, ctx):
        if e[0] == "call" and e[1][0] == "path":
            name = "::".join(e[1][1])
            if name == "Ok" and len(e[2]) == 1 and ctx.get("loop"):
                return self.hoist(e[2][0], env, ctx,
                                  lambda x2, env2: self.ret_term(self.cfg["res"]["ok"] % self.ex(x2, env2), ctx))
            h = self.call_cfg(e[1][1])
            if h and h.get("tail") and not ctx.get("loop"):
                return self.hoist(e[2], env, ctx, lambda a2, env2: h["call"](self, a2, env2))
        return super().result(e, env, ctx)

    # ---- statements
    def stmt(self, s, env, cont, ctx):
        if s[0] == "let" and len(s) > 3 and s[3] is not None:
            ok = self.cfg.get("annot", {}).get(s[1])
            if ok is None or s[3] not in ok:
                raise Rs2vError("local %s is annotated %s" % (s[1], s[3]))
        if s[0] == "let" and s[1] in env:
            raise Rs2vError("local %s declared twice / shadows a parameter" % s[1])
        return super().stmt(s, env, cont, ctx)

    def int_arith(self, rhs, t, env):
        """(sign, a, b) when rhs is `A + B` / `A - B` over operands that are literals or pure values of type t"""
        if rhs[0] != "bin" or rhs[1] not in ("+", "-"):
            return None
        out = []
        for side in (rhs[2], rhs[3]):
            if side[0] == "num":
                out.append(self.num(side, t, env))
            else:
                lv = self.lvalue(side)
                if lv is None or not self.has(env, lv) or self.get(env, lv)[0] != t:
                    raise Rs2vError("operand of an overflow-modelled operation is not a variable of the same type")
                out.append(self.plain(self.get(env, lv)[1], lv))
        return rhs[1], out[0], out[1]

    def assign(self, s, env, cont, ctx):
        lhs, op, rhs = s[1], s[2], s[3]
        lv = self.lvalue(lhs)
        if lv is not None and self.has(env, lv):
            t, cur = self.get(env, lv)
            ov = self.cfg.get("int_overflow", {})
            if t in ov and not isinstance(cur, dict):
                ar = None
                if op in ("+=", "-=") and rhs[0] == "num":
                    ar = (op[0], self.plain(cur, lv), self.num(rhs, t, env))
                elif op == "=":
                    ar = self.int_arith(rhs, t, env)
                elif op != "=":
                    raise Rs2vError("assignment %s %s" % (lv, op))
                if ar is not None:
                    scope = {Ty.INT_Z: "Z", Ty.NAT: "nat", Ty.NUM_N: "N"}.get(t)
                    if scope is None:
                        raise Rs2vError("overflow model on %s" % (t,))
                    v = self.newvar(lv)
                    z = "(%s %s %s)%%%s" % (ar[1], ar[0], ar[2], scope)
                    return "match %s with\n| None => %s\n| Some %s =>\n%s\nend" % (
                        ov[t] % z, self.panic_term(ctx), v, cont(self.set(env, lv, (t, v))))
            if op == "=" and rhs[0] not in ("num", "match"):
                try:
                    vt = self.type_of(rhs, env)
                except Rs2vError:
                    vt = None
                if vt is not None and vt != t and not (self.is_opt(vt) and vt[1] is None and self.is_opt(t)):
                    raise Rs2vError("assignment of a %s to %s : %s" % (vt, lv, t))
        return super().assign(s, env, cont, ctx)

    # ---- match
    def classify_arms(self, arms):
        named, wild = {}, None
        for pat, body in arms:
            if wild is not None:
                raise Rs2vError("match arm after `_`")
            if pat[0] == "wild":
                wild = body
            elif pat[0] == "ctor":
                name = "::".join(pat[1])
                if name in named:
                    raise Rs2vError("match arm %s twice" % name)
                named[name] = (pat[2], body)
            else:
                raise Rs2vError("match pattern %r" % (pat,))
        return named, wild

    def match_(self, e, env, k, ctx):
        scrut, arms = e[1], e[2]
        s = scrut
        while s[0] in ("ref", "refmut"):
            s = s[1]
        if s[0] == "call" and s[1][0] == "path":
            h = self.call_cfg(s[1][1])
            if h and h.get("res") in self.cfg.get("res_shapes", {}):
                return self.hoist(s[2], env, ctx,
                                  lambda a2, env2: self.match_call(h, a2, arms, env2, k, ctx), hint="x")
        else:
            lv = self.lvalue(s)
            if lv is not None and self.has(env, lv) and self.get(env, lv)[0] in self.cfg.get("enums", {}):
                return self.match_enum(s, arms, env, k, ctx)
        return super().match_(e, env, k, ctx)

    def match_call(self, h, args, arms, env, k, ctx):
        shape = self.cfg["res_shapes"][h["res"]]
        named, wild = self.classify_arms(arms)
        known = set(c["rust"] for c in shape if c.get("rust"))
        for name in named:
            if name not in known:
                raise Rs2vError("match arm %s has no model constructor" % name)
        out = ["match %s with" % h["call"](self, args, env)]
        for c in shape:
            kind = c.get("kind", "arm")
            if kind == "panic":
                out.append("| %s => %s" % (c["coq"], self.panic_term(ctx)))
            elif kind == "ret":
                out.append("| %s => %s" % (c["coq"], self.ret_term(c["term"], ctx)))
            elif kind == "rest":
                if wild is None:
                    raise Rs2vError("the match names every variant it handles; the model constructor %s needs a `_` arm" % c["coq"])
                out += ["| %s =>" % c["coq"], self.arm(wild, dict(env), k, ctx)]
            elif c["rust"] in named:
                subs, body = named[c["rust"]]
                if len(subs) != len(c["binds"]):
                    raise Rs2vError("pattern %s with %d fields" % (c["rust"], len(subs)))
                vs, env2 = [], dict(env)
                for sub, b in zip(subs, c["binds"]):
                    if sub and sub in env:
                        raise Rs2vError("pattern variable %s shadows a local" % sub)
                    if isinstance(b, tuple) and b and b[0] == "fixed":
                        if sub:
                            env2[sub] = (b[1], b[2])
                        continue
                    v = self.newvar(sub or "w")
                    vs.append(v)
                    if sub:
                        env2[sub] = (b, v)
                out += ["| %s =>" % " ".join([c["coq"]] + vs), self.arm(body, env2, k, ctx)]
            elif wild is not None:
                n = sum(1 for b in c["binds"] if not (isinstance(b, tuple) and b and b[0] == "fixed"))
                out += ["| %s =>" % " ".join([c["coq"]] + ["_"] * n), self.arm(wild, dict(env), k, ctx)]
            else:
                raise Rs2vError("no match arm for %s" % c["rust"])
        out.append("end")
        return "\n".join(out)

    def match_enum(self, s, arms, env, k, ctx):
        lv = self.lvalue(s)
        t, term = self.get(env, lv)
        self.plain(term, lv)
        variants = self.cfg["enums"][t]
        named, wild = self.classify_arms(arms)
        for name, (subs, _b) in named.items():
            parts = name.split("::")
            if len(parts) != 2 or parts[0] != t or parts[1] not in variants or subs:
                raise Rs2vError("match arm %s on the enum %s" % (name, t))

        def run_arm(v):
            key = "%s::%s" % (t, v)
            body = named[key][1] if key in named else wild
            if body is None:
                raise Rs2vError("no match arm for %s" % key)
            return self.arm(body, self.set(env, lv, (t, variants[v])), k, ctx)
        for v, c in variants.items():
            if term == c:
                return run_arm(v)
        out = ["match %s with" % term]
        for v, c in variants.items():
            out += ["| %s =>" % c, run_arm(v)]
        out.append("end")
        return "\n".join(out)

    # ---- `for x in list`
    def loop2(self, s, env, cont, ctx):
        lc = self.cfg.get("loop")
        if s[0] == "for" and lc and lc.get("kind") == "list":
            return self.loop_list(s, env, cont, ctx)
        return super().loop2(s, env, cont, ctx)

    def loop_list(self, s, env, cont, ctx):
        if ctx.get("loop"):
            raise Rs2vError("nested loop")
        if self.loops:
            raise Rs2vError("more than one loop")
        lc = self.cfg["loop"]
        pat, it, body = s[1], s[2], s[3]
        src = it
        while src[0] in ("ref",) or (src[0] == "mcall" and src[2] == "iter" and not src[3]):
            src = src[1]
        slv = self.lvalue(src)
        if slv is None or not self.has(env, slv) or not self.is_list(self.get(env, slv)[0]):
            raise Rs2vError("loop iterator %r" % (it,))
        et = self.get(env, slv)[0][1]
        lterm = self.plain(self.ex(src, env), slv)
        if pat in env:
            raise Rs2vError("loop variable %s shadows a local" % pat)
        state = lc["state"]
        for n in state:
            if not self.has(env, n) or isinstance(self.get(env, n)[1], dict):
                raise Rs2vError("loop state variable %s is not in scope" % n)
        if slv in state:
            raise Rs2vError("the loop iterates over its own state")
        for a in sorted(self.assigned_names(body)):
            root = a.split(".")[0]
            if a == "?":
                raise Rs2vError("the loop assigns to something that is not a variable")
            if root in env and not any(a == n or a.startswith(n + ".") for n in state):
                raise Rs2vError("the loop assigns %s, which is not part of the configured state (%s)" % (a, ", ".join(state)))
        bp = dict(lc.get("body_params", []))

        def close(dotted, tv):
            t, term = tv
            if isinstance(term, dict):
                return (t, {f: close(dotted + "." + f, x) for f, x in term.items()})
            if dotted in bp:
                return (t, bp[dotted])
            return (t, term if (term != POISON and self.is_closed(term)) else POISON)
        benv = {n: close(n, tv) for n, tv in env.items()}
        svars = []
        for n in state:
            v = self.newvar(n)
            svars.append(v)
            benv = self.set(benv, n, (self.get(env, n)[0], v))
        name = "%s_body" % self.cfg["coq_name"]
        call = "(%s%s%s)" % (name, (" " + self.cfg["fn_args"]) if self.cfg.get("fn_args") else "",
                             "".join(" " + self.plain(self.ex(self.field_path(n), env), n) for n, _c in lc.get("body_params", [])))
        fmt = lc.get("pack")

        def pack(env_):
            ts = [self.plain(self.get(env_, n)[1], n) for n in state]
            if fmt:
                return fmt % tuple(ts)
            return ts[0] if len(ts) == 1 else "(" + ", ".join(ts) + ")"
        item = self.newvar(pat)
        benv[pat] = (et, item)
        stp = self.cfg["step"]
        self._pack = pack
        body_term = self.run(body[1], body[2], benv, lambda env2, v=None: stp["cont"] % pack(env2), {"loop": True})
        self._pack = None
        if POISON in body_term:
            raise Rs2vError("the loop body uses a local of the enclosing function that is not one of its parameters")
        spat = (fmt % tuple(svars)) if fmt else (svars[0] if len(svars) == 1 else "(" + ", ".join(svars) + ")")
        self.loops.append((name, "Definition %s%s%s (st : %s) (%s : %s) : %s :=\nmatch st with\n| %s =>\n%s\nend.\n" % (
            name, (" " + self.cfg["fn_params"]) if self.cfg.get("fn_params") else "",
            "".join(" (%s : %s)" % (c, lc["body_param_types"][c]) for _n, c in lc.get("body_params", [])),
            lc["state_type"], item, lc["item_coq"], stp["type"], spat, body_term)))
        avars = [self.newvar(n) for n in state]
        env_after = env
        for n, v in zip(state, avars):
            env_after = self.set(env_after, n, (self.get(env, n)[0], v))
        apat = (fmt % tuple(avars)) if fmt else (avars[0] if len(avars) == 1 else "(" + ", ".join(avars) + ")")
        drive = "%s %s %s %s" % (lc["driver"], call, lterm, pack(env))
        return self.cfg["res"]["consume"] % {"drive": drive, "pat": apat, "after": cont(env_after)}


# =================================================================================================
# Third wave (builder B10; first client: lib/gen/runner_gen.py, the fetch/execute loop of duckscript/src/runner.rs).
# Purely additive: nothing above this line is changed; P3 / FnR extend P2 / Fn2.
#
#   P3    parser:   method calls with a turbofish (`s.parse::<i32>()`, recorded as method `parse::<i32>`)
#   FnR   executor for functions that thread a WORLD (a set of `&mut` places the configuration maps to one model
#         value) through calls of other functions and of opaque objects, and whose result is a value of a sum type:
#     * every expression is evaluated in continuation-passing style to a VALUE (type, term): blocks, `if`,
#       `if let`, `match` may appear wherever a value is expected (`let (a, b) = if c { ..; (x, y) } else { break; };`,
#       `let r = match e { A => v, B(ref s) => { x = ..; match .. } };`), arms may diverge (`break`, `return`);
#     * `match` / `if let` on ANY configured sum type: Option, a Result seen as an option (`okopt`: Ok = Some, the error
#       is not looked at; `erropt`: Result<(), E>, Err = Some), an Option whose presence is a boolean test of the model
#       (`boolopt`), and enums with payloads given by cfg['enums']; unreachable `_` arms are dropped, a missing arm is an error;
#     * calls with effects are given by configuration handlers (cfg['calls'] for functions, cfg['mcalls'] for methods):
#       a handler checks the Rust arguments (which place is passed where) and returns the model call, the `let`s
#       to emit, the environment afterwards (world, ghost components) and the value; the executor never guesses an effect;
#     * lexical scoping with shadowing (`enter` / `declare` / `leave`): an inner `let x` / pattern variable hides an
#       outer x until the block ends, assignments to outer variables survive the block;
#     * structs held in ONE Coq variable (field access by projection, cfg['structs'][..]['proj']) besides Fn2's structs
#       held field by field; tuples as component lists (destructuring costs nothing);
#     * path refinement: Fn2's `is_some / is_none / unwrap`, and the BOUNDS TEST `if v.len() > i { A } else { B }`
#       (also `i < v.len()` and the negated forms), translated to `match v !! i with Some x => A | None => B end` with
#       `v[i]` inside A (same vector term, same index term) being x — `v.len() > i` holds exactly when `v.get(i)` is
#       Some; any other `v[i]` would need a panic outcome and is refused;
#     * constant folding of conditions over parameters the configuration fixes (`repl_mode` = false): the dead branch
#       is not translated;
#     * `loop { .. }` as a STEP function: the body becomes a definition from the loop state to `next state + final
#       result`; `break` is the code that follows the loop, executed in the environment of the `break` (so what the
#       function does after the loop is part of every breaking path); a mutable local that is assigned in the body but
#       is not part of the configured state must be back at its entry value at every `continue` point (checked
#       syntactically: it is then loop invariant), else the function is refused;
#     * `for x in &v { .. }` without early exit as a fold: the body becomes a definition state -> item -> state;
#       a `for x in l { v.push(x) }` whose body is that single push is `v ++ l` (no definition needed);
#     * maps held in a variable / field: `m.get(&k)` is `m !! k`, `m.insert(k, v)` is `<[k := v]> m`, `m.remove(&k)` is
#       `delete k m`, `m.contains_key(&k)` is `opt_is_some (m !! k)`; `continue`; `x + 1`, `x += 1` on usize are `S x`; `o.unwrap_or(d)` is `default d o`; `n.to_string()` on usize
#       is cfg['nat_to_string'].
#   Everything not understood raises Rs2vError.
UNIT = ("unit", "tt")


def T_okopt(t):
    return ("okopt", t)


def T_erropt(t):
    return ("erropt", t)


def T_boolopt(payload):
    return ("boolopt", payload)


def T_enum(n):
    return ("enum", n)


def T_map(k, v):
    return ("map", k, v)


class P3(P2):
    def postfix(self, e):
        while True:
            if self.opt("op", "("):
                e = ("call", e, self.args(")"))
            elif self.opt("op", "["):
                ix = self.expr()
                self.eat("op", "]")
                e = ("index", e, ix)
            elif self.at("op", ".") and self.peek(1)[0] == "id":
                self.i += 1
                n = self.eat("id")
                if self.at("op", "::") and self.peek(1) == ("op", "<"):
                    self.i += 2
                    depth, parts = 1, []
                    while depth:
                        a = self.peek()
                        if a[0] == "eof":
                            raise Rs2vError("eof in turbofish")
                        if a == ("op", "<"):
                            depth += 1
                        elif a == ("op", ">"):
                            depth -= 1
                            if depth == 0:
                                self.i += 1
                                break
                        parts.append(str(a[1]))
                        self.i += 1
                    n = "%s::<%s>" % (n, "".join(parts))
                    self.eat("op", "(")
                    e = ("mcall", e, n, self.args(")"))
                elif self.opt("op", "("):
                    e = ("mcall", e, n, self.args(")"))
                else:
                    e = ("field", e, n)
            else:
                return e


def parse_fn3(src, name):
    """like parse_fn2, with the P3 grammar"""
    m = re.search(r"(?:pub(?:\([a-z]+\))?\s+)?fn\s+%s\s*\(" % re.escape(name), src)
    if not m:
        raise Rs2vError("fn %s not found" % name)
    p = P3(lex(src[m.start():], stop_after_item=True))
    n, params, body = p.fn()
    return params, body


def fold_bool(term):
    """constant folding of the boolean terms the executor builds itself"""
    m = re.match(r"^\(negb (true|false)\)$", term)
    if m:
        return "false" if m.group(1) == "true" else "true"
    return term


class FnR(Fn2):
    """cfg keys (all function specific knowledge lives in the client):
      params        {rust name: (type, term | field dict | component list)}; every parameter of the Rust function must be listed
      env0          {ghost name ('%..'): value}            initial ghost components (world, logs ..)
      locals        {rust name: type}                      declared types of `let x = None / 0 / vec![]`
      structs       {Name: {"fields": [(f, type)], "proj": {f: fmt}}}   structs held in one Coq variable
      enums         {Name: {rust path: (coq constructor, [payload types] | None)}}   None: the payload is not modelled
      ctor_handlers {rust path: f(fn, args, env) -> (type, value)}      constructors in expression position
      struct_handlers {rust path: f(fn, fields, env) -> (type, value)}
      format        f(fn, format string, [argument values], env) -> (type, term)      `format!(..)`
      pure_methods  {method: f(fn, recv expr, args, env) -> (type, value) | None}
      calls         {rust fn path: f(fn, args, env, ctx) -> (lets, env2, value)}      lets: [(coq var, term)]
      mcalls        {method: f(fn, recv expr, args, env, ctx) -> (lets, env2, value) | None}
      bind_hook     f(fn, name, value, env) -> env2 | None     `let name = value` with a meaning of its own (a copy of a place)
      assign_hook   f(fn, dotted lvalue, value, env) -> env2 | None
      result        f(fn, value, env, ctx) -> coq term         the function's result for `return e` / the tail value
      nat_to_string fmt
      loop          {"kind": "step", "name", "binders", "type", "entry": f(fn, env) -> env, "cont": f(fn, env) -> term,
                     "state": [dotted names], "drive": f(fn, env) -> term}
                  | {"kind": "fold", "name", "binders", "args", "state": [dotted names], "state_type", "item": (type, coq type)}
    """

    def __init__(self, cfg):
        cfg.setdefault("step", {"type": "", "cont": None, "brk": None, "fail": None, "panic": None})
        cfg.setdefault("res", {"panic": None})
        super().__init__(cfg)
        self.defs = []
        self.in_step = False

    # ---- scopes ------------------------------------------------------------------------------------
    def enter(self, env):
        e = dict(env)
        e["%decl"] = ("meta", frozenset())
        e["%saved"] = ("meta", {})
        return e

    def declare(self, env, name, tv):
        decl = env.get("%decl", ("meta", frozenset()))[1]
        saved = env.get("%saved", ("meta", {}))[1]
        env2 = dict(env)
        if name in env and name not in decl:
            saved = dict(saved)
            saved[name] = env[name]
        env2["%decl"] = ("meta", decl | {name})
        env2["%saved"] = ("meta", saved)
        env2[name] = tv
        return env2

    def leave(self, outer, inner):
        saved = inner.get("%saved", ("meta", {}))[1]
        decl = inner.get("%decl", ("meta", frozenset()))[1]
        out = {}
        for n, v in inner.items():
            if n in ("%decl", "%saved", "%facts"):
                continue
            if n in saved:
                out[n] = saved[n]
            elif n in decl:
                continue
            else:
                out[n] = v
        for n in ("%decl", "%saved", "%facts"):
            if n in outer:
                out[n] = outer[n]
        return out

    # ---- values ------------------------------------------------------------------------------------
    def term_of(self, tv, what="value"):
        t, v = tv
        if isinstance(v, dict):
            return self.struct_term(t, v)
        if isinstance(v, list):
            return "(" + ", ".join(self.term_of(x, what) for x in v) + ")"
        if not isinstance(v, str):
            raise Rs2vError("%s of type %s has no Coq term" % (what, t))
        return self.plain(v, what)

    def strip(self, e):
        while e[0] in ("ref", "refmut"):
            e = e[1]
        return e

    def field_of(self, base, f):
        t, v = base
        if isinstance(v, dict):
            if f not in v:
                raise Rs2vError("no field %s" % f)
            return v[f]
        if is_struct(t) and isinstance(v, str):
            sc = self.cfg.get("structs", {}).get(t[1])
            if sc and f in sc["proj"]:
                ft = dict(sc["fields"])[f]
                return (ft, sc["proj"][f] % self.plain(v, f))
        raise Rs2vError("field %s of a value of type %s" % (f, t))

    def pv(self, e, env):
        """pure value (type, term | dict | list) of an expression; anything with an effect is refused here"""
        e = self.strip(e)
        k = e[0]
        if k == "mcall" and e[2] in ("clone", "to_owned") and not e[3]:
            tv = self.pv(e[1], env)
            h = self.cfg.get("clone_hook")
            return h(self, tv) if h else tv
        if k == "tuple":
            vs = [self.pv(x, env) for x in e[1]]
            if not vs:
                return UNIT
            return (T_tuple(*[v[0] for v in vs]), vs)
        if k == "path":
            if len(e[1]) == 1 and e[1][0] in env:
                return env[e[1][0]]
            name = "::".join(e[1])
            if name == "None":
                return (T_opt(None), "None")
            st = self.cfg.get("statics", {}).get(name)
            if st:
                return (st[0], coq_char(st[1]) if st[0] == Ty.CHAR else coq_str_lit(st[1]))
            h = self.cfg.get("ctor_handlers", {}).get(name)
            if h:
                return h(self, [], env)
            raise Rs2vError("unknown name %s" % name)
        if k == "field":
            return self.field_of(self.pv(e[1], env), e[2])
        if k == "bool":
            return (Ty.BOOL, "true" if e[1] else "false")
        if k == "str":
            return (Ty.STR, coq_str_lit(e[1]))
        if k == "char":
            return (Ty.CHAR, coq_char(e[1]))
        if k == "num":
            return (None, e[1])
        if k == "not":
            return self.negate(self.pv(e[1], env))
        if k == "call" and e[1][0] == "path":
            name = "::".join(e[1][1])
            if name == "Some" and len(e[2]) == 1:
                tv = self.pv(e[2][0], env)
                return (T_opt(tv[0]), "(Some %s)" % self.term_of(tv))
            if name in ("Ok", "Err") and len(e[2]) == 1:
                return (("result",), (name, self.pv(e[2][0], env)))
            if name == "String::new" and not e[2]:
                return (Ty.STR, "[]")
            h = self.cfg.get("ctor_handlers", {}).get(name)
            if h:
                return h(self, e[2], env)
            raise Rs2vError("call of %s in a pure position" % name)
        if k == "struct":
            h = self.cfg.get("struct_handlers", {}).get("::".join(e[1]))
            if not h:
                raise Rs2vError("struct literal %s" % "::".join(e[1]))
            return h(self, e[2], env)
        if k == "macro":
            if e[1] == "vec":
                vs = [self.pv(x, env) for x in e[2]]
                ts = [v[0] for v in vs if v[0] is not None]
                if any(t != ts[0] for t in ts):
                    raise Rs2vError("vec! of several types %r" % (ts,))
                return (T_list(ts[0] if ts else None), "[" + "; ".join(self.term_of(v) for v in vs) + "]")
            if e[1] == "format" and e[2] and e[2][0][0] == "str" and self.cfg.get("format"):
                return self.cfg["format"](self, e[2][0][1], [self.pv(x, env) for x in e[2][1:]], env)
            raise Rs2vError("macro %s!" % e[1])
        if k == "mcall":
            recv, m, args = e[1], e[2], e[3]
            h = self.cfg.get("pure_methods", {}).get(m)
            if h:
                r = h(self, recv, args, env)
                if r is not None:
                    return r
            rt, rv = self.pv(recv, env)
            if m == "to_string" and not args and rt is None and isinstance(rv, int):       # `0.to_string()`
                return (Ty.STR, self.cfg["nat_to_string"] % ("%d%%nat" % rv))
            if m == "contains_key" and len(args) == 1 and isinstance(rt, tuple) and rt[0] == "map":
                kt, kv = self.pv(args[0], env)
                if kt != rt[1]:
                    raise Rs2vError("map key of type %s" % (kt,))
                return (Ty.BOOL, "(opt_is_some (%s !! %s))" % (self.term_of((rt, rv)), self.term_of((kt, kv))))
            if m == "to_string" and not args:
                if rt == Ty.NAT:
                    return (Ty.STR, self.cfg["nat_to_string"] % self.term_of((rt, rv)))
                return (rt, rv)
            if m == "unwrap_or" and len(args) == 1 and isinstance(rt, tuple) and rt[0] == "option":
                d = self.pv(args[0], env)
                dterm = self.num(args[0], rt[1], env) if d[0] is None else self.term_of(d)
                return (rt[1], "(default %s %s)" % (dterm, self.term_of((rt, rv))))
            if m == "unwrap" and not args and isinstance(rt, tuple) and rt[0] == "option":
                inner = some_inner(rv) if isinstance(rv, str) else None
                if inner is None:
                    raise Rs2vError("unwrap in a position where it cannot be hoisted")
                return (rt[1], inner)
            if m in ("is_some", "is_none") and not args and isinstance(rt, tuple) and rt[0] == "option":
                return (Ty.BOOL, "(opt_%s %s)" % (m, self.term_of((rt, rv))))
            if m == "len" and not args and isinstance(rt, tuple) and rt[0] == "list":
                return (Ty.NAT, "(length %s)" % self.term_of((rt, rv)))
            if m == "is_empty" and not args and (rt == Ty.STR or (isinstance(rt, tuple) and rt[0] == "list")):
                return (Ty.BOOL, "(list_is_empty %s)" % self.term_of((rt, rv)))
            if m == "get" and len(args) == 1 and isinstance(rt, tuple) and rt[0] == "map":
                kt, kv = self.pv(args[0], env)
                if kt != rt[1]:
                    raise Rs2vError("map key of type %s" % (kt,))
                return (T_opt(rt[2]), "(%s !! %s)" % (self.term_of((rt, rv)), self.term_of((kt, kv))))
            raise Rs2vError("method %s on a value of type %s" % (m, rt))
        if k == "bin":
            op, l, r = e[1], e[2], e[3]
            if op == "+" and (r == ("num", 1) or l == ("num", 1)):
                o = l if r == ("num", 1) else r
                t, v = self.pv(o, env)
                if t == Ty.NAT:
                    return (Ty.NAT, "(S %s)" % self.term_of((t, v)))
            if op in ("&&", "||"):
                a, b = self.term_of(self.pv(l, env)), self.term_of(self.pv(r, env))
                if op == "&&":
                    if a == "false" or b == "false":
                        return (Ty.BOOL, "false") if a == "false" else (Ty.BOOL, "(%s && false)" % a)
                    if a == "true":
                        return (Ty.BOOL, b)
                    return (Ty.BOOL, a if b == "true" else "(%s && %s)" % (a, b))
                if a == "true":
                    return (Ty.BOOL, "true")
                if a == "false":
                    return (Ty.BOOL, b)
                return (Ty.BOOL, a if b == "false" else "(%s || %s)" % (a, b))
            return (Fn.type_of(self, e, env), Fn.ex(self, e, env))
        if k == "index":
            f = self.fact(e, env)
            if f is not None:
                return f
            raise Rs2vError("v[i] without a bounds test the translator can use (a panic outcome is not expressible here)")
        raise Rs2vError("expression %r in a pure position" % (k,))

    def type_of(self, e, env):
        return self.pv(e, env)[0]

    def ex(self, e, env):
        return self.term_of(self.pv(e, env))

    def num(self, e, t, env):
        if e[0] == "num":
            return {Ty.NAT: "%d%%nat", Ty.NUM_N: "%d%%N", Ty.INT_Z: "%d%%Z", Ty.CHAR: "%d%%N"}.get(t, "%d") % e[1]
        return self.ex(e, env)

    # ---- facts established by bounds tests -------------------------------------------------------------
    def fact(self, e, env):
        facts = env.get("%facts", ("meta", {}))[1]
        try:
            vt, vv = self.pv(e[1], env)
            key = (self.term_of((vt, vv)), self.num(e[2], Ty.NAT, env))
        except Rs2vError:
            return None
        return facts.get(key)

    def bounds_test(self, c, env):
        """(list value, index term, True when the test says `in bounds`) for `v.len() > i`, `i < v.len()` and negations"""
        pos = True
        while c[0] == "not":
            pos, c = not pos, c[1]
        if c[0] != "bin" or c[1] not in ("<", ">", "<=", ">="):
            return None
        op, l, r = c[1], c[2], c[3]

        def is_len(x):
            x = self.strip(x)
            if x[0] == "mcall" and x[2] == "len" and not x[3]:
                try:
                    tv = self.pv(x[1], env)
                except Rs2vError:
                    return None
                if isinstance(tv[0], tuple) and tv[0][0] == "list" and isinstance(tv[1], str):
                    return tv
            return None
        lv, rv = is_len(l), is_len(r)
        if (lv is None) == (rv is None):
            return None
        # normalise to  len OP index
        if lv is not None:
            lst, ix, o = lv, r, op
        else:
            lst, ix, o = rv, l, {"<": ">", ">": "<", "<=": ">=", ">=": "<="}[op]
        if o == ">":
            inb = True
        elif o == "<=":
            inb = False
        else:
            return None
        try:
            it = self.pv(ix, env)
            iterm = self.num(ix, Ty.NAT, env)
        except Rs2vError:
            return None
        if it[0] not in (Ty.NAT, None):
            return None
        return lst, iterm, (inb if pos else not inb)

    # ---- statements --------------------------------------------------------------------------------
    def seq(self, stmts, tail, env, k, ctx):
        if not stmts:
            if tail is None:
                return k(env, UNIT)
            return self.comp(tail, env, k, ctx)
        return self.stmt(stmts[0], env, lambda env2, _v=None: self.seq(stmts[1:], tail, env2, k, ctx), ctx)

    def stmt(self, s, env, cont, ctx):
        k = s[0]
        if k == "let":
            return self.bind(s[1], s[2], env, cont, ctx)
        if k == "lettuple":
            return self.bind_tuple(s[1], s[2], env, cont, ctx)
        if k == "assign":
            return self.assign(s, env, cont, ctx)
        if k == "expr" and s[1] == ("path", ["continue"]):
            if not ctx.get("cnt"):
                raise Rs2vError("continue outside a loop the translator can continue")
            return ctx["cnt"](env)
        if k == "expr":
            return self.comp(s[1], env, lambda env2, _tv: cont(env2), ctx)
        if k == "break":
            if not ctx.get("brk"):
                raise Rs2vError("break outside a loop the translator can break out of")
            return ctx["brk"](env)
        if k == "return":
            return self.ret(s[1], env, ctx)
        if k in ("loop", "for"):
            return self.loop3(s, env, cont, ctx)
        raise Rs2vError("statement %r" % (k,))

    def with_lets(self, lets, body):
        return "".join("let %s := %s in\n" % (v, t) for v, t in (lets or [])) + body

    def coerce(self, tv, declared_t, name):
        t, v = tv
        if t is None:                       # a number literal
            if declared_t is None:
                raise Rs2vError("type of local %s unknown" % name)
            return (declared_t, {Ty.NAT: "%d%%nat", Ty.NUM_N: "%d%%N", Ty.INT_Z: "%d%%Z"}.get(declared_t, "%d") % v)
        if isinstance(t, tuple) and t[0] in ("option", "list") and t[1] is None and declared_t is not None:
            return (declared_t, v)
        return tv

    def bind(self, name, e, env, cont, ctx):
        declared_t = self.cfg.get("locals", {}).get(name)

        def k(env2, tv):
            tv = self.coerce(tv, declared_t, name)
            hook = self.cfg.get("bind_hook")
            if hook:
                r = hook(self, name, tv, env2)
                if r is not None:
                    return cont(r)
            return cont(self.declare(env2, name, tv))
        return self.comp(e, env, k, ctx)

    def bind_tuple(self, names, e, env, cont, ctx):
        def k(env2, tv):
            t, v = tv
            if not (isinstance(t, tuple) and t[0] == "tuple" and len(t[1]) == len(names)):
                raise Rs2vError("let (%s) = a value of type %s" % (", ".join(names), t))
            if isinstance(v, list):
                env3 = env2
                for n, x in zip(names, v):
                    if n != "_":
                        env3 = self.declare(env3, n, x)
                return cont(env3)
            vs, env3 = [], env2
            for n, nt in zip(names, t[1]):
                x = self.newvar(n if n != "_" else "w")
                vs.append(x)
                if n != "_":
                    env3 = self.declare(env3, n, (nt, x))
            return "match %s with\n| (%s) =>\n%s\nend" % (self.term_of(tv), ", ".join(vs), cont(env3))
        return self.comp(e, env, k, ctx)

    def has3(self, env, dotted):
        try:
            self.get3(env, dotted)
            return True
        except Rs2vError:
            return False

    def get3(self, env, dotted):
        parts = dotted.split(".")
        if parts[0] not in env or parts[0].startswith("%"):
            raise Rs2vError("unknown variable %s" % parts[0])
        v = env[parts[0]]
        for p in parts[1:]:
            v = self.field_of(v, p)
        return v

    def assign(self, s, env, cont, ctx):
        lhs, op, rhs = s[1], s[2], s[3]
        lv = self.lvalue(lhs)
        if lv is None or not self.has3(env, lv):
            raise Rs2vError("assignment to %r" % (lhs,))
        t, cur = self.get3(env, lv)
        if op in ("+=", "-="):
            if rhs != ("num", 1) or t != Ty.NAT or op == "-=":
                raise Rs2vError("assignment %s %s" % (lv, op))
            return cont(self.set(env, lv, (t, "(S %s)" % self.term_of((t, cur)))))
        if op != "=":
            raise Rs2vError("assignment operator %s" % op)

        def k(env2, tv):
            hook = self.cfg.get("assign_hook")
            if hook:
                r = hook(self, lv, tv, env2)
                if r is not None:
                    return cont(r)
            tv2 = self.coerce(tv, t, lv)
            if not self.compatible(t, tv2[0]):
                raise Rs2vError("assignment of a %s to %s : %s" % (tv2[0], lv, t))
            nt = tv2[0] if (isinstance(t, tuple) and len(t) == 2 and t[1] is None) else t
            return cont(self.set(env2, lv, (nt, tv2[1])))
        return self.comp(rhs, env, k, ctx)

    def compatible(self, t, u):
        if t == u:
            return True
        return isinstance(t, tuple) and isinstance(u, tuple) and len(t) == 2 and len(u) == 2 and t[0] == u[0] \
            and None in (t[1], u[1])

    def ret(self, e, env, ctx):
        if ctx.get("noret"):
            raise Rs2vError("return inside a loop that is translated as a fold")
        if e is None:
            return self.cfg["result"](self, UNIT, env, ctx)
        return self.comp(e, env, lambda env2, tv: self.cfg["result"](self, tv, env2, ctx), ctx)

    # ---- computations ------------------------------------------------------------------------------
    def comp(self, e, env, k, ctx):
        """evaluate e (which may contain control flow and configured effects); k(env afterwards, value) -> coq text"""
        t = e[0]
        if t == "block":
            inner = self.enter(env)
            return self.seq(e[1], e[2], inner, lambda env_in, tv: k(self.leave(env, env_in), tv), ctx)
        if t == "if":
            return self.c_if(e, env, k, ctx)
        if t == "iflet":
            return self.c_match(e[2], [(e[1], e[3]), (("wild",), e[4] if e[4] is not None else ("block", [], None))], env, k, ctx)
        if t == "match":
            return self.c_match(e[1], e[2], env, k, ctx)
        if t == "not":
            return self.comp(e[1], env, lambda env2, tv: k(env2, self.negate(tv)), ctx)
        inner = self.strip(e)
        if inner[0] == "call" and inner[1][0] == "path":
            hs = self.cfg.get("calls", {})
            h = hs.get("::".join(inner[1][1])) or hs.get(inner[1][1][-1])
            if h:
                lets, env2, tv = h(self, inner[2], env, ctx)
                return self.with_lets(lets, k(env2, tv))
        if inner[0] == "mcall":
            recv, m, args = inner[1], inner[2], inner[3]
            h = self.cfg.get("mcalls", {}).get(m)
            if h:
                r = h(self, recv, args, env, ctx)
                if r is not None:
                    lets, env2, tv = r
                    return self.with_lets(lets, k(env2, tv))
            lv = self.lvalue(self.strip(recv))
            if lv is not None and self.has3(env, lv) and m in ("insert", "remove", "push"):
                rt, rv = self.get3(env, lv)
                if isinstance(rt, tuple) and rt[0] == "map" and m == "insert" and len(args) == 2:
                    kt, vt = self.pv(args[0], env), self.pv(args[1], env)
                    vt = self.coerce(vt, rt[2], lv)
                    if kt[0] != rt[1] or vt[0] != rt[2]:
                        raise Rs2vError("insert of (%s, %s) into %s" % (kt[0], vt[0], lv))
                    new = "(<[%s := %s]> %s)" % (self.term_of(kt), self.term_of(vt), self.term_of((rt, rv)))
                    return k(self.set(env, lv, (rt, new)), (T_opt(rt[2]), POISON))
                if isinstance(rt, tuple) and rt[0] == "map" and m == "remove" and len(args) == 1:
                    kt = self.pv(args[0], env)
                    if kt[0] != rt[1]:
                        raise Rs2vError("remove of a %s from %s" % (kt[0], lv))
                    new = "(delete %s %s)" % (self.term_of(kt), self.term_of((rt, rv)))
                    return k(self.set(env, lv, (rt, new)), (T_opt(rt[2]), POISON))
                if isinstance(rt, tuple) and rt[0] == "list" and m == "push" and len(args) == 1:
                    return self.hoist3(args[0], env, ctx, lambda a2, env2: self.push(lv, a2, env2, k))
        return self.hoist3(e, env, ctx, lambda e2, env2: k(env2, self.pv(e2, env2)))

    def negate(self, tv):
        if tv[0] != Ty.BOOL:
            raise Rs2vError("! on a value of type %s" % (tv[0],))
        return (Ty.BOOL, fold_bool("(negb %s)" % self.term_of(tv)))

    def push(self, lv, a, env, k):
        rt, rv = self.get3(env, lv)
        at = self.coerce(self.pv(a, env), rt[1], lv)
        if rt[1] is not None and at[0] != rt[1]:
            raise Rs2vError("push of a %s onto %s" % (at[0], lv))
        return k(self.set(env, lv, (T_list(at[0]), "(%s ++ [%s])" % (self.term_of((rt, rv)), self.term_of(at)))), UNIT)

    def hoist3(self, e, env, ctx, k):
        """Fn2.hoist after the `v[i]` that a bounds test has established are replaced by their element"""
        env2 = dict(env)

        def walk(n):
            if isinstance(n, list):
                return [walk(x) for x in n]
            if not isinstance(n, tuple) or not n:
                return n
            if n[0] in ("if", "iflet", "match", "block", "char", "str", "num", "bool", "path"):
                return n
            if n[0] == "index":
                f = self.fact(n, env)
                if f is not None:
                    self._h += 1
                    tmp = "%%h%d" % self._h
                    env2[tmp] = f
                    return ("path", [tmp])
                raise Rs2vError("v[i] without a bounds test the translator can use (a panic outcome is not expressible here)")
            if n[0] == "struct":
                return ("struct", n[1], [(f, walk(x)) for f, x in n[2]])
            return tuple(walk(x) if isinstance(x, (tuple, list)) else x for x in n)
        return self.hoist(walk(e), env2, ctx, k)

    def c_if(self, e, env, k, ctx):
        c, a, b = e[1], e[2], e[3] if e[3] is not None else ("block", [], None)
        ot = self.opt_test3(c, env)
        if ot:
            lv, positive = ot
            t, term = self.get3(env, lv)
            inner = some_inner(term)
            if inner is not None or term == "None":
                return self.comp(a if (inner is not None) == positive else b, env, k, ctx)
            v = self.newvar(lv)
            sb, nb = (a, b) if positive else (b, a)
            return "match %s with\n| Some %s =>\n%s\n| None =>\n%s\nend" % (
                self.plain(term, lv), v, self.comp(sb, self.set(env, lv, (t, "(Some %s)" % v)), k, ctx),
                self.comp(nb, self.set(env, lv, (t, "None")), k, ctx))
        bt = self.bounds_test(c, env)
        if bt:
            (lt_, lterm), iterm, inb = bt
            v = self.newvar("item")
            facts = dict(env.get("%facts", ("meta", {}))[1])
            facts[(lterm, iterm)] = (lt_[1], v)
            env_in = dict(env)
            env_in["%facts"] = ("meta", facts)
            ib, ob = (a, b) if inb else (b, a)

            def k_in(env2, tv):
                env3 = dict(env2)
                if "%facts" in env:
                    env3["%facts"] = env["%facts"]
                else:
                    env3.pop("%facts", None)
                return k(env3, tv)
            return "match %s !! %s with\n| Some %s =>\n%s\n| None =>\n%s\nend" % (
                lterm, iterm, v, self.comp(ib, env_in, k_in, ctx), self.comp(ob, env, k, ctx))

        def go(env2, ctv):
            ct, cterm = ctv
            if ct != Ty.BOOL:
                raise Rs2vError("condition of type %s" % (ct,))
            cterm = fold_bool(self.term_of((ct, cterm)))
            if cterm == "true":
                return self.comp(a, env2, k, ctx)
            if cterm == "false":
                return self.comp(b, env2, k, ctx)
            return "if %s then\n%s\nelse\n%s" % (cterm, self.comp(a, env2, k, ctx), self.comp(b, env2, k, ctx))
        return self.comp(c, env, go, ctx)

    def opt_test3(self, c, env):
        pos = True
        while c[0] == "not":
            pos, c = not pos, c[1]
        if c[0] == "mcall" and c[2] in ("is_some", "is_none") and not c[3]:
            lv = self.lvalue(self.strip(c[1]))
            if lv is not None and self.has3(env, lv) and self.has(env, lv):
                t, term = self.get3(env, lv)
                if isinstance(t, tuple) and t[0] == "option" and isinstance(term, str):
                    return lv, (pos if c[2] == "is_some" else not pos)
        return None

    def variants(self, t):
        """rust constructor path -> (coq constructor, payload types, rust arity or None when the payload is not modelled)"""
        if isinstance(t, tuple):
            if t[0] == "option":
                return {"Some": ("Some", [t[1]], 1), "None": ("None", [], 0)}
            if t[0] == "okopt":
                return {"Ok": ("Some", [t[1]], 1), "Err": ("None", [], None)}
            if t[0] == "erropt":
                return {"Err": ("Some", [t[1]], 1), "Ok": ("None", [], None)}
            if t[0] == "boolopt":
                return {"Some": ("true", [], 1), "None": ("false", [], 0)}
            if t[0] == "enum":
                en = self.cfg.get("enums", {}).get(t[1])
                if en:
                    return {p: (c, list(ts) if ts is not None else [], len(ts) if ts is not None else None)
                            for p, (c, ts) in en.items()}
        raise Rs2vError("match on a value of type %s" % (t,))

    def c_match(self, scrut, arms, env, k, ctx):
        s = self.strip(scrut)
        lv = self.lvalue(s)

        def on(env1, tv):
            return self.sum_match(tv, lv if (lv is not None and self.has(env1, lv)) else None, arms, env1, k, ctx)
        return self.comp(scrut, env, on, ctx)

    def sum_match(self, tv, lv, arms, env, k, ctx):
        t, term = tv
        vs = self.variants(t)
        is_opt = isinstance(t, tuple) and t[0] == "option"
        known = None
        if is_opt and isinstance(term, str):
            inner = some_inner(term)
            if inner is not None:
                known = ("Some", inner)
            elif term == "None":
                known = ("None", None)
        clauses, covered, wild = [], set(), False
        for pat, body in arms:
            if wild:
                break
            if pat[0] == "wild":
                if covered == set(vs):
                    continue
                wild = True
                clauses.append((None, "_", self.enter(env), body))
                continue
            if pat[0] != "ctor":
                raise Rs2vError("match pattern %r" % (pat,))
            name = "::".join(pat[1])
            if name not in vs or name in covered:
                raise Rs2vError("match pattern %s on a value of type %s" % (name, t))
            covered.add(name)
            coqc, ptypes, arity = vs[name]
            subs = pat[2]
            env_arm = self.enter(env)
            if arity is None:
                for sname in subs:
                    if sname:
                        env_arm = self.declare(env_arm, sname, (None, POISON))
                ptext = coqc
            else:
                if len(subs) != arity:
                    raise Rs2vError("pattern %s with %d fields" % (name, len(subs)))
                if isinstance(t, tuple) and t[0] == "boolopt":
                    if subs and subs[0]:
                        env_arm = self.declare(env_arm, subs[0], t[1])
                    ptext = coqc
                elif known is not None and name == "Some":
                    if subs[0]:
                        env_arm = self.declare(env_arm, subs[0], (ptypes[0], known[1]))
                    ptext = "Some _"
                else:
                    names = []
                    for sname, pt in zip(subs, ptypes):
                        v = self.newvar(sname or "w")
                        names.append(v)
                        if sname:
                            env_arm = self.declare(env_arm, sname, (pt, v))
                    ptext = " ".join([coqc] + names)
                    if is_opt and lv is not None:
                        env_arm = self.set(env_arm, lv, (t, "(Some %s)" % names[0] if name == "Some" else "None"))
            clauses.append((name, ptext, env_arm, body))
        if not wild and covered != set(vs):
            raise Rs2vError("match without an arm for %s" % ", ".join(sorted(set(vs) - covered)))

        def arm_text(env_arm, body):
            return self.comp(body, env_arm, lambda env_in, tv2: k(self.leave(env, env_in), tv2), ctx)
        if known is not None:
            for name, ptext, env_arm, body in clauses:
                if name == known[0] or name is None:
                    return arm_text(env_arm, body)
        sterm = self.term_of(tv, "match scrutinee")
        if isinstance(t, tuple) and t[0] == "boolopt":
            by = {n: (e_, b_) for n, _p, e_, b_ in clauses}
            yes = by.get("Some") or by.get(None)
            no = by.get("None") or by.get(None)
            return "if %s then\n%s\nelse\n%s" % (sterm, arm_text(*yes), arm_text(*no))
        out = ["match %s with" % sterm]
        for name, ptext, env_arm, body in clauses:
            out.append("| %s =>" % ptext)
            out.append(arm_text(env_arm, body))
        out.append("end")
        return "\n".join(out)

    # ---- loops -------------------------------------------------------------------------------------
    def declared_anywhere(self, node):
        out = set()

        def walk(n):
            if isinstance(n, list):
                for x in n:
                    walk(x)
                return
            if not isinstance(n, tuple) or not n:
                return
            if n[0] == "let":
                out.add(n[1])
            elif n[0] == "lettuple":
                out.update(n[1])
            elif n[0] == "for":
                out.add(n[1])
            elif n[0] == "ctor" and len(n) == 3 and isinstance(n[2], list):
                out.update(x for x in n[2] if x)
            for x in n:
                if isinstance(x, (tuple, list)):
                    walk(x)
        walk(node)
        return out

    def loop3(self, s, env, cont, ctx):
        # `for x in l { v.push(x) }` is `v ++ l`
        if s[0] == "for":
            ext = self.extend_loop(s, env)
            if ext is not None:
                return cont(ext)
        if ctx.get("loop") or self.in_step:
            raise Rs2vError("nested loop")
        lc = self.cfg.get("loop")
        if not lc:
            raise Rs2vError("a loop, but no loop is configured for this function")
        if self.defs:
            raise Rs2vError("more than one loop")
        body = s[1] if s[0] == "loop" else s[3]
        shadow = sorted(n for n in self.declared_anywhere(body) | ({s[1]} if s[0] == "for" else set())
                        if n in env and not n.startswith("%"))
        if shadow:
            raise Rs2vError("the loop body re-declares %s" % ", ".join(shadow))
        assigned = sorted(self.assigned_names(body))
        if "?" in assigned:
            raise Rs2vError("the loop assigns to something that is not a variable")
        if lc["kind"] == "step" and s[0] == "loop":
            return self.loop_step(lc, body, assigned, env, cont, ctx)
        if lc["kind"] == "fold" and s[0] == "for":
            return self.loop_fold(lc, s, assigned, env, cont, ctx)
        raise Rs2vError("loop of another kind than configured")

    def extend_loop(self, s, env):
        pat, it, body = s[1], self.strip(s[2]), s[3]
        stmts = list(body[1]) + ([("expr", body[2])] if body[2] is not None else [])
        if len(stmts) != 1 or stmts[0][0] != "expr":
            return None
        e = stmts[0][1]
        if not (e[0] == "mcall" and e[2] == "push" and len(e[3]) == 1 and self.strip(e[3][0]) == ("path", [pat])):
            return None
        lv = self.lvalue(self.strip(e[1]))
        if lv is None or not self.has3(env, lv) or pat in env:
            return None
        try:
            lt_, lterm = self.pv(it, env)
        except Rs2vError:
            return None
        rt, rv = self.get3(env, lv)
        if not (isinstance(rt, tuple) and rt[0] == "list" and isinstance(lt_, tuple) and lt_[0] == "list"):
            return None
        if rt[1] is not None and lt_[1] != rt[1]:
            return None
        return self.set(env, lv, (T_list(lt_[1]), "(%s ++ %s)" % (self.term_of((rt, rv)), self.term_of((lt_, lterm)))))

    def invariant_locals(self, lc, assigned, env):
        inv = {}
        for a in assigned:
            root = a.split(".")[0]
            if root not in env or root.startswith("%"):
                continue
            if any(a == n or a.startswith(n + ".") for n in lc["state"]):
                continue
            tv = self.get3(env, a)
            if isinstance(tv[0], tuple) and tv[0][0] == "place":
                continue                     # a facet of the world: the handlers account for it
            if not isinstance(tv[1], str):
                raise Rs2vError("the loop assigns %s, which is not part of the configured state" % a)
            inv[a] = tv
        return inv

    def check_body(self, text, outer_fresh):
        """a loop body becomes a definition of its own: it may only mention its binders and what it binds itself"""
        if POISON in text:
            raise Rs2vError("the loop body uses a value that is not available")
        free = sorted(set(re.findall(r"[A-Za-z_][A-Za-z0-9_']*", text)) & outer_fresh)
        if free:
            raise Rs2vError("the loop body uses %s, bound outside the loop" % ", ".join(free))

    def loop_step(self, lc, body, assigned, env, cont, ctx):
        inv = self.invariant_locals(lc, assigned, env)
        benv = lc["entry"](self, dict(env))

        def at_continue(env2, _tv):
            for a, tv in inv.items():
                if self.get3(env2, a) != tv:
                    raise Rs2vError("the loop changes %s on a path that continues; it is not part of the loop state" % a)
            return lc["cont"](self, env2)

        def at_break(env_b):
            base = {n: env_b[n] for n in env_b if n in env or n.startswith("%")}
            base["%decl"], base["%saved"] = env.get("%decl", ("meta", frozenset())), env.get("%saved", ("meta", {}))
            base.pop("%facts", None)
            return cont(base)
        outer_fresh = set(self.fresh_names)
        self.in_step = True
        try:
            text = self.seq(body[1], body[2], self.enter(benv), at_continue,
                            {"brk": at_break, "cnt": lambda env_c: at_continue(env_c, UNIT), "loop": True})
        finally:
            self.in_step = False
        self.check_body(text, outer_fresh)
        self.defs.append((lc["name"], "Definition %s %s : %s :=\n%s.\n" % (lc["name"], lc["binders"], lc["type"], text)))
        return lc["drive"](self, env)

    def loop_fold(self, lc, s, assigned, env, cont, ctx):
        pat, it, body = s[1], self.strip(s[2]), s[3]
        if it[0] == "mcall" and it[2] == "iter" and not it[3]:
            it = self.strip(it[1])
        lt_, lterm = self.pv(it, env)
        if not (isinstance(lt_, tuple) and lt_[0] == "list" and lt_[1] == lc["item"][0]):
            raise Rs2vError("loop over a value of type %s" % (lt_,))
        state = lc["state"]
        for a in assigned:
            root = a.split(".")[0]
            if root in env and not any(a == n or a.startswith(n + ".") for n in state):
                raise Rs2vError("the loop assigns %s, which is not part of the configured state (%s)" % (a, ", ".join(state)))
        outer_fresh = set(self.fresh_names)
        svars, benv = [], dict(env)
        for n in state:
            v = self.newvar(n)
            svars.append(v)
            benv = self.set(benv, n, (self.get3(env, n)[0], v))
        item = self.newvar(pat)
        benv = self.declare(self.enter(benv), pat, (lc["item"][0], item))

        def pack(env_):
            ts = [self.term_of(self.get3(env_, n), n) for n in state]
            return ts[0] if len(ts) == 1 else "(" + ", ".join(ts) + ")"
        text = self.seq(body[1], body[2], benv, lambda env2, _tv: pack(env2), {"loop": True, "noret": True, "cnt": pack})
        self.check_body(text, outer_fresh)
        spat = svars[0] if len(svars) == 1 else "'(" + ", ".join(svars) + ")"
        self.defs.append((lc["name"], "Definition %s %s(st : %s) (%s : %s) : %s :=\nlet %s := st in\n%s.\n" % (
            lc["name"], (lc["binders"] + " ") if lc.get("binders") else "", lc["state_type"], item, lc["item"][1],
            lc["state_type"], spat, text)))
        call = "(%s%s)" % (lc["name"], (" " + lc["args"]) if lc.get("args") else "")
        self.fold_info = {"call": call, "list": self.term_of((lt_, lterm)), "init": pack(env)}
        drive = "(foldl %s %s %s)" % (call, pack(env), self.term_of((lt_, lterm)))
        avars = [self.newvar(n) for n in state]
        env_after = env
        for n, v in zip(state, avars):
            env_after = self.set(env_after, n, (self.get3(env, n)[0], v))
        apat = avars[0] if len(avars) == 1 else "'(" + ", ".join(avars) + ")"
        return "let %s := %s in\n%s" % (apat, drive, cont(env_after))

    # ---- whole function ----------------------------------------------------------------------------
    def function(self, params, body):
        env = {"%decl": ("meta", frozenset()), "%saved": ("meta", {})}
        for pn, _ in params:
            if pn not in self.cfg["params"]:
                raise Rs2vError("parameter %s is not known to the configuration" % pn)
            env[pn] = self.cfg["params"][pn]
        if len(params) != len(self.cfg["params"]):
            raise Rs2vError("the function has %d parameters, the configuration %d" % (len(params), len(self.cfg["params"])))
        env.update(self.cfg.get("env0", {}))
        text = self.seq(body[1], body[2], env, lambda env2, tv: self.cfg["result"](self, tv, env2, {}), {})
        if POISON in text:
            raise Rs2vError("a value that is not available is used")
        return text


# =================================================================================================
# Command wave, builder B17 (first client: lib/gen/strings_gen.py — the `run` functions of the string / range / hex / number
# comparison commands of duckscript_sdk/src/sdk/std).  Purely additive: nothing above this line is changed.  The parser
# extends PState; the executor FnCmd is a NEW class (continuation passing, no loop state records: a command's `run` is a
# decision tree over its argument vector).
#
#   PCmd / parse_cmd_run / parse_cmd_helper
#       turbofish method calls `x.parse::<u64>()`, casts `e as T`, the TYPE of `let x: T = e` and of a helper's `-> T`
#       (kept as text: they decide which `parse()` / `try_into()` is meant), negative integer literals, a block-like
#       expression (`if` / `match`) at the start of a statement ends the statement; otherwise the PState grammar
#   FnCmd   symbolic executor in continuation-passing style.  Every Rust value is a CmdV (type, Coq term, and what is
#       statically known about it: a literal text, a known constructor Some / None / Ok / Err, tuple components).
#     * control flow (`if` / `else if`, `match` on Option / Result, early `return`, `if let`, blocks as values, `let (a, b) =
#       if .. { (x, y) } else { return .. }`) copies the continuation into the branches: the result is a decision tree
#       whose leaves are command results; a `match` / `if` on a statically known value is decided here;
#     * every operation that can unwind is an explicit arm: `v[<literal>]` on the argument vector is `match nth_error args i
#       with None => <panic> | Some x => ..` (bound once per path: inside that arm the same element is reused),
#       `.unwrap()` on a value not known to be Some / Ok, checked integer arithmetic (cfg["arith"]: `a - b` on isize is
#       `match isize_sub a b with None => <panic> | Some t => ..`);
#     * free helper functions of the same file (cfg["helpers"]) are inlined at the call (their `return` is the call's value);
#     * `for x in LIST { V.push(E) }` on a Vec local declared in the same block is `for_push (fun x => E) LIST V`
#       (Rs2vStrLib), `ITER.map(|x| E)` / `ITER.filter(|x| E)` are `map / filter (fun x => E) ITER`, `OPTION.map(|x| E)` is
#       `option_map`, `.collect()` is the list; E must be free of control flow;
#     * what a method / path / macro / cast MEANS is the configuration's (cfg["methods"], cfg["paths"], cfg["macros"],
#       cfg["casts"], cfg["compare"], cfg["arith"]): the executor knows nothing about std; a call the configuration does
#       not list is Rs2vError;
#     * mutation is only understood on locals of the block that is executing (frame check): anything else is Rs2vError.
#   Everything not understood raises Rs2vError.
class PCmd(PState):
    ret_type = None

    def type_text(self):
        """skip a type, returning its text"""
        a = self.i
        self.skip_type()
        return "".join(str(t[1]) for t in self.t[a:self.i])

    def fn(self):
        """fn name([&[mut]] self, params) [-> type] block; records receiver and ret_type (text or None)"""
        while not self.at("id", "fn"):
            if self.at("eof"):
                raise Rs2vError("eof looking for fn")
            self.i += 1
        self.eat("id", "fn")
        name = self.eat("id")
        if self.opt("op", "<"):
            raise Rs2vError("generic fn %s" % name)
        self.eat("op", "(")
        if self.at("op", "&") and (self.peek(1) == ("id", "self") or
                                   (self.peek(1) == ("id", "mut") and self.peek(2) == ("id", "self"))):
            self.i += 1
            self.receiver = "mut" if self.opt("id", "mut") else "ref"
            self.eat("id", "self")
            self.opt("op", ",")
        elif self.at("id", "self") or (self.at("id", "mut") and self.peek(1) == ("id", "self")):
            self.opt("id", "mut")
            self.eat("id", "self")
            self.receiver = "own"
            self.opt("op", ",")
        params = []
        while not self.at("op", ")"):
            self.opt("id", "mut")
            pn = self.eat("id")
            self.eat("op", ":")
            params.append((pn, self.type_text()))
            self.opt("op", ",")
        self.eat("op", ")")
        if self.opt("op", "->"):
            self.ret_type = self.type_text()
        return name, params, self.block()

    def stmt(self):
        if self.at("id", "let") and self.peek(1) != ("op", "("):
            self.i += 1
            mut = self.opt("id", "mut")
            name = self.eat("id")
            ty = None
            if self.opt("op", ":"):
                ty = self.type_text()
            self.eat("op", "=")
            e = self.expr()
            self.eat("op", ";")
            return ("let", name, e, ty, mut)
        if self.at("id", "if") or self.at("id", "match"):
            # a block-like expression at the start of a statement ends there: `if c { .. } (a, b)` is not a call
            e = self.atom(False)
            if self.at("op", "}"):
                return ("tail", e)
            self.opt("op", ";")
            return ("expr", e)
        return super().stmt()

    def unary(self, no_struct):
        if self.at("op", "-") and self.peek(1)[0] == "num":
            self.i += 1
            e = self.postfix(("num", -self.eat("num")))
        else:
            e = super().unary(no_struct)
        while self.at("id", "as"):
            self.i += 1
            e = ("cast", e, self.eat("id"))
        return e

    def postfix(self, e):
        while True:
            if self.opt("op", "("):
                e = ("call", e, self.args(")"))
            elif self.opt("op", "["):
                ix = self.expr()
                self.eat("op", "]")
                e = ("index", e, ix)
            elif self.at("op", ".") and self.peek(1)[0] == "id":
                self.i += 1
                n = self.eat("id")
                tf = None
                if self.at("op", "::") and self.peek(1) == ("op", "<"):
                    self.i += 2
                    tf = self.type_text()
                    self.eat("op", ">")
                if self.opt("op", "("):
                    e = ("mcall", e, n, self.args(")"), tf)
                elif tf is not None:
                    raise Rs2vError("turbofish without a call")
                else:
                    e = ("field", e, n)
            else:
                return e


def parse_cmd_run(src, trait="Command", type_name="CommandImpl", name="run"):
    """`fn run` of `impl Command for CommandImpl { .. }`, PCmd grammar -> (receiver, [(param, type text)], body)"""
    ms = list(re.finditer(r"^\s*impl\s+%s\s+for\s+%s\s*\{" % (re.escape(trait), re.escape(type_name)), src, re.M))
    if len(ms) != 1:
        raise Rs2vError("impl %s for %s: %d blocks" % (trait, type_name, len(ms)))
    body = balanced_block(src, ms[0].end() - 1)
    fs = list(re.finditer(r"\bfn\s+%s\s*\(" % re.escape(name), body))
    if len(fs) != 1:
        raise Rs2vError("fn %s: %d definitions in impl %s for %s" % (name, len(fs), trait, type_name))
    p = PCmd(lex(body[fs[0].start():], stop_after_item=True))
    _n, params, blk = p.fn()
    return p.receiver, params, blk


def parse_cmd_helper(src, name):
    """a free function of the file, PCmd grammar -> ([(param, type text)], return type text, body)"""
    ms = list(re.finditer(r"^(?:pub(?:\([a-z]+\))?\s+)?fn\s+%s\s*\(" % re.escape(name), src, re.M))
    if len(ms) != 1:
        raise Rs2vError("fn %s: %d definitions" % (name, len(ms)))
    p = PCmd(lex(src[ms[0].start():], stop_after_item=True))
    _n, params, body = p.fn()
    if p.receiver is not None:
        raise Rs2vError("fn %s has a receiver" % name)
    return params, p.ret_type, body


def cmd_free_fns(src):
    """names of the free functions (column 0) of a file"""
    return re.findall(r"^(?:pub(?:\([a-z]+\))?\s+)?fn\s+(\w+)\s*\(", src, re.M)


class CmdV:
    """a symbolic Rust value: ty (a name or a tuple such as ("opt", T) / ("res", T, E) / ("list", T) / ("iter", T)),
    term (Coq text or None for values that exist only statically: messages, error payloads, closures, tuples),
    lit (the text of a string literal / the static prefix of a formatted message), known (("Some", v) / ("None",) /
    ("Ok", v) / ("Err", v) / a Python bool for boolean literals), items (tuple components; closure parts)"""
    __slots__ = ("ty", "term", "lit", "known", "items")

    def __init__(self, ty, term=None, lit=None, known=None, items=None):
        self.ty, self.term, self.lit, self.known, self.items = ty, term, lit, known, items

    def __repr__(self):
        return "CmdV(%r, %r)" % (self.ty, self.term)


def cmd_indent(text, n=2):
    pad = " " * n
    return "\n".join(pad + l if l else l for l in text.split("\n"))


class FnCmd:
    """cfg keys:
      params      {rust name: CmdV}                               what the parameters of the function are
      fields      {(rust name, field): CmdV}                      `context.arguments`, `context.state`
      args_term   Coq term of the argument vector (`v[i]` with a literal i is only understood on it), panic: Coq term
      finish      f(fn, CmdV) -> Coq term                         the function result for the value `run` ends with
      ctors       {rust path string: f(fn, [CmdV], expect) -> CmdV}   CommandResult::Continue, StateValue::String ..
      paths       {rust path string: f(fn, [CmdV], expect) -> CmdV}   free / associated functions (put_handle, u64::from_str_radix)
      methods     {(type tag, method): f(fn, recv CmdV, [CmdV], turbofish, expect) -> CmdV}   type tag = ty or ty[0]
      macros      {name: f(fn, [arg exprs], env, k, ctx, expect) -> Coq term}
      casts       {(from ty, to ty): fmt}
      compare     {ty: {"<": fmt, "<=": fmt, "==": fmt}}          fmt % (a, b); > >= != are derived
      arith       {(ty, op): checked function name}               result option: None is the panic arm
      literal     {ty: fmt % int}                                 how an integer literal of that type is written
      types       f(type text) -> ty or None                      Rust type text -> ty
      helpers     {name: ([(param, type text)], return type text, body)}
      coq_type    f(ty) -> Coq type text (binders of fun)
    """

    def __init__(self, cfg):
        self.cfg = cfg
        self.names = {}
        self.argcache = {}
        self.frames = 0

    # ---- small helpers
    def fresh(self, base):
        base = "v_" + re.sub(r"[^A-Za-z0-9_]", "_", base)
        n = self.names.get(base, 0)
        self.names[base] = n + 1
        return base if n == 0 else "%s_%d" % (base, n)

    def ty_of_text(self, text):
        return None if text is None else self.cfg["types"](text)

    def panic(self):
        return self.cfg["panic"]

    def match2(self, scrut, pat1, body1, pat2, body2):
        return "match %s with\n| %s =>\n%s\n| %s =>\n%s\nend" % (scrut, pat1, cmd_indent(body1, 4), pat2, cmd_indent(body2, 4))

    def ite(self, c, a, b):
        return "if %s\nthen\n%s\nelse\n%s" % (c, cmd_indent(a), cmd_indent(b))

    def literal(self, v, ty):
        """an integer literal used at type ty"""
        if v.ty != "intlit":
            return v
        if ty not in self.cfg["literal"]:
            raise Rs2vError("integer literal used at type %r" % (ty,))
        return CmdV(ty, self.cfg["literal"][ty] % v.items)

    def unify(self, a, b):
        if a.ty == "intlit" and b.ty != "intlit":
            a = self.literal(a, b.ty)
        elif b.ty == "intlit" and a.ty != "intlit":
            b = self.literal(b, a.ty)
        elif a.ty == "intlit" and b.ty == "intlit":
            raise Rs2vError("operation on two integer literals")
        if a.ty != b.ty:
            raise Rs2vError("operands of different types %r / %r" % (a.ty, b.ty))
        return a, b

    def pure(self, e, env, ctx, expect=None):
        """the value of an expression that must be free of control flow and of panicking operations"""
        box = []

        def k(v):
            box.append(v)
            return "\0HOLE"
        t = self.ex(e, env, k, ctx, expect)
        if t != "\0HOLE" or len(box) != 1:
            raise Rs2vError("control flow or a panicking operation where a plain value is required")
        return box[0]

    def declare(self, env, name, v, mut=False):
        env[name] = v
        env["%decl"] = dict(env["%decl"])
        env["%decl"][name] = (env["%frame"], mut)

    def enter(self, env):
        env = dict(env)
        self.frames += 1
        env["%frame"] = self.frames
        return env

    # ---- the whole function
    def function(self, body, ret_type=None):
        env = dict(self.cfg["params"])
        env["%decl"], env["%frame"] = {}, 0
        ctx = {"ret": lambda v: self.cfg["finish"](self, v), "ret_type": ret_type}
        return self.block(body, env, ctx["ret"], ctx, ret_type)

    # ---- blocks and statements
    def block(self, b, env, k, ctx, expect=None):
        if b is None:
            return k(CmdV("unit"))
        if b[0] != "block":
            return self.ex(b, env, k, ctx, expect)
        return self.stmts(list(b[1]), b[2], self.enter(env), k, ctx, expect)

    def stmts(self, ss, tail, env, k, ctx, expect):
        if not ss:
            if tail is None:
                return k(CmdV("unit"))
            return self.ex(tail, env, k, ctx, expect)
        s, rest = ss[0], ss[1:]
        kind = s[0]
        if kind == "let":
            name, e = s[1], s[2]
            ty = self.ty_of_text(s[3]) if len(s) > 3 else None
            mut = s[4] if len(s) > 4 else False

            def k_let(v):
                if ty is not None:
                    v = self.ascribe(v, ty)
                env2 = dict(env)
                self.declare(env2, name, v, mut)
                return self.stmts(rest, tail, env2, k, ctx, expect)
            return self.ex(e, env, k_let, ctx, ty)
        if kind == "lettuple":
            names, e = s[1], s[2]

            def k_tup(v):
                if v.ty != "tuple" or len(v.items) != len(names):
                    raise Rs2vError("let (%s) = a value that is not such a tuple" % ", ".join(names))
                env2 = dict(env)
                for n, x in zip(names, v.items):
                    self.declare(env2, n, x)
                return self.stmts(rest, tail, env2, k, ctx, expect)
            return self.ex(e, env, k_tup, ctx, None)
        if kind == "return":
            if s[1] is None:
                return ctx["ret"](CmdV("unit"))
            return self.ex(s[1], env, ctx["ret"], ctx, ctx["ret_type"])
        if kind == "for":
            env2 = self.for_push(s, env, ctx)
            return self.stmts(rest, tail, env2, k, ctx, expect)
        if kind == "expr":
            e = s[1]
            if e[0] == "mcall" and e[2] == "push" and e[1][0] == "path" and len(e[1][1]) == 1:
                env2 = self.push(e, env, ctx)
                return self.stmts(rest, tail, env2, k, ctx, expect)

            def k_unit(v):
                if v.ty != "unit":
                    raise Rs2vError("value of type %r discarded" % (v.ty,))
                return self.stmts(rest, tail, env, k, ctx, expect)
            return self.ex(e, env, k_unit, ctx, "unit")
        raise Rs2vError("statement %s" % kind)

    def mutable_local(self, env, name):
        d = env["%decl"].get(name)
        if d is None or not d[1]:
            raise Rs2vError("mutation of %s, which is not a `let mut` local" % name)
        if d[0] != env["%frame"]:
            raise Rs2vError("mutation of %s inside a nested block" % name)
        return env[name]

    def push(self, e, env, ctx):
        """V.push(E);  on a Vec local of the executing block"""
        name = e[1][1][0]
        cur = self.mutable_local(env, name)
        if not (isinstance(cur.ty, tuple) and cur.ty[0] == "list") or len(e[3]) != 1:
            raise Rs2vError("push on %r" % (cur.ty,))
        x = self.pure(e[3][0], env, ctx)
        if cur.ty[1] not in (None, x.ty):
            raise Rs2vError("push of %r on a Vec of %r" % (x.ty, cur.ty[1]))
        env2 = dict(env)
        env2[name] = CmdV(("list", x.ty), "(%s ++ [%s])" % (cur.term, x.term))
        return env2

    def for_push(self, s, env, ctx):
        """for x in LIST { V.push(E); }"""
        _, pat, it, body = s
        if body[0] != "block" or body[2] is not None or len(body[1]) != 1:
            raise Rs2vError("for loop whose body is not a single push")
        st = body[1][0]
        if not (st[0] == "expr" and st[1][0] == "mcall" and st[1][2] == "push" and st[1][1][0] == "path"
                and len(st[1][1][1]) == 1 and len(st[1][3]) == 1):
            raise Rs2vError("for loop whose body is not a single push")
        name = st[1][1][1][0]
        cur = self.mutable_local(env, name)
        if not (isinstance(cur.ty, tuple) and cur.ty[0] == "list"):
            raise Rs2vError("push on %r" % (cur.ty,))
        lst = self.pure(it, env, ctx)
        if not (isinstance(lst.ty, tuple) and lst.ty[0] in ("list", "iter")):
            raise Rs2vError("for over %r" % (lst.ty,))
        x = self.fresh(pat)
        env_b = self.enter(env)
        self.declare(env_b, pat, CmdV(lst.ty[1], x))
        el = self.pure(st[1][3][0], env_b, ctx)
        if cur.ty[1] not in (None, el.ty):
            raise Rs2vError("push of %r on a Vec of %r" % (el.ty, cur.ty[1]))
        env2 = dict(env)
        env2[name] = CmdV(("list", el.ty), "(for_push (fun %s : %s => %s) %s %s)"
                          % (x, self.cfg["coq_type"](lst.ty[1]), el.term, lst.term, cur.term))
        return env2

    def ascribe(self, v, ty):
        if v.ty == "intlit":
            return self.literal(v, ty)
        if isinstance(ty, tuple) and ty[0] == "list" and isinstance(v.ty, tuple) and v.ty[0] == "list":
            return v                       # Vec<_>
        if v.ty != ty:
            raise Rs2vError("let of type %r bound to a value of type %r" % (ty, v.ty))
        return v

    # ---- expressions
    def ex(self, e, env, k, ctx, expect=None):
        kind = e[0]
        if kind == "str":
            return k(CmdV("str", coq_str_lit(e[1]), lit=e[1]))
        if kind == "num":
            v = CmdV("intlit", None, items=e[1])
            if isinstance(expect, str) and expect in self.cfg["literal"]:
                v = self.literal(v, expect)
            return k(v)
        if kind == "bool":
            return k(CmdV("bool", "true" if e[1] else "false", known=e[1]))
        if kind == "path":
            return self.path(e, env, k, ctx, expect)
        if kind in ("ref", "refmut"):
            return self.ex(e[1], env, k, ctx, expect)
        if kind == "not":
            def k_not(v):
                if v.ty != "bool":
                    raise Rs2vError("! on %r" % (v.ty,))
                if isinstance(v.known, bool):
                    return k(CmdV("bool", "false" if v.known else "true", known=not v.known))
                return k(CmdV("bool", "(negb %s)" % v.term))
            return self.ex(e[1], env, k_not, ctx, "bool")
        if kind == "cast":
            to = self.ty_of_text(e[2])

            def k_cast(v):
                f = self.cfg["casts"].get((v.ty, to))
                if f is None:
                    raise Rs2vError("cast %r as %s" % (v.ty, e[2]))
                return k(CmdV(to, f % v.term))
            return self.ex(e[1], env, k_cast, ctx, None)
        if kind == "tuple":
            return self.seq(e[1], env, lambda vs: k(CmdV("unit") if not vs else CmdV("tuple", items=vs)), ctx)
        if kind == "bin":
            return self.bin(e, env, k, ctx)
        if kind == "field":
            if e[1][0] == "path" and len(e[1][1]) == 1 and (e[1][1][0], e[2]) in self.cfg["fields"]:
                return k(self.cfg["fields"][(e[1][1][0], e[2])])
            raise Rs2vError("field .%s" % e[2])
        if kind == "index":
            return self.index(e, env, k, ctx)
        if kind == "call":
            return self.call(e, env, k, ctx, expect)
        if kind == "mcall":
            return self.mcall(e, env, k, ctx, expect)
        if kind == "macro":
            h = self.cfg["macros"].get(e[1])
            if h is None:
                raise Rs2vError("macro %s!" % e[1])
            return h(self, e[2], env, k, ctx, expect)
        if kind == "if":
            return self.if_(e, env, k, ctx, expect)
        if kind == "iflet":
            arms = [(e[1], e[3]), (("wild",), e[4] if e[4] is not None else ("block", [], None))]
            return self.match(("match", e[2], arms), env, k, ctx, expect)
        if kind == "match":
            return self.match(e, env, k, ctx, expect)
        if kind == "block":
            return self.block(e, env, k, ctx, expect)
        if kind == "closure":
            return k(CmdV("closure", items=(e[1], e[2], env)))
        raise Rs2vError("expression %s" % kind)

    def seq(self, es, env, k, ctx, expects=None):
        """evaluate expressions left to right"""
        def go(i, acc):
            if i == len(es):
                return k(acc)
            return self.ex(es[i], env, lambda v: go(i + 1, acc + [v]), ctx, expects[i] if expects else None)
        return go(0, [])

    def path(self, e, env, k, ctx, expect):
        p = e[1]
        if len(p) == 1 and p[0] in env and not p[0].startswith("%"):
            return k(env[p[0]])
        if p == ["None"]:
            inner = expect[1] if isinstance(expect, tuple) and expect[0] in ("opt", "wrap") else None
            return k(CmdV(("opt", inner), "None", known=("None",)))
        raise Rs2vError("name %s" % "::".join(p))

    def index(self, e, env, k, ctx):
        def k_base(b):
            if b.term != self.cfg["args_term"] or e[2][0] != "num":
                raise Rs2vError("indexing other than <argument vector>[<literal>]")
            i = e[2][1]
            if i in self.argcache:
                return k(CmdV("str", self.argcache[i]))
            x = self.fresh("a%d" % i)
            self.argcache[i] = x
            try:
                body = k(CmdV("str", x))
            finally:
                del self.argcache[i]
            return self.match2("nth_error %s %d" % (b.term, i), "None", self.panic(), "Some %s" % x, body)
        return self.ex(e[1], env, k_base, ctx, None)

    CMP = {"<": ("<", False, False), "<=": ("<=", False, False), ">": ("<", True, False), ">=": ("<=", True, False),
           "==": ("==", False, False), "!=": ("==", False, True)}

    def bin(self, e, env, k, ctx):
        op = e[1]
        if op in ("&&", "||"):
            def k_l(a):
                if a.ty != "bool":
                    raise Rs2vError("%s on %r" % (op, a.ty))

                def k_r(b):
                    if b.ty != "bool":
                        raise Rs2vError("%s on %r" % (op, b.ty))
                    return k(b)
                short = CmdV("bool", "false" if op == "&&" else "true", known=(op == "||"))
                if isinstance(a.known, bool):
                    return self.ex(e[3], env, k_r, ctx, "bool") if a.known == (op == "&&") else k(short)
                go_on, stop = self.ex(e[3], env, k_r, ctx, "bool"), k(short)
                return self.ite(a.term, go_on, stop) if op == "&&" else self.ite(a.term, stop, go_on)
            return self.ex(e[2], env, k_l, ctx, "bool")
        if op == "..":
            return self.seq([e[2], e[3]], env, lambda vs: k(self.range_(vs)), ctx)

        def k_ops(vs):
            a, b = self.unify(vs[0], vs[1])
            if op in self.CMP:
                base, swap, neg = self.CMP[op]
                fm = self.cfg["compare"].get(a.ty, {}).get(base)
                if fm is None:
                    raise Rs2vError("%s on %r" % (op, a.ty))
                if callable(fm):
                    return fm(self, (b, a) if swap else (a, b), neg, k)
                t = fm % ((b.term, a.term) if swap else (a.term, b.term))
                return k(CmdV("bool", "(negb %s)" % t if neg else t))
            f = self.cfg["arith"].get((a.ty, op))
            if f is None:
                raise Rs2vError("%s on %r" % (op, a.ty))
            x = self.fresh("n")
            return self.match2("%s %s %s" % (f, a.term, b.term), "None", self.panic(), "Some %s" % x, k(CmdV(a.ty, x)))
        return self.seq([e[2], e[3]], env, k_ops, ctx)

    def range_(self, vs):
        a, b = self.unify(vs[0], vs[1])
        return CmdV(("range", a.ty), items=[a, b])

    def if_(self, e, env, k, ctx, expect):
        def k_c(c):
            if c.ty != "bool":
                raise Rs2vError("if on %r" % (c.ty,))
            if isinstance(c.known, bool):
                return self.block(e[2] if c.known else e[3], env, k, ctx, expect)
            return self.ite(c.term, self.block(e[2], env, k, ctx, expect), self.block(e[3], env, k, ctx, expect))
        return self.ex(e[1], env, k_c, ctx, "bool")

    def arm_for(self, arms, ctor):
        """the arm that takes constructor ctor (Some / None / Ok / Err): (binder name or None, body)"""
        for pat, body in arms:
            if pat[0] == "wild":
                return None, body
            if pat[0] == "ctor" and pat[1][-1] == ctor:
                if ctor == "None":
                    if pat[2]:
                        raise Rs2vError("None with a sub-pattern")
                    return None, body
                if len(pat[2]) != 1:
                    raise Rs2vError("%s pattern with %d sub-patterns" % (ctor, len(pat[2])))
                return pat[2][0], body
            if pat[0] == "ctor" and not pat[2] and len(pat[1]) == 1 and pat[1][0] not in ("None",) and pat[1][0][:1].islower():
                return ("%whole", pat[1][0]), body            # a variable pattern binds the whole value
        raise Rs2vError("match without an arm for %s" % ctor)

    def parse_hint(self, scrut, arms, expect):
        """the payload type a method call without turbofish (`s.parse()`) must have, read off the Ok arm: `Ok(v) => v` gives the
        expected type of the match, `Ok(v) => Ok(v)` its Ok component"""
        for pat, body in arms:
            if pat[0] == "ctor" and pat[1][-1] == "Ok" and len(pat[2]) == 1 and pat[2][0] is not None:
                v = pat[2][0]
                if body == ("path", [v]) and expect is not None and not isinstance(expect, tuple):
                    return ("wrap", expect)
                if body[0] == "call" and body[1] == ("path", ["Ok"]) and body[2] == [("path", [v])] \
                        and isinstance(expect, tuple) and expect[0] == "res":
                    return ("wrap", expect[1])
        return None

    def match(self, e, env, k, ctx, expect):
        arms = e[2]
        hint = self.parse_hint(e[1], arms, expect)

        def k_s(v):
            t = v.ty
            if not (isinstance(t, tuple) and t[0] in ("opt", "res")):
                raise Rs2vError("match on a value of type %r" % (t,))
            good, bad = ("Some", "None") if t[0] == "opt" else ("Ok", "Err")

            def run_arm(ctor, payload):
                name, body = self.arm_for(arms, ctor)
                env2 = self.enter(env)
                if isinstance(name, tuple):
                    self.declare(env2, name[1], v)
                elif name is not None:
                    if payload is None:
                        raise Rs2vError("pattern variable %s for a value without a payload" % name)
                    self.declare(env2, name, payload)
                return self.block(body, env2, k, ctx, expect) if body[0] == "block" else self.ex(body, env2, k, ctx, expect)
            if v.known is not None:
                return run_arm(v.known[0], v.known[1] if len(v.known) > 1 else None)
            gname, _ = self.arm_for(arms, good)
            x = self.fresh(gname if isinstance(gname, str) else "x")
            good_body = run_arm(good, CmdV(t[1], x))
            bad_body = run_arm(bad, None if t[0] == "opt" else CmdV(t[2]))
            return self.match2(v.term, "Some %s" % x, good_body, "None", bad_body)
        return self.ex(e[1], env, k_s, ctx, hint)

    def call(self, e, env, k, ctx, expect):
        if e[1][0] != "path":
            raise Rs2vError("call of a computed function")
        p = "::".join(e[1][1])
        if p in ("Some", "Ok", "Err"):
            if len(e[2]) != 1:
                raise Rs2vError("%s with %d arguments" % (p, len(e[2])))
            inner = None
            if isinstance(expect, tuple) and expect[0] in ("opt", "res", "wrap"):
                inner = expect[2] if (p == "Err" and expect[0] == "res") else expect[1]

            def k_ctor(v):
                if p == "Some":
                    return k(CmdV(("opt", v.ty), None if v.term is None else "(Some %s)" % v.term, known=("Some", v)))
                other = expect[2 if p == "Ok" else 1] if isinstance(expect, tuple) and expect[0] == "res" else None
                return k(CmdV(("res", v.ty, other) if p == "Ok" else ("res", other, v.ty), None, known=(p, v)))
            return self.ex(e[2][0], env, k_ctor, ctx, inner)
        if p in self.cfg["helpers"]:
            params, ret_text, body = self.cfg["helpers"][p]
            if len(params) != len(e[2]):
                raise Rs2vError("call of %s with %d arguments" % (p, len(e[2])))
            ret = self.ty_of_text(ret_text)

            def k_args(vs):
                henv = {"%decl": {}, "%frame": 0}
                for (pn, _pt), v in zip(params, vs):
                    henv[pn] = v
                hctx = {"ret": k, "ret_type": ret}
                return self.block(body, henv, k, hctx, ret)
            return self.seq(e[2], env, k_args, ctx)
        h = self.cfg["ctors"].get(p) or self.cfg["paths"].get(p)
        if h is None:
            raise Rs2vError("call of %s" % p)
        return self.seq(e[2], env, lambda vs: k(h(self, vs, expect)), ctx)

    IDENT = ("clone", "to_owned", "as_str", "as_ref", "borrow")

    def mcall(self, e, env, k, ctx, expect):
        recv, name, args = e[1], e[2], e[3]
        tf = e[4] if len(e) > 4 else None
        rexp = None
        if name == "unwrap" and expect is not None:
            rexp = ("wrap", expect)

        def k_r(r):
            tag = r.ty[0] if isinstance(r.ty, tuple) else r.ty
            if name in self.IDENT and not args and tag in ("str", "msg"):
                return k(r)
            if name == "unwrap" and tag in ("opt", "res") and not args:
                if r.known is not None:
                    if r.known[0] in ("Some", "Ok"):
                        return k(r.known[1])
                    return self.panic()
                x = self.fresh("u")
                return self.match2(r.term, "None", self.panic(), "Some %s" % x, k(CmdV(r.ty[1], x)))
            if name in ("map", "filter") and tag in ("iter", "range") and len(args) == 1 and args[0][0] == "closure":
                return k(self.map_closure(r, args[0], env, ctx, name))
            if name == "map" and tag == "opt" and len(args) == 1 and args[0][0] == "closure":
                return k(self.opt_map(r, args[0], env, ctx))
            h = self.cfg["methods"].get((tag, name))
            if h is None:
                raise Rs2vError("method %s on a value of type %r" % (name, r.ty))
            return self.seq(args, env, lambda vs: k(h(self, r, vs, tf, expect)), ctx)
        return self.ex(recv, env, k_r, ctx, rexp)

    def as_iter(self, r):
        if r.ty[0] == "range":
            f = self.cfg["range"].get(r.ty[1])
            if f is None:
                raise Rs2vError("range over %r" % (r.ty[1],))
            return CmdV(("iter", r.ty[1]), f % (r.items[0].term, r.items[1].term))
        return r

    def closure_body(self, clo, ty, env, ctx):
        """(binder, value of the body) of a one-parameter closure applied to an item of type ty; the body must be a plain value"""
        names, body = clo[1], clo[2]
        if len(names) != 1:
            raise Rs2vError("closure of %d parameters" % len(names))
        x = self.fresh(names[0])
        env2 = self.enter(env)
        self.declare(env2, names[0], CmdV(ty, x))
        v = self.pure(body, env2, ctx)
        if v.term is None:
            raise Rs2vError("closure whose value has no term")
        return x, v

    def map_closure(self, r, clo, env, ctx, what="map"):
        """ITER.map(|x| E) / ITER.filter(|x| E)"""
        r = self.as_iter(r)
        x, v = self.closure_body(clo, r.ty[1], env, ctx)
        fun = "(fun %s : %s => %s)" % (x, self.cfg["coq_type"](r.ty[1]), v.term)
        if what == "filter":
            if v.ty != "bool":
                raise Rs2vError("filter with a closure of type %r" % (v.ty,))
            return CmdV(("iter", r.ty[1]), "(filter %s %s)" % (fun, r.term))
        return CmdV(("iter", v.ty), "(map %s %s)" % (fun, r.term))

    def opt_map(self, r, clo, env, ctx):
        """OPTION.map(|x| E)"""
        if r.known is not None:
            if r.known[0] == "None":
                return r
            names, body = clo[1], clo[2]
            if len(names) != 1:
                raise Rs2vError("closure of %d parameters" % len(names))
            env2 = self.enter(env)
            self.declare(env2, names[0], r.known[1])
            v = self.pure(body, env2, ctx)
            return CmdV(("opt", v.ty), None if v.term is None else "(Some %s)" % v.term, known=("Some", v))
        x, v = self.closure_body(clo, r.ty[1], env, ctx)
        return CmdV(("opt", v.ty), "(option_map (fun %s : %s => %s) %s)" % (x, self.cfg["coq_type"](r.ty[1]), v.term, r.term))


# =================================================================================================
# Value wave, builder B23 (first client: lib/gen/include_gen.py — duckscript/src/preprocessor/include_files_preprocessor.rs,
# preprocessor/mod.rs and the parse_file / parse_text wrappers of parser.rs).  Purely additive: nothing above this line is
# changed.  The parser extends PQ (the `?` operator) with closures; the executor FnV is a NEW class (continuation passing).
#
#   PV / parse_fn_v   closures `|a, _| expr` together with the PQ grammar
#   FnV   symbolic executor for "value" functions: functions that compute a value by nested `if` / `match` / `if let` used
#         as EXPRESSIONS, with locals that are mutated by method calls, and that hand the verdict of a callee on.
#     * every Rust value is a VV (type, Coq term; struct values carry one VV per field, so `s.f = e` and `s.f` need no
#       record on the Coq side); control flow copies the continuation into the branches: the result is a decision tree;
#     * `match` / `if let` on an Option, on a Result-like value of a configured KIND (cfg["res_kinds"]: how Ok / Err are
#       spelled in the model and what their payloads are), on a value of a configured enum (cfg["enums"]), on a string
#       against literals (`match s.as_ref() { "a" => .., _ => .. }` is a chain of str_eqb tests), or with a lone `_` arm;
#       a match on a literal `Some(..)` / `None` / `Ok(..)` / `Err(..)` is decided here;
#     * `CALL?` and `CALL.map_err(|e| E)?`: the Err arm returns the function's error result for the (mapped) payload;
#     * what a free function / associated function / constructor / method MEANS is the configuration's (cfg["calls"],
#       cfg["methods"], cfg["mutators"]); only the Rust-core spellings that cannot change a value of the model are built in
#       (`to_string / to_owned / clone / as_str / as_ref / into / iter` as the identity on strings, options, lists, structs;
#       `starts_with`, `is_empty`, `is_some / is_none`, `== / !=` on strings, `Vec::push / append / extend`);
#       a call the configuration does not list is Rs2vError.  Free functions of the SAME file that are not configured are
#       inlined at the call (their `return` is the call's value);
#     * ONE `for x in LIST { .. }` (not nested): the mutable locals of the enclosing function the body assigns are the loop
#       state (their TYPES are fixed by cfg["loop"]["state_types"], not their names); the body becomes
#       `Definition <coq_name>_body <fn binders> (st : S) (x : T) : lstep S R` driven by Rs2vCliLib.for_each_r, `return e`
#       inside the body is `LRet <function result>`;
#     * SLICE mode (cfg["slice_call"]): the walk of the loop body up to the first call of the named callee, whose argument
#       is the result (the "which file does this iteration read" function); a path through the body that ends without that
#       call, or that depends on the loop state, is Rs2vError.
#   Everything not understood raises Rs2vError; nothing is guessed.
class PV(PQ):
    def unary(self, no_struct):
        if self.at("op", "|") or self.at("op", "||"):
            names = []
            if not self.opt("op", "||"):
                self.eat("op", "|")
                while not self.at("op", "|"):
                    self.opt("op", "&")
                    self.opt("id", "mut")
                    names.append(self.eat("id"))
                    if self.at("op", ":"):
                        raise Rs2vError("closure parameter with a type annotation")
                    if not self.opt("op", ","):
                        break
                self.eat("op", "|")
            if self.at("op", "{"):
                raise Rs2vError("closure with a block body")
            return ("closure", names, self.expr(no_struct=no_struct))
        return super().unary(no_struct)


def parse_fn_v(src, name):
    """-> (params, body) of the free function `name`, PV grammar; exactly one definition must exist"""
    ms = list(re.finditer(r"(?:pub(?:\([a-z]+\))?\s+)?\bfn\s+%s\s*\(" % re.escape(name), src))
    if len(ms) != 1:
        raise Rs2vError("fn %s: %d definitions" % (name, len(ms)))
    p = PV(lex_q(src[ms[0].start():], stop_after_item=True))
    _n, params, body = p.fn()
    return params, body


class VV:
    """a symbolic Rust value.  ty: "str" / "bool" / "unit" / "serr" (a script error: term is the TEXT of the three
    arguments kind line source) / any configured name, or ("option", T) / ("list", T) / ("struct", Name) / ("res", kind) /
    ("lit_ok",) / ("lit_err",) (an `Ok(..)` / `Err(..)` literal whose Result type is decided by its use: payload in
    `known`) / ("closure",).  fields: struct values.  pats: {"some": fmt, "none": pattern} for option-like values the model
    spells differently.  errmap: a Python function VV -> VV applied to the Err payload (`map_err`)."""
    __slots__ = ("ty", "term", "fields", "pats", "errmap", "known")

    def __init__(self, ty, term=None, fields=None, pats=None, errmap=None, known=None):
        self.ty, self.term, self.fields, self.pats, self.errmap, self.known = ty, term, fields, pats, errmap, known

    def __repr__(self):
        return "VV(%r, %r)" % (self.ty, self.term)


VV_UNIT = VV("unit", "tt")
V_IDENTITY = ("to_string", "to_owned", "clone", "as_str", "as_ref", "into", "borrow", "as_slice", "to_vec", "iter", "into_iter",
              "cloned", "as_deref")
V_LIST_MUT = ("push", "append", "extend", "clear", "push_str")


class _SliceDone(Exception):
    pass


class FnV:
    """cfg keys:
      coq_name     prefix of the loop-body definition
      params       {rust parameter: VV}
      locals       {rust local: type}                 declared type of `let mut x = vec![] / None` (else taken from the first use)
      result       {"coq": Coq type of the function result, "ok": fmt, "ok_type": type, "err": fmt % "kind line source"}
                   or {"finish": f(fn, VV) -> term}   for a function that does not return a Result
      res_kinds    {kind: {"coq": Coq type, "ok": (pattern fmt, payload type), "err": f(fn) -> (pattern, payload VV)}}
      enums        {type: {"ctors": {rust ctor path: f(fn, [sub-pattern names]) -> (pattern, {name: VV})}, "all": n}}
      calls        {rust path: f(fn, [VV], [arg exprs], env) -> VV}     free / associated functions, constructors
      methods      {(type tag, method): f(fn, receiver VV, [VV]) -> VV}  type tag = ty or ty[0]
      mutators     {(type tag, method): f(fn, receiver VV, [VV]) -> new receiver VV}
      struct_lits  {rust struct name: f(fn, {field: VV}) -> VV}             `Name { f: e, .. }`
      coq_type     f(ty) -> Coq type text
      fn_params / fn_args    binder text / argument text of the loop-body definition (the function's own parameters)
      loop         {"state_types": [type, ..]}
      helper_src   text of the file (free functions that are not configured are inlined)
      slice_call / slice_item   see the block comment
    """

    def __init__(self, cfg):
        self.cfg = cfg
        self.n = 0
        self.bound = set()
        self.loops = []
        self.depth = 0
        self.slice_term = None

    # ---- small helpers
    def fresh(self, base):
        self.n += 1
        v = "%s_%d" % (re.sub(r"[^A-Za-z0-9_]", "_", base or "x"), self.n)
        self.bound.add(v)
        return v

    def closed(self, term):
        return isinstance(term, str) and POISON not in term and not (set(re.findall(r"[A-Za-z_][A-Za-z0-9_']*", term)) & self.bound)

    @staticmethod
    def tag(ty):
        return ty[0] if isinstance(ty, tuple) else ty

    def unify(self, a, b, what):
        """types with the wildcard "?" (the element type of `vec![]` / the payload of `None` before its first use)"""
        if a == "?":
            return b
        if b == "?":
            return a
        if isinstance(a, tuple) and isinstance(b, tuple) and len(a) == len(b) and a[0] == b[0]:
            return (a[0],) + tuple(self.unify(x, y, what) for x, y in zip(a[1:], b[1:]))
        if a != b:
            raise Rs2vError("%s: type %r where %r is expected" % (what, a, b))
        return a

    def term(self, v, what):
        if v.term is None or not isinstance(v.term, str):
            raise Rs2vError("%s has no model term (type %r)" % (what, v.ty))
        return v.term

    # ---- whole function
    def function(self, params, body, name="?"):
        env = {}
        for pn, mut_ref in params:
            if pn not in self.cfg["params"]:
                raise Rs2vError("parameter %s of fn %s is not configured" % (pn, name))
            if mut_ref:
                raise Rs2vError("&mut parameter %s" % pn)
            env[pn] = self.cfg["params"][pn]
        if sorted(env) != sorted(self.cfg["params"]):
            raise Rs2vError("fn %s has parameters %s" % (name, [p for p, _ in params]))
        self.me = name
        ctx = {"ret": lambda v, env2: self.fn_result(v)}
        try:
            out = self.block(body, env, lambda v, env2: self.fn_result(v), ctx)
        except _SliceDone:
            out = None
        if self.cfg.get("slice_call"):
            if self.slice_term is None:
                raise Rs2vError("no loop whose body calls %s" % self.cfg["slice_call"])
            out = self.slice_term
        if POISON in out or any(POISON in t for _n, t in self.loops):
            raise Rs2vError("a value that is not available to the model is used")
        return out

    def fn_result(self, v):
        r = self.cfg["result"]
        if "finish" in r:
            return r["finish"](self, v)
        if v.ty == ("lit_ok",):
            p = v.known
            self.unify(p.ty, r["ok_type"], "Ok(..) as the function result")
            return r["ok"] % self.term(p, "the Ok payload")
        if v.ty == ("lit_err",):
            p = v.known
            if p.ty != "serr":
                raise Rs2vError("Err(..) of a %r as the function result" % (p.ty,))
            return r["err"] % self.term(p, "the error")
        if self.tag(v.ty) == "res":
            k = self.cfg["res_kinds"][v.ty[1]]
            if k["coq"] != r["coq"]:
                raise Rs2vError("a %s is returned where the function returns %s" % (k["coq"], r["coq"]))
            if v.errmap is not None:
                raise Rs2vError("map_err on a value that is returned as it is")
            return self.term(v, "the returned result")
        raise Rs2vError("function result of type %r" % (v.ty,))

    # ---- blocks and statements
    def block(self, b, env, k, ctx):
        if b is None:
            return k(VV_UNIT, env)
        if b[0] != "block":
            return self.ev(b, env, k, ctx)
        declared = set()

        def leave(v, env2):
            env3 = {}
            for n, x in env2.items():
                if n in declared:
                    if n in env:
                        env3[n] = env[n]
                else:
                    env3[n] = x
            return k(v, env3)

        def go(i, env_):
            if i == len(b[1]):
                if b[2] is None:
                    return leave(VV_UNIT, env_)
                return self.ev(b[2], env_, leave, ctx)
            return self.stmt(b[1][i], env_, lambda env2: go(i + 1, env2), ctx, declared)
        return go(0, env)

    def stmt(self, s, env, cont, ctx, declared):
        k = s[0]
        if k == "let":
            name = s[1]

            def bound(v, env2):
                want = self.cfg.get("locals", {}).get(name)
                if want is not None and self.tag(v.ty) not in ("lit_ok", "lit_err"):
                    v = VV(self.unify(v.ty, want, "let %s" % name), v.term, v.fields, v.pats, v.errmap, v.known)
                env3 = dict(env2)
                env3[name] = v
                declared.add(name)
                return cont(env3)
            return self.ev(s[2], env, bound, ctx)
        if k == "assign":
            if s[2] != "=":
                raise Rs2vError("assignment operator %s" % s[2])
            lv = self.lvalue(s[1])
            if lv is None or lv[0] not in env:
                raise Rs2vError("assignment to %r" % (s[1],))

            def assigned(v, env2):
                old = self.get(env2, lv)
                v2 = VV(self.unify(v.ty, old.ty, "assignment to %s" % ".".join(lv)), v.term, v.fields, v.pats, v.errmap, v.known)
                return cont(self.set(env2, lv, v2))
            return self.ev(s[3], env, assigned, ctx)
        if k == "expr":
            return self.ev(s[1], env, lambda _v, env2: cont(env2), ctx)
        if k == "return":
            if s[1] is None:
                return ctx["ret"](VV_UNIT, env)
            return self.ev(s[1], env, lambda v, env2: ctx["ret"](v, env2), ctx)
        if k == "for":
            return self.for_(s, env, cont, ctx)
        raise Rs2vError("statement %s" % k)

    # ---- lvalues
    def lvalue(self, e):
        while e[0] in ("ref", "refmut"):
            e = e[1]
        if e[0] == "path" and len(e[1]) == 1:
            return (e[1][0],)
        if e[0] == "field":
            b = self.lvalue(e[1])
            return None if b is None else b + (e[2],)
        return None

    def get(self, env, lv):
        if lv[0] not in env:
            raise Rs2vError("unknown variable %s" % lv[0])
        v = env[lv[0]]
        for f in lv[1:]:
            if v.fields is None or f not in v.fields:
                raise Rs2vError("field %s of a value of type %r" % (f, v.ty))
            v = v.fields[f]
        return v

    def set(self, env, lv, new):
        def upd(v, rest):
            if not rest:
                return new
            if v.fields is None or rest[0] not in v.fields:
                raise Rs2vError("field %s of a value of type %r" % (rest[0], v.ty))
            f = dict(v.fields)
            f[rest[0]] = upd(v.fields[rest[0]], rest[1:])
            return VV(v.ty, None, f)
        env2 = dict(env)
        env2[lv[0]] = upd(env[lv[0]], lv[1:])
        return env2

    # ---- expressions
    def ev_list(self, es, env, k, ctx):
        def go(i, acc, env_):
            if i == len(es):
                return k(acc, env_)
            return self.ev(es[i], env_, lambda v, env2: go(i + 1, acc + [v], env2), ctx)
        return go(0, [], env)

    def ev(self, e, env, k, ctx):
        t = e[0]
        if t == "path":
            if len(e[1]) == 1:
                n = e[1][0]
                if n in env:
                    return k(env[n], env)
                if n == "None":
                    return k(VV(("option", "?"), "None"), env)
            h = self.cfg.get("calls", {}).get("::".join(e[1]))
            if h is not None:
                return k(h(self, [], [], env), env)
            raise Rs2vError("unknown name %s" % "::".join(e[1]))
        if t == "str":
            return k(VV("str", coq_str_lit(e[1]), known=("lit", e[1])), env)
        if t == "char":
            return k(VV("char", coq_char(e[1]), known=("lit", e[1])), env)
        if t == "bool":
            return k(VV("bool", "true" if e[1] else "false"), env)
        if t in ("ref", "refmut"):
            return self.ev(e[1], env, k, ctx)
        if t == "tuple" and not e[1]:
            return k(VV_UNIT, env)
        if t == "field":
            def fld(v, env2):
                if v.fields is None or e[2] not in v.fields:
                    raise Rs2vError("field %s of a value of type %r" % (e[2], v.ty))
                return k(v.fields[e[2]], env2)
            return self.ev(e[1], env, fld, ctx)
        if t == "not":
            def neg(v, env2):
                self.unify(v.ty, "bool", "operand of !")
                return k(VV("bool", "(negb %s)" % v.term), env2)
            return self.ev(e[1], env, neg, ctx)
        if t == "bin":
            return self.ev_list([e[2], e[3]], env, lambda vs, env2: k(self.binop(e[1], vs[0], vs[1]), env2), ctx)
        if t == "if":
            return self.if_(e, env, k, ctx)
        if t == "iflet":
            arms = [(e[1], e[3]), (("wild",), e[4])]
            return self.ev(e[2], env, lambda v, env2: self.match_(v, arms, env2, k, ctx), ctx)
        if t == "match":
            return self.ev(e[1], env, lambda v, env2: self.match_(v, e[2], env2, k, ctx), ctx)
        if t == "block":
            return self.block(e, env, k, ctx)
        if t == "macro":
            if e[1] == "vec" and not e[2]:
                return k(VV(("list", "?"), "[]"), env)
            h = self.cfg.get("macros", {}).get(e[1])
            if h is None:
                raise Rs2vError("macro %s!" % e[1])
            return k(h(self, e[2], env), env)
        if t == "closure":
            return k(VV(("closure",), None, known=(e[1], e[2], env)), env)
        if t == "struct":
            h = self.cfg.get("struct_lits", {}).get("::".join(e[1]))
            if h is None:
                raise Rs2vError("struct literal %s" % "::".join(e[1]))
            names = [f for f, _x in e[2]]
            if len(set(names)) != len(names):
                raise Rs2vError("struct literal with a repeated field")
            return self.ev_list([x for _f, x in e[2]], env, lambda vs, env2: k(h(self, dict(zip(names, vs))), env2), ctx)
        if t == "try":
            return self.ev(e[1], env, lambda v, env2: self.try_(v, env2, k, ctx), ctx)
        if t == "call":
            return self.call(e, env, k, ctx)
        if t == "mcall":
            return self.mcall(e, env, k, ctx)
        raise Rs2vError("expression %s" % t)

    def binop(self, op, a, b):
        if op in ("||", "&&"):
            self.unify(a.ty, "bool", "operand of %s" % op)
            self.unify(b.ty, "bool", "operand of %s" % op)
            return VV("bool", "(%s %s %s)" % ("orb" if op == "||" else "andb", a.term, b.term))
        if op in ("==", "!="):
            if a.ty == "str" and b.ty == "str":
                t = "(str_eqb %s %s)" % (a.term, b.term)
                return VV("bool", t if op == "==" else "(negb %s)" % t)
            raise Rs2vError("comparison of %r with %r" % (a.ty, b.ty))
        raise Rs2vError("operator %s" % op)

    def if_(self, e, env, k, ctx):
        def go(c, env2):
            self.unify(c.ty, "bool", "condition of if")
            if c.term == "true":
                return self.block(e[2], env2, k, ctx)
            if c.term == "false":
                return self.block(e[3], env2, k, ctx)
            return "if %s then\n%s\nelse\n%s" % (c.term, self.block(e[2], env2, k, ctx), self.block(e[3], env2, k, ctx))
        return self.ev(e[1], env, go, ctx)

    # ---- match
    def arm(self, body, env, binds, k, ctx):
        """an arm body with its pattern variables: they go out of scope after it"""
        env2 = dict(env)
        env2.update(binds)

        def leave(v, env3):
            env4 = {}
            for n, x in env3.items():
                if n in binds:
                    if n in env:
                        env4[n] = env[n]
                else:
                    env4[n] = x
            return k(v, env4)
        return self.block(body, env2, leave, ctx)

    def split(self, arms, allowed):
        named, wild = {}, None
        for i, (pat, body) in enumerate(arms):
            if pat[0] == "wild":
                if i != len(arms) - 1:
                    raise Rs2vError("`_` arm that is not the last one")
                wild = (body,)
            elif pat[0] == "ctor":
                n = "::".join(pat[1])
                if n in named:
                    raise Rs2vError("two arms for %s" % n)
                if allowed is not None and n not in allowed:
                    raise Rs2vError("arm %s on a value that has no such constructor" % n)
                named[n] = (pat[2], body)
            else:
                raise Rs2vError("match pattern %r" % (pat,))
        return named, wild

    def match_(self, v, arms, env, k, ctx):
        tg = self.tag(v.ty)
        if len(arms) == 1 and arms[0][0][0] == "wild":
            return self.arm(arms[0][1], env, {}, k, ctx)
        if tg == "option":
            return self.match_option(v, arms, env, k, ctx)
        if tg in ("lit_ok", "lit_err"):
            named, wild = self.split(arms, ("Ok", "Err"))
            n = "Ok" if tg == "lit_ok" else "Err"
            if n in named:
                subs, body = named[n]
                if len(subs) != 1:
                    raise Rs2vError("%s pattern" % n)
                return self.arm(body, env, {subs[0]: v.known} if subs[0] else {}, k, ctx)
            if wild is None:
                raise Rs2vError("match without an arm for %s" % n)
            return self.arm(wild[0], env, {}, k, ctx)
        if tg == "res":
            return self.match_res(v, arms, env, k, ctx)
        if tg == "str" and all(p[0] in ("str", "wild") for p, _b in arms):
            if arms[-1][0][0] != "wild" or any(p[0] == "wild" for p, _b in arms[:-1]):
                raise Rs2vError("match on a string needs exactly one `_` arm, the last one")
            s = self.term(v, "the matched string")
            out = self.arm(arms[-1][1], env, {}, k, ctx)
            for p, body in reversed(arms[:-1]):
                out = "if (str_eqb %s %s) then\n%s\nelse\n%s" % (s, coq_str_lit(p[1]), self.arm(body, env, {}, k, ctx), out)
            return out
        en = self.cfg.get("enums", {}).get(v.ty)
        if en is not None:
            named, wild = self.split(arms, en["ctors"])
            out = ["match %s with" % self.term(v, "the matched value")]
            for n in named:
                pat, binds = en["ctors"][n](self, named[n][0])
                out += ["| %s =>" % pat, self.arm(named[n][1], env, binds, k, ctx)]
            if wild is not None:
                if len(named) < en["all"]:
                    out += ["| _ =>", self.arm(wild[0], env, {}, k, ctx)]
            elif len(named) != en["all"]:
                raise Rs2vError("match without `_` that does not name every constructor")
            out.append("end")
            return "\n".join(out)
        raise Rs2vError("match on a value of type %r" % (v.ty,))

    def match_option(self, v, arms, env, k, ctx):
        named, wild = self.split(arms, ("Some", "None"))
        inner = v.ty[1]
        s = self.term(v, "the matched option")
        known = None
        if v.pats is None:
            if s == "None":
                known = ("None", None)
            elif some_inner(s) is not None:
                known = ("Some", VV(inner, some_inner(s), v.fields))
        if v.known is not None and v.known[0] in ("Some", "None"):
            known = v.known

        def body_of(n):
            if n in named:
                return named[n]
            if wild is None:
                raise Rs2vError("match on an Option without an arm for %s" % n)
            return (None, wild[0])

        def some_arm(payload):
            subs, body = body_of("Some")
            if subs is not None and len(subs) != 1:
                raise Rs2vError("Some pattern")
            return self.arm(body, env, {subs[0]: payload} if subs and subs[0] else {}, k, ctx)

        def none_arm():
            subs, body = body_of("None")
            if subs:
                raise Rs2vError("None pattern with arguments")
            return self.arm(body, env, {}, k, ctx)
        if known is not None:
            return some_arm(known[1]) if known[0] == "Some" else none_arm()
        if inner == "?":
            raise Rs2vError("match on an Option of unknown payload type")
        pats = v.pats or {"some": "Some %s", "none": "None"}
        hint = named["Some"][0][0] if "Some" in named and named["Some"][0] and named["Some"][0][0] else "x"
        x = self.fresh(hint)
        return "match %s with\n| %s =>\n%s\n| %s =>\n%s\nend" % (s, pats["some"] % x, some_arm(VV(inner, x)), pats["none"], none_arm())

    def match_res(self, v, arms, env, k, ctx):
        kind = self.cfg["res_kinds"][v.ty[1]]
        named, wild = self.split(arms, ("Ok", "Err"))

        def body_of(n):
            if n in named:
                return named[n]
            if wild is None:
                raise Rs2vError("match on a Result without an arm for %s" % n)
            return (None, wild[0])
        osubs, obody = body_of("Ok")
        esubs, ebody = body_of("Err")
        if (osubs is not None and len(osubs) != 1) or (esubs is not None and len(esubs) != 1):
            raise Rs2vError("Ok / Err pattern")
        x = self.fresh(osubs[0] if osubs and osubs[0] else "r")
        okfmt, okty = kind["ok"]
        epat, epayload = kind["err"](self)
        if v.errmap is not None:
            epayload = v.errmap(epayload)
        return "match %s with\n| %s =>\n%s\n| %s =>\n%s\nend" % (
            self.term(v, "the matched result"), okfmt % x,
            self.arm(obody, env, {osubs[0]: VV(okty, x)} if osubs and osubs[0] else {}, k, ctx), epat,
            self.arm(ebody, env, {esubs[0]: epayload} if esubs and esubs[0] else {}, k, ctx))

    def try_(self, v, env, k, ctx):
        """VALUE?"""
        tg = self.tag(v.ty)
        if tg == "lit_ok":
            return k(v.known, env)
        if tg == "lit_err":
            return ctx["ret"](v, env)
        if tg != "res":
            raise Rs2vError("`?` on a value of type %r" % (v.ty,))
        kind = self.cfg["res_kinds"][v.ty[1]]
        x = self.fresh("r")
        okfmt, okty = kind["ok"]
        epat, epayload = kind["err"](self)
        if v.errmap is not None:
            epayload = v.errmap(epayload)
        if epayload.ty != "serr":
            raise Rs2vError("`?` would convert an error of type %r" % (epayload.ty,))
        return "match %s with\n| %s =>\n%s\n| %s =>\n%s\nend" % (
            self.term(v, "the result under `?`"), okfmt % x, k(VV(okty, x), env), epat,
            ctx["ret"](VV(("lit_err",), None, known=epayload), env))

    def apply_closure(self, clo, args, ctx):
        names, body, cenv = clo.known
        if len(names) != len(args):
            raise Rs2vError("closure of %d parameters applied to %d values" % (len(names), len(args)))
        env2 = dict(cenv)
        for n, a in zip(names, args):
            if n != "_":
                env2[n] = a
        box = []

        def kk(v, _env):
            box.append(v)
            return "\0HOLE"
        if self.ev(body, env2, kk, ctx) != "\0HOLE" or len(box) != 1:
            raise Rs2vError("control flow inside a closure")
        return box[0]

    # ---- calls
    def call(self, e, env, k, ctx):
        if e[1][0] != "path":
            raise Rs2vError("call of %r" % (e[1],))
        name = "::".join(e[1][1])

        def go(args, env2):
            if name == "Some" and len(args) == 1:
                a = args[0]
                return k(VV(("option", a.ty), None if a.term is None else "(Some %s)" % a.term, known=("Some", a)), env2)
            if name == "Ok" and len(args) == 1:
                return k(VV(("lit_ok",), None, known=args[0]), env2)
            if name == "Err" and len(args) == 1:
                return k(VV(("lit_err",), None, known=args[0]), env2)
            if ctx.get("slice") and name == self.cfg.get("slice_call"):
                if len(args) != 1:
                    raise Rs2vError("%s with %d arguments" % (name, len(args)))
                self.unify(args[0].ty, self.cfg["slice_type"], "argument of %s" % name)
                return self.term(args[0], "the argument of %s" % name)
            h = self.cfg.get("calls", {}).get(name)
            if h is not None:
                return k(h(self, args, e[2], env2), env2)
            if len(e[1][1]) == 1 and self.cfg.get("helper_src") and name != getattr(self, "me", None):
                return self.inline(name, args, env2, k, ctx)
            raise Rs2vError("call of %s, which the configuration does not describe" % name)
        return self.ev_list(e[2], env, go, ctx)

    def inline(self, name, args, env, k, ctx):
        if self.depth >= 3:
            raise Rs2vError("helper calls nested too deeply at %s" % name)
        try:
            params, body = parse_fn_v(self.cfg["helper_src"], name)
        except Rs2vError as ex:
            raise Rs2vError("call of %s, which is neither configured nor a free function of this file (%s)" % (name, ex))
        if len(params) != len(args) or any(m for _p, m in params):
            raise Rs2vError("helper %s: parameters" % name)
        henv = {p: a for (p, _m), a in zip(params, args)}
        self.depth += 1
        ctx2 = dict(ctx)
        ctx2["ret"] = lambda v, _henv: k(v, env)
        ctx2["inlined"] = True
        try:
            return self.block(body, henv, lambda v, _henv: k(v, env), ctx2)
        finally:
            self.depth -= 1

    def mcall(self, e, env, k, ctx):
        recv_e, m, arg_es = e[1], e[2], e[3]

        def go(vs, env2):
            r, args = vs[0], vs[1:]
            tg = self.tag(r.ty)
            mu = self.cfg.get("mutators", {}).get((tg, m))
            if mu is not None or (tg == "list" and m in V_LIST_MUT):
                lv = self.lvalue(recv_e)
                if lv is None or lv[0] not in env2:
                    raise Rs2vError("%s on something that is not a local" % m)
                env3 = env2
                if mu is not None:
                    new = mu(self, r, args)
                else:
                    new, env3 = self.list_mut(r, m, args, arg_es, env2)
                return k(VV_UNIT, self.set(env3, lv, new))
            h = self.cfg.get("methods", {}).get((tg, m))
            if h is not None:
                return k(h(self, r, args), env2)
            return k(self.builtin(r, m, args, ctx), env2)
        return self.ev_list([recv_e] + list(arg_es), env, go, ctx)

    def list_mut(self, r, m, args, arg_es, env):
        if m == "push" and len(args) == 1:
            t = self.unify(r.ty, ("list", args[0].ty), "Vec::push")
            return VV(t, "(%s ++ [%s])" % (self.term(r, "the vector"), self.term(args[0], "the pushed value"))), env
        if m in ("append", "extend") and len(args) == 1:
            t = self.unify(r.ty, args[0].ty, "Vec::%s" % m)
            new = VV(t, "(%s ++ %s)" % (self.term(r, "the vector"), self.term(args[0], "the appended vector")))
            if m == "append":
                # Vec::append leaves the other vector empty
                lv = self.lvalue(arg_es[0])
                if arg_es[0][0] != "refmut" or lv is None or lv[0] not in env:
                    raise Rs2vError("Vec::append of something that is not `&mut <local>`")
                env = self.set(env, lv, VV(t, "[]"))
            return new, env
        if m == "clear" and not args:
            return VV(r.ty, "[]"), env
        raise Rs2vError("Vec::%s" % m)

    def builtin(self, r, m, args, ctx):
        tg = self.tag(r.ty)
        if m in V_IDENTITY and not args and tg in ("str", "option", "list", "struct"):
            return r
        if tg == "str":
            if m == "starts_with" and len(args) == 1 and args[0].ty in ("str", "char"):
                p = args[0].term if args[0].ty == "str" else "[%s]" % args[0].term
                return VV("bool", "(str_starts_with %s %s)" % (p, r.term))
            if m == "is_empty" and not args:
                return VV("bool", "(list_is_empty %s)" % r.term)
            if m in ("eq", "ne") and len(args) == 1:
                return self.binop("==" if m == "eq" else "!=", r, args[0])
        if tg == "option" and not args and m in ("is_some", "is_none") and r.pats is None:
            return VV("bool", "(opt_%s %s)" % (m, self.term(r, "the option")))
        if tg == "list" and m == "is_empty" and not args:
            return VV("bool", "(list_is_empty %s)" % self.term(r, "the vector"))
        if tg == "res" and m == "map_err" and len(args) == 1 and args[0].ty == ("closure",):
            clo, prev = args[0], r.errmap

            def errmap(p):
                return self.apply_closure(clo, [prev(p) if prev else p], ctx)
            return VV(r.ty, r.term, errmap=errmap)
        raise Rs2vError("method %s on a value of type %r" % (m, r.ty))

    # ---- for x in LIST
    def assigned(self, node, out):
        if isinstance(node, list):
            for x in node:
                self.assigned(x, out)
            return
        if not isinstance(node, tuple) or not node:
            return
        if node[0] == "assign":
            lv = self.lvalue(node[1])
            out.add(lv[0] if lv else "?")
        elif node[0] == "mcall" and (node[2] in V_LIST_MUT or any(m == node[2] for (_t, m) in self.cfg.get("mutators", {}))):
            lv = self.lvalue(node[1])
            if lv:
                out.add(lv[0])
        elif node[0] == "refmut":
            lv = self.lvalue(node[1])
            if lv:
                out.add(lv[0])
        for x in node[1:]:
            if isinstance(x, (tuple, list)):
                self.assigned(x, out)

    def for_(self, s, env, cont, ctx):
        pat, it, body = s[1], s[2], s[3]
        if ctx.get("loop") or ctx.get("inlined"):
            raise Rs2vError("a loop inside a loop or inside an inlined helper")
        if self.loops or self.slice_term is not None:
            raise Rs2vError("more than one loop")
        ct = self.cfg["coq_type"]

        def go(lst, env1):
            if self.tag(lst.ty) != "list" or lst.ty[1] == "?":
                raise Rs2vError("for over a value of type %r" % (lst.ty,))
            names = set()
            self.assigned(body, names)
            if "?" in names:
                raise Rs2vError("the loop assigns something that is not a local")
            state = [n for n in env1 if n in names]
            want = self.cfg["loop"]["state_types"]
            got = [env1[n].ty for n in state]
            if len(got) != len(want):
                raise Rs2vError("the loop assigns %s (the model's loop carries %d value(s))" % (state, len(want)))
            stys = [self.unify(g, w, "loop state") for g, w in zip(got, want)]
            sty = ct(stys[0]) if len(stys) == 1 else "(%s)" % " * ".join(ct(t) for t in stys) if stys else "unit"
            slice_mode = bool(self.cfg.get("slice_call"))
            item = self.cfg["slice_item"] if slice_mode else self.fresh(pat)
            benv = {}
            for n, v in env1.items():
                if n in state:
                    continue
                if v.fields is not None:
                    benv[n] = self.close_struct(v)
                else:
                    benv[n] = v if (v.term is None or self.closed(v.term)) else VV(v.ty, POISON)
            svars = ["st"] if len(state) == 1 else [self.fresh(n) for n in state]
            for n, t, sv in zip(state, stys, svars):
                benv[n] = VV(t, POISON if slice_mode else sv)
            benv[pat] = VV(lst.ty[1], item)

            def tup(env_):
                if not state:
                    return "tt"
                ts = [self.term(env_[n], "the loop state") for n in state]
                return ts[0] if len(ts) == 1 else "(%s)" % ", ".join(ts)
            if slice_mode:
                def no_end(*_a):
                    raise Rs2vError("a path through the loop body ends without calling %s" % self.cfg["slice_call"])
                self.slice_term = self.block(body, benv, no_end, {"loop": True, "slice": True, "ret": no_end})
                raise _SliceDone()
            bctx = {"loop": True, "ret": lambda v, _e: "LRet (%s)" % self.fn_result(v)}
            bterm = self.block(body, benv, lambda _v, env_: "LCont %s" % tup(env_), bctx)
            if len(state) > 1:
                bterm = "let '(%s) := st in\n%s" % (", ".join(svars), bterm)
            name = "%s_body" % self.cfg["coq_name"]
            rty = self.cfg["result"]["coq"]
            self.loops.append((name, "Definition %s%s (st : %s) (%s : %s) : lstep (%s) (%s) :=\n%s.\n" % (
                name, (" " + self.cfg["fn_params"]) if self.cfg.get("fn_params") else "", sty, item, ct(lst.ty[1]), sty, rty, bterm)))
            after = [self.fresh(n) for n in state]
            env2 = dict(env1)
            for n, t, a in zip(state, stys, after):
                env2[n] = VV(t, a)
            apat = "_" if not state else after[0] if len(after) == 1 else "(%s)" % ", ".join(after)
            r = self.fresh("r")
            return "match for_each_r (%s%s) %s %s with\n| LRet %s => %s\n| LCont %s =>\n%s\nend" % (
                name, (" " + self.cfg["fn_args"]) if self.cfg.get("fn_args") else "", self.term(lst, "the list"),
                tup(env1), r, r, apat, cont(env2))
        return self.ev(it, env, go, ctx)

    def close_struct(self, v):
        if v.fields is not None:
            return VV(v.ty, None, {f: self.close_struct(x) for f, x in v.fields.items()})
        return v if (v.term is None or self.closed(v.term)) else VV(v.ty, POISON)


# =================================================================================================
# Variable-command wave, builder B22 (first client: lib/gen/var_gen.py — the `run` functions of the variable commands
# duckscript_sdk/src/sdk/std/var/*/mod.rs, of the scope commands sdk/std/scope/*/mod.rs, and push / pop of
# duckscript_sdk/src/utils/scope.rs).  Purely additive: nothing above this line is changed.  The parser extends PCmd, the
# executor extends FnCmd (continuation passing, decision trees with explicit panic arms) by MUTABLE STATE.
#
#   PVar / parse_var_run / parse_var_fn
#       `[a, b]` array literals (`&[]`), open ranges `a..` (inside an index: `&v[1..]`), closures with a block body
#       `|x| { ..; e }`, tuple patterns in `for (k, v) in m`; otherwise the PCmd grammar
#   FnVar   executor on top of FnCmd:
#     * state CELLS (cfg["cells"]: name -> CmdV): the parts of the state a command can change (`context.variables`, the scope
#       stack inside `context.state`), plus one cell per `let mut` local of a cell type (cfg["cell_types"]: HashMap / Vec
#       locals).  A value of type ("ref", cell) denotes the cell; reading it gives the cell's CURRENT term.  The cells live
#       on the executor and are path sensitive: every sub-execution (ex / block / stmts) restores the cells it found when it
#       returns — in continuation-passing style the rest of the path has been emitted by then — so both branches of an `if`
#       / `match` start from the state at the branch point and every leaf (cfg["finish"]) sees the state of ITS path;
#     * effects are given by the configuration: cfg["methods"] handlers may call fn.write(cell, value); handlers that BRANCH
#       (Vec::pop, a callee whose result is a sum) are cfg["cps_methods"] / cfg["cps_paths"]: f(fn, .., k, ..) -> term, they
#       call k once per branch with a statically known value;
#     * `for x in LIST { body }` / `for (k, v) in MAP { body }` whose body changes exactly ONE cell and has no `return` / panic
#       is `foldl (fun acc x => body') <cell> LIST` (stdpp foldl; the items of a map are cfg["map_items"]); the body is a
#       decision tree whose leaves are the new value of that cell; the other cells are read as they are before the loop;
#     * `match` on a value of an enum type whose constructor is statically known (cfg: a CmdV with known = (Ctor, payload),
#       e.g. the elements of the scope stack are StateValue::Any of a variable map) selects the arm here;
#     * `v[n..]` on a list is `match vec_slice_from v n with None => <panic> | Some s => ..`;
#     * a pure expression (closure bodies, loop iterators) must leave the cells alone.
#   Everything not understood raises Rs2vError.
class PVar(PCmd):
    def expr(self, lvl=0, no_struct=False):
        if lvl == len(self.PREC):
            return self.unary(no_struct)
        l = self.expr(lvl + 1, no_struct)
        while self.peek()[0] == "op" and self.peek()[1] in self.PREC[lvl]:
            op = self.eat("op")
            if op == ".." and self.peek() in (("op", "]"), ("op", ")")):
                l = ("rangefrom", l)
                continue
            r = self.expr(lvl + 1, no_struct)
            l = ("bin", op, l, r)
        return l

    def unary(self, no_struct):
        if self.at("op", "|") or self.at("op", "||"):
            names = []
            if not self.opt("op", "||"):
                self.eat("op", "|")
                while not self.at("op", "|"):
                    self.opt("op", "&")
                    self.opt("id", "mut")
                    names.append(self.eat("id"))
                    if self.at("op", ":"):
                        raise Rs2vError("closure parameter with a type annotation")
                    if not self.opt("op", ","):
                        break
                self.eat("op", "|")
            if self.at("op", "{"):
                return ("closure", names, self.block())
            return ("closure", names, self.expr(no_struct=no_struct))
        return super().unary(no_struct)

    def atom(self, no_struct):
        if self.at("op", "["):
            self.i += 1
            return ("array", self.args("]"))
        return super().atom(no_struct)

    def stmt(self):
        if self.at("id", "for") and self.peek(1) == ("op", "("):
            self.i += 2
            names = []
            while not self.at("op", ")"):
                self.opt("op", "&")
                self.opt("id", "ref")
                self.opt("id", "mut")
                names.append(self.eat("id"))
                if not self.opt("op", ","):
                    break
            self.eat("op", ")")
            self.eat("id", "in")
            it = self.expr(no_struct=True)
            return ("for", ("tuplepat", names), it, self.block())
        return super().stmt()


def parse_var_run(src, trait="Command", type_name="CommandImpl", name="run"):
    """`fn run` of `impl Command for CommandImpl { .. }`, PVar grammar -> (receiver, [(param, type text)], body)"""
    ms = list(re.finditer(r"^\s*impl\s+%s\s+for\s+%s\s*\{" % (re.escape(trait), re.escape(type_name)), src, re.M))
    if len(ms) != 1:
        raise Rs2vError("impl %s for %s: %d blocks" % (trait, type_name, len(ms)))
    body = balanced_block(src, ms[0].end() - 1)
    fs = list(re.finditer(r"\bfn\s+%s\s*\(" % re.escape(name), body))
    if len(fs) != 1:
        raise Rs2vError("fn %s: %d definitions in impl %s for %s" % (name, len(fs), trait, type_name))
    p = PVar(lex(body[fs[0].start():], stop_after_item=True))
    _n, params, blk = p.fn()
    return p.receiver, params, blk


def parse_var_fn(src, name):
    """a free function of the file, PVar grammar -> ([(param, type text)], return type text, body)"""
    ms = list(re.finditer(r"^(?:pub(?:\([a-z]+\))?\s+)?fn\s+%s\s*\(" % re.escape(name), src, re.M))
    if len(ms) != 1:
        raise Rs2vError("fn %s: %d definitions" % (name, len(ms)))
    p = PVar(lex(src[ms[0].start():], stop_after_item=True))
    _n, params, body = p.fn()
    if p.receiver is not None:
        raise Rs2vError("fn %s has a receiver" % name)
    return params, p.ret_type, body


class FnVar(FnCmd):
    """cfg keys in addition to FnCmd's:
      cells        {cell name: CmdV}                        initial state
      cell_types   f(ty) -> bool                            a `let mut` local of such a type becomes a cell
      cps_methods  {(type tag, method): f(fn, recv CmdV, [CmdV], turbofish, expect, k) -> term}
      cps_paths    {rust path string: f(fn, [CmdV], expect, k) -> term}
      map_items    {map ty: (key ty, value ty, fmt % map term)}   the list of pairs a `for (k, v) in MAP` runs over
    The type tag of a ("ref", cell) receiver is "&" + the tag of the cell's type; a method that is not configured for the
    reference is looked up for the cell's current value (read-only methods)."""

    def __init__(self, cfg):
        super().__init__(cfg)
        self.st = dict(cfg.get("cells", {}))
        self.effects = 0
        self.in_fold = 0
        self.ncells = 0

    # ---- cells
    def cell_of(self, v):
        return v.ty[1] if isinstance(v.ty, tuple) and v.ty[0] == "ref" else None

    def cur(self, v):
        c = self.cell_of(v)
        if c is None:
            return v
        if c not in self.st:
            raise Rs2vError("state component %s is not available here" % c)
        return self.st[c]

    def write(self, cell, v):
        if cell not in self.st:
            raise Rs2vError("state component %s is not available here" % cell)
        self.st = dict(self.st)
        self.st[cell] = v
        self.effects += 1

    def new_cell(self, base, v):
        self.ncells += 1
        name = "%s#%d" % (base, self.ncells)
        self.st = dict(self.st)
        self.st[name] = v
        return name

    def guarded(self, f):
        saved = self.st
        try:
            return f()
        finally:
            self.st = saved

    def panic(self):
        if self.in_fold:
            raise Rs2vError("an operation that can panic inside a loop body")
        return super().panic()

    def pure(self, e, env, ctx, expect=None):
        n = self.effects
        v = super().pure(e, env, ctx, expect)
        if self.effects != n:
            raise Rs2vError("a state change where a plain value is required")
        return v

    # ---- blocks, statements
    def block(self, b, env, k, ctx, expect=None):
        return self.guarded(lambda: FnCmd.block(self, b, env, k, ctx, expect))

    def stmts(self, ss, tail, env, k, ctx, expect):
        return self.guarded(lambda: self.stmts1(ss, tail, env, k, ctx, expect))

    def stmts1(self, ss, tail, env, k, ctx, expect):
        if not ss:
            return FnCmd.stmts(self, ss, tail, env, k, ctx, expect)
        s, rest = ss[0], ss[1:]
        kind = s[0]
        if kind == "let" and len(s) > 4 and s[4]:
            name, e = s[1], s[2]
            ty = self.ty_of_text(s[3])

            def k_let(v):
                if ty is not None:
                    v = self.ascribe(v, ty)
                env2 = dict(env)
                v = self.cur(v)
                if self.cfg["cell_types"](v.ty):
                    self.declare(env2, name, CmdV(("ref", self.new_cell(name, v))), True)
                else:
                    self.declare(env2, name, v, True)
                return self.stmts(rest, tail, env2, k, ctx, expect)
            return self.ex(e, env, k_let, ctx, ty)
        if kind == "for":
            self.for_fold(s, env, ctx)
            return self.stmts(rest, tail, env, k, ctx, expect)
        if kind == "expr":
            def k_unit(v):
                if v.ty not in ("unit", "discard"):
                    raise Rs2vError("value of type %r discarded" % (v.ty,))
                return self.stmts(rest, tail, env, k, ctx, expect)
            return self.ex(s[1], env, k_unit, ctx, "unit")
        return FnCmd.stmts(self, ss, tail, env, k, ctx, expect)

    def iterable(self, v):
        """(item type, list term) of what a `for` runs over"""
        v = self.cur(v)
        mi = self.cfg.get("map_items", {}).get(v.ty)
        if mi is not None:
            return ("pair", mi[0], mi[1]), mi[2] % v.term
        if isinstance(v.ty, tuple) and v.ty[0] in ("list", "iter") and v.term is not None:
            return v.ty[1], v.term
        raise Rs2vError("for over %r" % (v.ty,))

    def for_fold(self, s, env, ctx):
        """for PAT in ITER { body } -> the one cell the body changes := foldl (fun acc x => body') <cell> <items>"""
        _, pat, it, body = s
        if self.in_fold:
            raise Rs2vError("nested loop")
        item_ty, lterm = self.iterable(self.pure(it, env, ctx))
        x = self.fresh("x")
        env_b = self.enter(env)
        if isinstance(pat, tuple) and pat[0] == "tuplepat":
            if not (isinstance(item_ty, tuple) and item_ty[0] == "pair" and len(pat[1]) == 2):
                raise Rs2vError("tuple pattern over items of type %r" % (item_ty,))
            self.declare(env_b, pat[1][0], CmdV(item_ty[1], "%s.1" % x))
            self.declare(env_b, pat[1][1], CmdV(item_ty[2], "%s.2" % x))
        else:
            if isinstance(item_ty, tuple) and item_ty[0] == "pair":
                raise Rs2vError("a map iterated without a (key, value) pattern")
            self.declare(env_b, pat, CmdV(item_ty, x))

        def no_return(_v):
            raise Rs2vError("return inside a loop")
        ctx_b = {"ret": no_return, "ret_type": None}
        saved = self.st
        eff = self.effects

        def run(cells, kleaf):
            self.st = cells
            self.in_fold += 1
            try:
                return self.block(body, env_b, kleaf, ctx_b, None)
            finally:
                self.in_fold -= 1
                self.st = saved
        # pass 1: which cells does the body change?  (cells without a term are static bookkeeping: they must not change)
        accs = {c: self.fresh("acc") for c, v in saved.items() if v.term is not None}
        changed, leaf_ty = set(), {}

        def k1(v):
            if v.ty not in ("unit", "discard"):
                raise Rs2vError("loop body with a value of type %r" % (v.ty,))
            for c, cv in saved.items():
                if c not in accs:
                    if self.st.get(c) is not cv:
                        raise Rs2vError("loop body: %s changes" % c)
                elif c not in self.st or self.st[c].term != accs[c]:
                    changed.add(c)
                    leaf_ty[c] = self.st[c].ty
            return ""
        names1 = dict(self.names)
        run({c: (CmdV(v.ty, accs[c]) if c in accs else v) for c, v in saved.items()}, k1)
        self.names = names1
        if len(changed) != 1:
            raise Rs2vError("a loop whose body changes %d state components" % len(changed))
        (c,) = changed
        acc = accs[c]

        def k2(v):
            for d, dv in saved.items():
                if d != c and self.st.get(d) is not dv:
                    raise Rs2vError("loop body: inconsistent state change")
            return self.st[c].term
        cells = dict(saved)
        cells[c] = CmdV(saved[c].ty, acc)
        body_term = run(cells, k2)
        self.effects = eff
        ty = leaf_ty[c]
        out = CmdV(ty, "(foldl (fun (%s : %s) (%s : %s) =>\n%s) %s %s)" % (
            acc, self.cfg["coq_type"](ty), x, self.cfg["coq_type"](item_ty), cmd_indent(body_term, 4), saved[c].term, lterm))
        self.write(c, out)

    # ---- expressions
    def ex(self, e, env, k, ctx, expect=None):
        return self.guarded(lambda: self.ex1(e, env, k, ctx, expect))

    def ex1(self, e, env, k, ctx, expect):
        kind = e[0]
        if kind == "%value":
            return k(e[1])
        if kind == "array":
            if e[1]:
                raise Rs2vError("array literal with elements")
            inner = expect[1] if isinstance(expect, tuple) and expect[0] == "list" else None
            return k(CmdV(("list", inner), "[]"))
        if kind == "rangefrom":
            raise Rs2vError("open range outside an index")
        if kind == "index" and e[2][0] == "rangefrom":
            return self.slice_from(e, env, k, ctx)
        return FnCmd.ex(self, e, env, k, ctx, expect)

    def slice_from(self, e, env, k, ctx):
        lo = e[2][1]
        if lo[0] != "num":
            raise Rs2vError("slice with a computed bound")

        def k_base(b):
            b = self.cur(b)
            tag = b.ty[0] if isinstance(b.ty, tuple) else b.ty
            if tag not in ("list", "args") or b.term is None:
                raise Rs2vError("slice of a value of type %r" % (b.ty,))
            elem = b.ty[1] if tag == "list" else "str"
            x = self.fresh("s")
            return self.match2("vec_slice_from %s %d" % (b.term, lo[1]), "None", self.panic(),
                               "Some %s" % x, k(CmdV(("list", elem), x)))
        return self.ex(e[1], env, k_base, ctx, None)

    def match(self, e, env, k, ctx, expect):
        arms = e[2]

        def k_s(v):
            v = self.cur(v)
            t = v.ty
            if isinstance(t, tuple) and t[0] in ("opt", "res"):
                # FnCmd's treatment, on the value already computed
                return FnCmd.match(self, ("match", ("%value", v), arms), env, k, ctx, expect)
            if v.known is None or not isinstance(v.known, tuple):
                raise Rs2vError("match on a value of type %r whose constructor is not known" % (t,))
            ctor, payload = v.known[0], list(v.known[1:])
            for pat, body in arms:
                env2 = self.enter(env)
                if pat[0] == "wild":
                    return self.block(body, env2, k, ctx, expect) if body[0] == "block" else self.ex(body, env2, k, ctx, expect)
                if pat[0] == "ctor" and pat[1][-1] == ctor and (len(pat[1]) > 1 or pat[2]):
                    if len(pat[2]) != len(payload):
                        raise Rs2vError("pattern %s with %d sub-patterns" % ("::".join(pat[1]), len(pat[2])))
                    for n, p in zip(pat[2], payload):
                        if n is not None:
                            self.declare(env2, n, p)
                    return self.block(body, env2, k, ctx, expect) if body[0] == "block" else self.ex(body, env2, k, ctx, expect)
                if pat[0] != "ctor":
                    raise Rs2vError("pattern %r" % (pat,))
            raise Rs2vError("match without an arm for %s" % ctor)
        hint = self.parse_hint(e[1], arms, expect)
        return self.ex(e[1], env, k_s, ctx, hint)

    def call(self, e, env, k, ctx, expect):
        if e[1][0] == "path":
            p = "::".join(e[1][1])
            h = self.cfg.get("cps_paths", {}).get(p)
            if h is not None:
                return self.seq(e[2], env, lambda vs: h(self, vs, expect, k), ctx)
        return super().call(e, env, k, ctx, expect)

    def tag_of(self, r):
        c = self.cell_of(r)
        if c is not None:
            t = self.cur(r).ty
            return "&" + (t[0] if isinstance(t, tuple) else t)
        return r.ty[0] if isinstance(r.ty, tuple) else r.ty

    def mcall(self, e, env, k, ctx, expect):
        recv, name, args = e[1], e[2], e[3]
        tf = e[4] if len(e) > 4 else None

        def k_r(r):
            tag = self.tag_of(r)
            for rr, tg in ((r, tag),) + (((self.cur(r), tag[1:]),) if tag.startswith("&") else ()):
                h = self.cfg.get("cps_methods", {}).get((tg, name))
                if h is not None:
                    return self.seq(args, env, lambda vs, rr=rr, h=h: h(self, rr, vs, tf, expect, k), ctx)
                h = self.cfg["methods"].get((tg, name))
                if h is not None:
                    return self.seq(args, env, lambda vs, rr=rr, h=h: k(h(self, rr, vs, tf, expect)), ctx)
            return FnCmd.mcall(self, ("mcall", ("%value", self.cur(r)), name, args, tf), env, k, ctx, expect)
        if recv[0] == "%value":
            return k_r(recv[1])
        rexp = ("wrap", expect) if name == "unwrap" and expect is not None else None
        return self.ex(recv, env, k_r, ctx, rexp)


# =================================================================================================
# Fourth wave, builder B19 (client: lib/gen/findcmds_gen.py — get_start, get_end, find_commands of
# duckscript_sdk/src/utils/instruction_query.rs).  Purely additive: nothing above this line is changed; the classes below
# extend PIdx / FnIdx.
#
#   PFc    parser:   a block-like expression (`if`, `if let`, `match`, `{ .. }`) is never applied or indexed: the `()` that
#                    follows `if .. { .. } else { .. }` as the value of the enclosing block is a unit value, not a call
#                    (the P grammar would read `if .. {..} (..)` as a call).
#   FnFc   executor: * `for x in a..b` whose loop variable IS used: the body becomes a definition state -> nat -> step, the
#                      driver (cfg loop.driver) gets the iteration count `b - a` (fixed at loop entry, as Rust's Range), the
#                      first index `a` and the packed state (cfg loop.kind = "range");
#                    * `continue` inside the loop body (statement or value of a block / match arm);
#                    * struct literals of a configured struct (`Positions { middle: vec![], end: 0 }`) as a struct-valued
#                      local whose fields are separate symbolic values (so `positions.middle.push(..)`, `positions.end = ..`
#                      work and `Some(positions)` is re-packed with the struct's constructor);
#                    * a struct held in ONE Coq variable (an element read with `v[i]`, a pattern variable) whose fields are
#                      read through the configured projections (`instruction.instruction_type`, `sub_positions.end`);
#                    * `match` on a value of a DATA-carrying enum (cfg data_enums: each variant is unit or carries one
#                      struct, spelled as a Coq constructor whose arguments are the struct's fields): one Coq arm per
#                      model constructor, `_` arms are expanded, the payload is bound as a struct-valued pattern variable;
#                    * `format!` error texts with `{:?}` placeholders;
#                    * functions whose result is a plain value (cfg value_result = its type), e.g. get_start / get_end.
#   Everything not understood raises Rs2vError.
class PFc(PIdx):
    def postfix(self, e):
        if e[0] in ("if", "iflet", "match", "block") and self.peek() in (("op", "("), ("op", "[")):
            return e
        return super().postfix(e)


def parse_fn_fc(src, name):
    """like parse_fn_idx, with the PFc grammar"""
    m = re.search(r"(?:pub(?:\([a-z]+\))?\s+)?fn\s+%s\s*\(" % re.escape(name), src)
    if not m:
        raise Rs2vError("fn %s not found" % name)
    p = PFc(lex(src[m.start():], stop_after_item=True))
    n, params, body = p.fn()
    return params, body


CONTINUE = ("path", ["continue"])


class FnFc(FnIdx):
    """cfg keys in addition to FnIdx's:
      data_enums    {Rust enum name: [{"rust": variant, "coq": constructor, "payload": None | struct name}]}; the struct's
                    cfg structs entry gives the fields in the order of the Coq constructor's arguments
      structs       as Fn2; "proj" makes a struct held in one Coq variable readable, "mk" makes it re-packable
      loop          for `for x in a..b`: {"kind": "range", "state": [dotted names], "state_type": T, "pack": fmt, "driver": name}
      value_result  type of the function's result when it is a plain value (no Ok / Err)
    """

    # ---- structs held in one Coq variable
    def _expand(self, v):
        if is_struct(v[0]) and isinstance(v[1], str) and v[1] != POISON and POISON not in v[1]:
            sc = self.cfg.get("structs", {}).get(v[0][1])
            if sc and "proj" in sc:
                return self.struct_of_term(v[0], v[1])
        return v

    def has(self, env, dotted):
        parts = dotted.split(".")
        if parts[0] not in env:
            return False
        v = env[parts[0]]
        for p in parts[1:]:
            v = self._expand(v)
            if not (is_struct(v[0]) and isinstance(v[1], dict) and p in v[1]):
                return False
            v = v[1][p]
        return True

    def get(self, env, dotted):
        parts = dotted.split(".")
        if parts[0] not in env:
            raise Rs2vError("unknown variable %s" % parts[0])
        v = env[parts[0]]
        for p in parts[1:]:
            v = self._expand(v)
            if not (is_struct(v[0]) and isinstance(v[1], dict) and p in v[1]):
                raise Rs2vError("no field %s in %s" % (p, dotted))
            v = v[1][p]
        return v

    # ---- struct literals
    def struct_lit(self, e, env):
        name = "::".join(e[1])
        sc = self.cfg.get("structs", {}).get(name)
        if not sc or "mk" not in sc:
            return None
        given = {}
        for f, fe in e[2]:
            if f in given:
                raise Rs2vError("field %s given twice in %s { .. }" % (f, name))
            given[f] = fe
        if sorted(given) != sorted(f for f, _t in sc["fields"]):
            raise Rs2vError("struct literal %s with the fields %s" % (name, sorted(given)))
        out = {}
        for f, ft in sc["fields"]:
            fe = given[f]
            while fe[0] in ("ref", "refmut"):
                fe = fe[1]
            if fe[0] == "num":
                if ft not in (Ty.NAT, Ty.NUM_N, Ty.INT_Z):
                    raise Rs2vError("numeric literal for the field %s : %s" % (f, ft))
                out[f] = (ft, self.num(fe, ft, env))
            elif fe[0] == "macro" and fe[1] == "vec" and not fe[2]:
                if not self.is_list(ft):
                    raise Rs2vError("vec![] for the field %s : %s" % (f, ft))
                out[f] = (ft, "[]")
            else:
                vt, term = self.value(fe, env)
                if vt != ft:
                    raise Rs2vError("field %s : %s initialised with a %s" % (f, ft, vt))
                out[f] = (ft, term)
        return (T_struct(name), out)

    def value(self, e, env):
        e0 = e
        while e0[0] in ("ref", "refmut"):
            e0 = e0[1]
        if e0[0] == "struct":
            r = self.struct_lit(e0, env)
            if r is not None:
                return r
        return super().value(e, env)

    def type_of(self, e, env):
        if e[0] == "struct":
            sc = self.cfg.get("structs", {}).get("::".join(e[1]))
            if sc and "mk" in sc:
                return T_struct("::".join(e[1]))
        return super().type_of(e, env)

    def ex(self, e, env):
        if e[0] == "struct":
            r = self.struct_lit(e, env)
            if r is not None:
                return self.struct_term(r[0], r[1])
        if e == CONTINUE and "continue" not in env:
            raise Rs2vError("`continue` in a position where it cannot be translated")
        return super().ex(e, env)

    # ---- results
    def err_payload(self, x, env):
        y = x
        while y[0] == "mcall" and y[2] in ("to_string", "to_owned", "clone") and not y[3]:
            y = y[1]
        texts = self.cfg.get("err_texts")
        if texts is not None and y[0] == "macro" and y[1] == "format" and y[2] and y[2][0][0] == "str":
            key = y[2][0][1]
            n = len(re.findall(r"\{(?::\?)?\}", key))
            if n != len(y[2]) - 1 or key.count("{") != n or key.count("}") != n:
                raise Rs2vError("format string %r" % key)
            for a in y[2][1:]:
                self.ex(a, env)                 # the interpolated values must be pure expressions
            if key not in texts:
                raise Rs2vError("error text %r has no model error code" % key)
            return texts[key]
        return super().err_payload(x, env)

    def result(self, e, env, ctx):
        vt = self.cfg.get("value_result")
        if vt is not None:
            if ctx.get("loop"):
                raise Rs2vError("return inside a loop of a value function")

            def fin(e2, env2):
                if e2[0] == "num":
                    return self.num(e2, vt, env2)
                t = self.type_of(e2, env2)
                if t != vt:
                    raise Rs2vError("result of type %s, expected %s" % (t, vt))
                return self.ex(e2, env2)
            return self.hoist(e, env, ctx, fin)
        return super().result(e, env, ctx)

    # ---- `continue`
    def is_continue(self, e, env):
        return e == CONTINUE and "continue" not in env

    def do_continue(self, env, ctx):
        if not ctx.get("loop") or self._pack is None:
            raise Rs2vError("continue outside a loop")
        return self.cfg["step"]["cont"] % self._pack(env)

    def effect(self, e, env, cont, ctx):
        if self.is_continue(e, env):
            return self.do_continue(env, ctx)
        return super().effect(e, env, cont, ctx)

    def tail(self, e, env, k, ctx):
        if self.is_continue(e, env):
            return self.do_continue(env, ctx)
        return super().tail(e, env, k, ctx)

    # ---- match on a data-carrying enum
    def match_(self, e, env, k, ctx):
        s = e[1]
        while s[0] in ("ref", "refmut"):
            s = s[1]
        lv = self.lvalue(s)
        if lv is not None and self.has(env, lv):
            t = self.get(env, lv)[0]
            if isinstance(t, str) and t in self.cfg.get("data_enums", {}):
                return self.match_data(lv, e[2], env, k, ctx)
        return super().match_(e, env, k, ctx)

    def match_data(self, lv, arms, env, k, ctx):
        t, term = self.get(env, lv)
        if isinstance(term, dict):
            raise Rs2vError("match on %s" % lv)
        self.plain(term, lv)
        variants = self.cfg["data_enums"][t]
        named, wild = self.classify_arms(arms)
        known = set("%s::%s" % (t, v["rust"]) for v in variants)
        for name in named:
            if name not in known:
                raise Rs2vError("match arm %s on the enum %s" % (name, t))
        out = ["match %s with" % term]
        for v in variants:
            key = "%s::%s" % (t, v["rust"])
            fields = self.cfg["structs"][v["payload"]]["fields"] if v["payload"] else []
            if key in named:
                subs, body = named[key]
                env2 = dict(env)
                if v["payload"] is None:
                    if subs:
                        raise Rs2vError("pattern %s with fields" % key)
                    pat = v["coq"]
                else:
                    if len(subs) != 1:
                        raise Rs2vError("pattern %s with %d fields" % (key, len(subs)))
                    if subs[0] and subs[0] in env:
                        raise Rs2vError("pattern variable %s shadows a local" % subs[0])
                    vs = [self.newvar(f) for f, _ft in fields]
                    pat = " ".join([v["coq"]] + vs)
                    if subs[0]:
                        env2[subs[0]] = (T_struct(v["payload"]), {f: (ft, x) for (f, ft), x in zip(fields, vs)})
                out += ["| %s =>" % pat, self.arm(body, env2, k, ctx)]
            elif wild is not None:
                out += ["| %s =>" % " ".join([v["coq"]] + ["_"] * len(fields)), self.arm(wild, dict(env), k, ctx)]
            else:
                raise Rs2vError("no match arm for %s" % key)
        out.append("end")
        return "\n".join(out)

    # ---- `for x in a..b` with the loop variable in use
    def loop2(self, s, env, cont, ctx):
        lc = self.cfg.get("loop")
        if s[0] == "for" and lc and lc.get("kind") == "range":
            return self.loop_range(s, env, cont, ctx)
        return super().loop2(s, env, cont, ctx)

    def loop_range(self, s, env, cont, ctx):
        if ctx.get("loop"):
            raise Rs2vError("nested loop")
        if self.loops:
            raise Rs2vError("more than one loop")
        lc = self.cfg["loop"]
        pat, it, body = s[1], s[2], s[3]
        if not (it[0] == "bin" and it[1] == ".."):
            raise Rs2vError("loop iterator %r" % (it,))
        bounds = []
        for b in (it[2], it[3]):
            if b[0] != "num" and self.type_of(b, env) != Ty.NAT:
                raise Rs2vError("range bound of type %s" % (self.type_of(b, env),))
            bounds.append(self.plain(self.num(b, Ty.NAT, env), "range bound"))
        lo, hi = bounds
        if pat in env or pat == "_":
            raise Rs2vError("loop variable %s" % pat)
        state = lc["state"]
        for n in state:
            if not self.has(env, n) or isinstance(self.get(env, n)[1], dict):
                raise Rs2vError("loop state variable %s is not in scope" % n)
        for a in sorted(self.assigned_names(body)):
            root = a.split(".")[0]
            if a == "?":
                raise Rs2vError("the loop assigns to something that is not a variable")
            if root == pat:
                raise Rs2vError("the loop assigns its own variable")
            if root in env and not any(a == n or a.startswith(n + ".") for n in state):
                raise Rs2vError("the loop assigns %s, which is not part of the configured state (%s)" % (a, ", ".join(state)))

        def close(tv):
            t, term = tv
            if isinstance(term, dict):
                return (t, {f: close(x) for f, x in term.items()})
            return (t, term if (term != POISON and self.is_closed(term)) else POISON)
        benv = {n: close(tv) for n, tv in env.items()}
        svars = []
        for n in state:
            v = self.newvar(n)
            svars.append(v)
            benv = self.set(benv, n, (self.get(env, n)[0], v))
        name = "%s_body" % self.cfg["coq_name"]
        call = "(%s%s)" % (name, (" " + self.cfg["fn_args"]) if self.cfg.get("fn_args") else "")
        fmt = lc["pack"]

        def pack(env_):
            return fmt % tuple(self.plain(self.get(env_, n)[1], n) for n in state)
        item = self.newvar(pat)
        benv[pat] = (Ty.NAT, item)
        stp = self.cfg["step"]
        self._pack = pack
        body_term = self.run(body[1], body[2], benv, lambda env2, v=None: stp["cont"] % pack(env2), {"loop": True})
        self._pack = None
        if POISON in body_term:
            raise Rs2vError("the loop body uses a local of the enclosing function that is not available to it")
        self.loops.append((name, "Definition %s%s (st : %s) (%s : nat) : %s :=\nmatch st with\n| %s =>\n%s\nend.\n" % (
            name, (" " + self.cfg["fn_params"]) if self.cfg.get("fn_params") else "",
            lc["state_type"], item, stp["type"], fmt % tuple(svars), body_term)))
        avars = [self.newvar(n) for n in state]
        env_after = env
        for n, v in zip(state, avars):
            env_after = self.set(env_after, n, (self.get(env, n)[0], v))
        drive = "%s %s (%s - %s)%%nat %s %s" % (lc["driver"], call, hi, lo, lo, pack(env))
        return self.cfg["res"]["consume"] % {"drive": drive, "pat": fmt % tuple(avars), "after": cont(env_after)}


# =================================================================================================
# Collections wave, builder B20 (first client: lib/gen/collections_gen.py — mutate_list / mutate_map / mutate_set of
# duckscript_sdk/src/utils/state.rs and the `run` functions of the native collection commands).  Purely additive: nothing
# above this line is changed.  The parser extends PCmd; the executor FnColl is a NEW class: continuation passing like
# FnCmd, but with a HEAP threaded through the continuations, so that values behind `&mut` (the handle table, the Vec /
# HashMap / HashSet a closure works on, `let mut` locals) can be mutated at any point of an expression.
#
#   PColl / parse_fn_coll / parse_run_coll
#       generic functions `fn f<F>(..) -> T where F: FnMut(..) -> R { .. }` (the generic names and the text of the where
#       clause are kept: the configuration checks the closure type), closures with a block body `|list| { .. }`, the open
#       range `a..` inside an index (`&v[1..]`), `for (a, b) in e`; otherwise the PCmd grammar
#   FnColl  symbolic executor.  Every Rust value is a CollV (type, Coq term, what is statically known: a literal text, the
#       static prefix / suffix of a formatted message, a known constructor Some / None / Ok / Err / StateValue::X).
#     * variables live in CELLS: env maps a name to a cell, the heap maps a cell to its current value; `&mut x` is a
#       reference to x's cell, a method that mutates its receiver writes the cell (the cell of the variable, or the cell a
#       reference points to); every continuation receives the heap as it is at that point, so every branch of a decision
#       tree carries its own state and an early `return` sees all mutations made before it;
#     * control flow (`if` / `else if`, `match` on Option / Result / StateValue, early `return`, `if let`, blocks as values,
#       tuple `let`) copies the continuation into the branches; a `match` / `if` on a statically known value is decided
#       here; a `match` on a StateValue taken from the handle table becomes a `match` over the MODEL's constructors (given
#       by cfg["enums"]): several Rust arms that the model folds into one constructor (the ten non-collection arms ->
#       HOther) are told apart by an inner `match <discriminator> ..` emitted only when the source names one of them;
#     * every operation that can unwind is an explicit arm ending in ctx["panic"]: `v[<literal>]` on the argument vector,
#       `&v[1..]`, `list[i]`, `list[i] = e`, `list.remove(i)`, checked `+` / `-` (cfg["arith"]) ...;
#     * `A | B => e` is one arm per alternative; nested constructor patterns `Some(StateValue::List(l)) => e` are regrouped
#       into a `match` per level (first-match order kept);
#     * free helper functions (cfg["helpers"]) are inlined at the call (their `return` is the call's value);
#     * a closure passed to a translated callee (cfg["callees"]) becomes a Coq function from the value behind its `&mut`
#       parameter to `option (result * new value)` (None = the closure panicked); the call becomes a `match` on the
#       callee's outcome whose Done arm continues with the new heap; a closure-typed PARAMETER is such a Coq function and
#       calling it is a `match` with a panic arm;
#     * `for x in ITER { .. }` whose body is straight-line and mutates exactly one cell is `fold_left (fun acc x => ..) ITER
#       init` on that cell;
#     * what a method / path / constructor / macro MEANS is the configuration's (cfg["methods"], cfg["paths"],
#       cfg["ctors"], cfg["macros"], cfg["index"], cfg["index_assign"], cfg["iter"], cfg["compare"]): the executor knows
#       nothing about std or the SDK; a call the configuration does not list is Rs2vError.
#   Everything not understood raises Rs2vError.
class PColl(PCmd):
    generics = ()
    where = None

    def type_text_to(self, stops):
        """skip a type up to one of the tokens in stops at depth 0, returning its text"""
        a, depth = self.i, 0
        while True:
            t = self.peek()
            if t[0] == "eof":
                raise Rs2vError("eof in type")
            if depth == 0 and t in stops:
                break
            if t[0] == "op" and t[1] in ("<", "(", "["):
                depth += 1
            elif t[0] == "op" and t[1] in (">", ")", "]"):
                if depth == 0:
                    break
                depth -= 1
            self.i += 1
        return "".join(str(t[1]) for t in self.t[a:self.i])

    def fn(self):
        """fn name[<G, ..>]([&[mut]] self, params) [-> type] [where ..] block"""
        while not self.at("id", "fn"):
            if self.at("eof"):
                raise Rs2vError("eof looking for fn")
            self.i += 1
        self.eat("id", "fn")
        name = self.eat("id")
        gens = []
        if self.opt("op", "<"):
            depth = 1
            while depth:
                t = self.peek()
                if t[0] == "eof":
                    raise Rs2vError("eof in generics")
                if t == ("op", "<"):
                    depth += 1
                elif t == ("op", ">"):
                    depth -= 1
                elif t[0] == "id" and depth == 1:
                    gens.append(t[1])
                self.i += 1
        self.generics = tuple(gens)
        self.eat("op", "(")
        if self.at("op", "&") and (self.peek(1) == ("id", "self") or
                                   (self.peek(1) == ("id", "mut") and self.peek(2) == ("id", "self"))):
            self.i += 1
            self.receiver = "mut" if self.opt("id", "mut") else "ref"
            self.eat("id", "self")
            self.opt("op", ",")
        elif self.at("id", "self") or (self.at("id", "mut") and self.peek(1) == ("id", "self")):
            self.opt("id", "mut")
            self.eat("id", "self")
            self.receiver = "own"
            self.opt("op", ",")
        params = []
        while not self.at("op", ")"):
            self.opt("id", "mut")
            pn = self.eat("id")
            self.eat("op", ":")
            params.append((pn, self.type_text_to((("op", ","),))))
            self.opt("op", ",")
        self.eat("op", ")")
        if self.opt("op", "->"):
            self.ret_type = self.type_text_to((("id", "where"), ("op", "{")))
        if self.at("id", "where"):
            a = self.i + 1
            while not self.at("op", "{"):
                if self.at("eof"):
                    raise Rs2vError("eof in where clause")
                self.i += 1
            self.where = "".join(str(t[1]) for t in self.t[a:self.i])
        return name, params, self.block()

    def unary(self, no_struct):
        if self.at("op", "|") or self.at("op", "||"):
            names = []
            if not self.opt("op", "||"):
                self.eat("op", "|")
                while not self.at("op", "|"):
                    self.opt("op", "&")
                    self.opt("id", "mut")
                    names.append(self.eat("id"))
                    if self.at("op", ":"):
                        raise Rs2vError("closure parameter with a type annotation")
                    if not self.opt("op", ","):
                        break
                self.eat("op", "|")
            if self.at("op", "{"):
                return ("closure", names, self.block())
            return ("closure", names, self.expr(no_struct=no_struct))
        return super().unary(no_struct)

    def expr(self, lvl=0, no_struct=False):
        if lvl < len(self.PREC) and self.PREC[lvl] == ("..",):
            l = self.expr(lvl + 1, no_struct)
            while self.at("op", ".."):
                self.i += 1
                if self.at("op", "]") or self.at("op", ")"):
                    return ("rangefrom", l)
                l = ("bin", "..", l, self.expr(lvl + 1, no_struct))
            return l
        return super().expr(lvl, no_struct)

    def pattern(self):
        """pattern [| pattern ..]; a sub-pattern of a constructor pattern may be a constructor pattern itself"""
        p = self.pattern1()
        if self.at("op", "|"):
            alts = [p]
            while self.opt("op", "|"):
                alts.append(self.pattern1())
            return ("or", alts)
        return p

    def pattern1(self):
        a = self.peek()
        if a == ("id", "_"):
            self.i += 1
            return ("wild",)
        if a[0] in ("char", "str", "num"):
            self.i += 1
            return (a[0], a[1])
        self.opt("id", "ref")
        self.opt("id", "mut")
        path = [self.eat("id")]
        while self.opt("op", "::"):
            path.append(self.eat("id"))
        sub = []
        if self.opt("op", "("):
            while not self.at("op", ")"):
                if self.opt("id", "_"):
                    sub.append(None)
                else:
                    save = self.i
                    self.opt("id", "ref")
                    self.opt("id", "mut")
                    t = self.peek()
                    if t[0] == "id" and (t[1][:1].islower() or t[1][:1] == "_") and self.peek(1) not in (("op", "::"), ("op", "(")):
                        sub.append(self.eat("id"))
                    else:
                        self.i = save
                        sub.append(self.pattern1())
                self.opt("op", ",")
            self.eat("op", ")")
        return ("ctor", path, sub)

    def stmt(self):
        if self.at("id", "for") and self.peek(1) == ("op", "("):
            self.i += 2
            names = []
            while not self.at("op", ")"):
                self.opt("id", "mut")
                names.append(self.eat("id"))
                if not self.opt("op", ","):
                    break
            self.eat("op", ")")
            self.eat("id", "in")
            it = self.expr(no_struct=True)
            return ("for", tuple(names), it, self.block())
        return super().stmt()


def parse_fn_coll(src, name):
    """a free function of a file, PColl grammar -> ([(param, type text)], return type text, generic names, where text, body)"""
    ms = list(re.finditer(r"^(?:pub(?:\([a-z]+\))?\s+)?fn\s+%s\s*[<(]" % re.escape(name), src, re.M))
    if len(ms) != 1:
        raise Rs2vError("fn %s: %d definitions" % (name, len(ms)))
    p = PColl(lex(src[ms[0].start():], stop_after_item=True))
    _n, params, body = p.fn()
    if p.receiver is not None:
        raise Rs2vError("fn %s has a receiver" % name)
    return params, p.ret_type, p.generics, p.where, body


def parse_run_coll(src, trait="Command", type_name="CommandImpl", name="run"):
    """`fn run` of `impl Command for CommandImpl { .. }`, PColl grammar -> (receiver, [(param, type text)], body)"""
    ms = list(re.finditer(r"^\s*impl\s+%s\s+for\s+%s\s*\{" % (re.escape(trait), re.escape(type_name)), src, re.M))
    if len(ms) != 1:
        raise Rs2vError("impl %s for %s: %d blocks" % (trait, type_name, len(ms)))
    body = balanced_block(src, ms[0].end() - 1)
    fs = list(re.finditer(r"\bfn\s+%s\s*\(" % re.escape(name), body))
    if len(fs) != 1:
        raise Rs2vError("fn %s: %d definitions in impl %s for %s" % (name, len(fs), trait, type_name))
    p = PColl(lex(body[fs[0].start():], stop_after_item=True))
    _n, params, blk = p.fn()
    return p.receiver, params, blk


class _NoTerm:
    def __str__(self):
        raise Rs2vError("a value that exists only statically (no Coq term) is used where a term is needed")
    __repr__ = __str__
    __format__ = lambda self, spec: self.__str__()


NO_TERM = _NoTerm()


class CollV:
    """a symbolic Rust value: ty (a name or a tuple: ("opt", T) / ("res", T, E) / ("list", T) / ("iter", T) / ("ref", cell) /
    ("fn", ..)), term (Coq text or None for values that exist only statically), lit (text of a string literal, or the static
    prefix of a formatted message whose static suffix is suf), known (("Some", v) / ("None",) / ("Ok", v) / ("Err", v) /
    (<enum constructor>, payload) / a Python bool), items (tuple components, closure parts, payload marks), enc (how an
    UNKNOWN Option / Result is spelled in Coq: the pair of patterns of cfg["encodings"])"""
    __slots__ = ("ty", "term", "lit", "suf", "known", "items", "enc")

    def __init__(self, ty, term=None, lit=None, suf=None, known=None, items=None, enc=None):
        # a value without a term must never end up in the generated text: NO_TERM refuses to be formatted
        self.ty, self.term, self.lit, self.suf, self.known, self.items, self.enc = \
            ty, (NO_TERM if term is None else term), lit, suf, known, items, enc

    @property
    def has_term(self):
        return self.term is not NO_TERM

    def __repr__(self):
        return "CollV(%r, %s)" % (self.ty, self.term if self.has_term else "<no term>")


COLL_HOLE = "\0HOLE"


class FnColl:
    """cfg keys:
      fields        {(rust name, field): CollV}                     `context.arguments`, `context.state`
      args_term     Coq term of the argument vector
      ctors         {rust path: f(fn, [CollV], expect) -> CollV}     CommandResult::Continue, HashMap::new is a path
      paths         {rust path: f(fn, [CollV], h, k, ctx, expect) -> Coq term}     free / associated functions with effects
      methods       {(type tag, method): f(fn, recv CollV, cell or None, [CollV], h, k, ctx, turbofish, expect) -> Coq term}
      macros        {name: f(fn, [arg exprs], env, h, k, ctx, expect) -> Coq term}
      index         f(fn, base CollV, index expr, env, h, k, ctx) -> Coq term           v[i]
      index_assign  f(fn, base CollV, cell, index CollV, value CollV, h, k, ctx) -> Coq term    v[i] = e
      iter          f(fn, CollV, h) -> CollV(("iter", T), term)       what a `for` iterates over
      enums         {ty: [(model pattern fmt, [(rust ctor, payload ty or None, discriminator ctor or None)], discriminator fmt or None)]}
      compare       {ty: {"<": fmt, "<=": fmt, "==": fmt}}
      arith         {(ty, op): checked function name}               result option: None is the panic arm
      literal       {ty: fmt % int}
      types         f(type text) -> ty
      helpers       {name: ([(param, type text)], return type text, body)}
      coq_type      f(ty) -> Coq type text
      encodings     {name: (good pattern fmt, bad pattern fmt, bad payload ty or None)}   e.g. "option": ("Some %s", "None", None)
    """

    def __init__(self, cfg):
        self.cfg = cfg
        self.names = {}
        self.argcache = {}
        self.ncell = 0

    # ---- small helpers
    def fresh(self, base):
        base = "v_" + re.sub(r"[^A-Za-z0-9_]", "_", str(base))
        n = self.names.get(base, 0)
        self.names[base] = n + 1
        return base if n == 0 else "%s_%d" % (base, n)

    def cell(self):
        self.ncell += 1
        return self.ncell

    def bind(self, env, h, name, v):
        c = self.cell()
        env2, h2 = dict(env), dict(h)
        env2[name] = c
        h2[c] = v
        return env2, h2

    @staticmethod
    def is_ref(v):
        return isinstance(v.ty, tuple) and v.ty[0] == "ref"

    def deref(self, v, h):
        while self.is_ref(v):
            v = h[v.ty[1]]
        return v

    def place(self, e, env, h):
        """the cell a place expression names (a variable, `&mut variable`), following references; None otherwise"""
        while e[0] in ("ref", "refmut"):
            e = e[1]
        if e[0] == "path" and len(e[1]) == 1 and e[1][0] in env:
            c = env[e[1][0]]
            while self.is_ref(h[c]):
                c = h[c].ty[1]
            return c
        return None

    @staticmethod
    def write(h, c, v):
        h2 = dict(h)
        h2[c] = v
        return h2

    def ty_of_text(self, text):
        return None if text is None else self.cfg["types"](text)

    def match2(self, scrut, pat1, body1, pat2, body2):
        return "match %s with\n| %s =>\n%s\n| %s =>\n%s\nend" % (scrut, pat1, cmd_indent(body1, 4), pat2, cmd_indent(body2, 4))

    def matchn(self, scrut, arms):
        return "match %s with\n%s\nend" % (scrut, "\n".join("| %s =>\n%s" % (p, cmd_indent(b, 4)) for p, b in arms))

    def ite(self, c, a, b):
        return "if %s\nthen\n%s\nelse\n%s" % (c, cmd_indent(a), cmd_indent(b))

    def literal(self, v, ty):
        if v.ty != "intlit":
            return v
        if ty not in self.cfg["literal"]:
            raise Rs2vError("integer literal used at type %r" % (ty,))
        return CollV(ty, self.cfg["literal"][ty] % v.items)

    def unify(self, a, b):
        if a.ty == "intlit" and b.ty != "intlit":
            a = self.literal(a, b.ty)
        elif b.ty == "intlit" and a.ty != "intlit":
            b = self.literal(b, a.ty)
        elif a.ty == "intlit" and b.ty == "intlit":
            raise Rs2vError("operation on two integer literals")
        if a.ty != b.ty:
            raise Rs2vError("operands of different types %r / %r" % (a.ty, b.ty))
        return a, b

    def straight(self, e, env, h, ctx, expect=None, block=False):
        """execute an expression / block that must be free of control flow and of panicking operations: (value, heap after)"""
        box = []

        def k(v, h2):
            box.append((v, h2))
            return COLL_HOLE

        def no_ret(v, h2):
            raise Rs2vError("`return` where straight-line code is required")
        ctx2 = dict(ctx)
        ctx2["ret"] = no_ret
        t = self.block(e, env, h, k, ctx2, expect) if block else self.ex(e, env, h, k, ctx2, expect)
        if t != COLL_HOLE or len(box) != 1:
            raise Rs2vError("control flow or a panicking operation where straight-line code is required")
        return box[0]

    # ---- the whole function
    def function(self, body, params, heap, ctx):
        """params {rust name: CollV} (bound to fresh cells), heap {cell: CollV} the cells that exist before (state components)"""
        env, h = {}, dict(heap)
        for n, v in params.items():
            env, h = self.bind(env, h, n, v)
        return self.block(body, env, h, ctx["ret"], ctx, ctx.get("ret_type"))

    # ---- blocks and statements
    def block(self, b, env, h, k, ctx, expect=None):
        if b is None:
            return k(CollV("unit"), h)
        if b[0] != "block":
            return self.ex(b, env, h, k, ctx, expect)
        return self.stmts(list(b[1]), b[2], env, h, k, ctx, expect)

    def stmts(self, ss, tail, env, h, k, ctx, expect):
        if not ss:
            if tail is None:
                return k(CollV("unit"), h)
            return self.ex(tail, env, h, k, ctx, expect)
        s, rest = ss[0], ss[1:]
        kind = s[0]
        if kind == "let":
            name, e = s[1], s[2]
            ty = self.ty_of_text(s[3]) if len(s) > 3 else None

            def k_let(v, h1):
                if ty is not None:
                    v = self.ascribe(v, ty)
                env2, h2 = self.bind(env, h1, name, v)
                return self.stmts(rest, tail, env2, h2, k, ctx, expect)
            return self.ex(e, env, h, k_let, ctx, ty)
        if kind == "lettuple":
            names, e = s[1], s[2]

            def k_tup(v, h1):
                if v.ty != "tuple" or len(v.items) != len(names):
                    raise Rs2vError("let (%s) = a value that is not such a tuple" % ", ".join(names))
                env2, h2 = env, h1
                for n, x in zip(names, v.items):
                    env2, h2 = self.bind(env2, h2, n, x)
                return self.stmts(rest, tail, env2, h2, k, ctx, expect)
            return self.ex(e, env, h, k_tup, ctx, None)
        if kind == "return":
            if s[1] is None:
                return ctx["ret"](CollV("unit"), h)
            return self.ex(s[1], env, h, ctx["ret"], ctx, ctx.get("ret_type"))
        if kind == "for":
            return self.for_(s, env, h, lambda h1: self.stmts(rest, tail, env, h1, k, ctx, expect), ctx)
        if kind == "assign":
            return self.assign(s, env, h, lambda h1: self.stmts(rest, tail, env, h1, k, ctx, expect), ctx)
        if kind == "expr":
            # the value of an expression statement is dropped (Rust: `e;`)
            return self.ex(s[1], env, h, lambda v, h1: self.stmts(rest, tail, env, h1, k, ctx, expect), ctx, None)
        raise Rs2vError("statement %s" % kind)

    def ascribe(self, v, ty):
        if v.ty == "intlit":
            return self.literal(v, ty)
        if isinstance(ty, tuple) and isinstance(v.ty, tuple) and ty[0] == v.ty[0] and None in (ty[1:] + v.ty[1:]):
            return v
        if v.ty != ty:
            raise Rs2vError("let of type %r bound to a value of type %r" % (ty, v.ty))
        return v

    def assign(self, s, env, h, k_next, ctx):
        _, lhs, op, rhs = s
        if op != "=":
            raise Rs2vError("assignment operator %s" % op)
        if lhs[0] == "index":
            c = self.place(lhs[1], env, h)
            if c is None:
                raise Rs2vError("assignment to an element of something that is not a variable")

            def k_ix(ix, h1):
                def k_v(v, h2):
                    return self.cfg["index_assign"](self, h2[c], c, ix, v, h2, lambda v3, h3: k_next(h3), ctx)
                return self.ex(rhs, env, h1, k_v, ctx, None)
            return self.ex(lhs[2], env, h, k_ix, ctx, None)
        c = self.place(lhs, env, h) if lhs[0] == "path" else None
        if c is None:
            raise Rs2vError("assignment to something that is not a variable")
        return self.ex(rhs, env, h, lambda v, h1: k_next(self.write(h1, c, v)), ctx, None)

    def for_(self, s, env, h, k_next, ctx):
        """for x in ITER { straight-line body that mutates exactly one cell }  ->  fold_left on that cell"""
        _, pat, it, body = s
        if not isinstance(pat, str):
            raise Rs2vError("for over a tuple pattern")

        def k_it(itv, h1):
            itv = self.cfg["iter"](self, self.deref(itv, h1), h1)
            x = self.fresh(pat)
            env_b, h_b = self.bind(env, h1, pat, CollV(itv.ty[1], x))
            _v, h_out = self.straight(body, env_b, h_b, ctx, block=True)
            changed = [c for c in h1 if h_out[c] is not h1[c]]
            if not changed:
                return k_next(h1)
            if len(changed) > 1:
                raise Rs2vError("for loop that mutates several variables")
            c = changed[0]
            acc = self.fresh("acc")
            h_b2 = self.write(h_b, c, CollV(h_out[c].ty, acc))
            _v, h_out2 = self.straight(body, env_b, h_b2, ctx, block=True)
            if [cc for cc in h1 if h_out2[cc] is not h_b2[cc]] != [c]:
                raise Rs2vError("for loop whose body does not act uniformly")
            new = h_out2[c]
            term = "(fold_left (fun (%s : %s) (%s : %s) => %s) %s %s)" % (
                acc, self.cfg["coq_type"](new.ty), x, self.cfg["coq_type"](itv.ty[1]), new.term, itv.term, h1[c].term)
            return k_next(self.write(h1, c, CollV(new.ty, term)))
        return self.ex(it, env, h, k_it, ctx, None)

    # ---- expressions
    def ex(self, e, env, h, k, ctx, expect=None):
        kind = e[0]
        if kind == "str":
            return k(CollV("str", coq_str_lit(e[1]), lit=e[1], suf=e[1], known="lit"), h)
        if kind == "num":
            v = CollV("intlit", None, items=e[1])
            if isinstance(expect, str) and expect in self.cfg["literal"]:
                v = self.literal(v, expect)
            return k(v, h)
        if kind == "bool":
            return k(CollV("bool", "true" if e[1] else "false", known=e[1]), h)
        if kind == "path":
            return self.path(e, env, h, k, ctx, expect)
        if kind == "refmut":
            c = self.place(e[1], env, h)
            if c is not None:
                return k(CollV(("ref", c)), h)
            return self.ex(e[1], env, h, k, ctx, expect)
        if kind == "ref":
            return self.ex(e[1], env, h, k, ctx, expect)
        if kind == "not":
            def k_not(v, h1):
                if v.ty != "bool":
                    raise Rs2vError("! on %r" % (v.ty,))
                if isinstance(v.known, bool):
                    return k(CollV("bool", "false" if v.known else "true", known=not v.known), h1)
                return k(CollV("bool", "(negb %s)" % v.term), h1)
            return self.ex(e[1], env, h, k_not, ctx, "bool")
        if kind == "tuple":
            return self.seq(e[1], env, h, lambda vs, h1: k(CollV("unit") if not vs else CollV("tuple", items=vs), h1), ctx)
        if kind == "bin":
            return self.bin(e, env, h, k, ctx)
        if kind == "field":
            if e[1][0] == "path" and len(e[1][1]) == 1 and (e[1][1][0], e[2]) in self.cfg["fields"]:
                return k(self.cfg["fields"][(e[1][1][0], e[2])], h)
            raise Rs2vError("field .%s" % e[2])
        if kind == "index":
            return self.ex(e[1], env, h, lambda b, h1: self.cfg["index"](self, self.deref(b, h1), e[2], env, h1, k, ctx), ctx, None)
        if kind == "call":
            return self.call(e, env, h, k, ctx, expect)
        if kind == "mcall":
            return self.mcall(e, env, h, k, ctx, expect)
        if kind == "macro":
            m = self.cfg["macros"].get(e[1])
            if m is None:
                raise Rs2vError("macro %s!" % e[1])
            return m(self, e[2], env, h, k, ctx, expect)
        if kind == "if":
            return self.if_(e, env, h, k, ctx, expect)
        if kind == "iflet":
            arms = [(e[1], e[3]), (("wild",), e[4] if e[4] is not None else ("block", [], None))]
            return self.match(("match", e[2], arms), env, h, k, ctx, expect)
        if kind == "match":
            return self.match(e, env, h, k, ctx, expect)
        if kind == "block":
            return self.block(e, env, h, k, ctx, expect)
        if kind == "closure":
            return k(CollV("closure", items=(e[1], e[2], env)), h)
        raise Rs2vError("expression %s" % kind)

    def seq(self, es, env, h, k, ctx, expects=None):
        """evaluate expressions left to right"""
        def go(i, acc, h1):
            if i == len(es):
                return k(acc, h1)
            return self.ex(es[i], env, h1, lambda v, h2: go(i + 1, acc + [v], h2), ctx, expects[i] if expects else None)
        return go(0, [], h)

    def path(self, e, env, h, k, ctx, expect):
        p = e[1]
        if len(p) == 1 and p[0] in env:
            return k(h[env[p[0]]], h)
        if p == ["None"]:
            inner = expect[1] if isinstance(expect, tuple) and expect[0] in ("opt", "wrap") else None
            return k(CollV(("opt", inner), "None", known=("None",)), h)
        raise Rs2vError("name %s" % "::".join(p))

    CMP = {"<": ("<", False, False), "<=": ("<=", False, False), ">": ("<", True, False), ">=": ("<=", True, False),
           "==": ("==", False, False), "!=": ("==", False, True)}

    def bin(self, e, env, h, k, ctx):
        op = e[1]
        if op in ("&&", "||"):
            def k_l(a, h1):
                if a.ty != "bool":
                    raise Rs2vError("%s on %r" % (op, a.ty))

                def k_r(b, h2):
                    if b.ty != "bool":
                        raise Rs2vError("%s on %r" % (op, b.ty))
                    return k(b, h2)
                short = CollV("bool", "false" if op == "&&" else "true", known=(op == "||"))
                if isinstance(a.known, bool):
                    return self.ex(e[3], env, h1, k_r, ctx, "bool") if a.known == (op == "&&") else k(short, h1)
                go_on, stop = self.ex(e[3], env, h1, k_r, ctx, "bool"), k(short, h1)
                return self.ite(a.term, go_on, stop) if op == "&&" else self.ite(a.term, stop, go_on)
            return self.ex(e[2], env, h, k_l, ctx, "bool")
        if op == "..":
            def k_rng(vs, h1):
                a, b = self.unify(self.deref(vs[0], h1), self.deref(vs[1], h1))
                return k(CollV(("range", a.ty), items=[a, b]), h1)
            return self.seq([e[2], e[3]], env, h, k_rng, ctx)

        def k_ops(vs, h1):
            a, b = self.unify(self.deref(vs[0], h1), self.deref(vs[1], h1))
            if op not in self.CMP:
                f = self.cfg.get("arith", {}).get((a.ty, op))
                if f is None:
                    raise Rs2vError("%s on %r" % (op, a.ty))
                x = self.fresh("n")
                return self.match2("%s %s %s" % (f, a.term, b.term), "Some %s" % x, k(CollV(a.ty, x), h1), "None", ctx["panic"])
            base, swap, neg = self.CMP[op]
            fm = self.cfg["compare"].get(a.ty, {}).get(base)
            if fm is None:
                raise Rs2vError("%s on %r" % (op, a.ty))
            t = fm % ((b.term, a.term) if swap else (a.term, b.term))
            return k(CollV("bool", "(negb %s)" % t if neg else t), h1)
        return self.seq([e[2], e[3]], env, h, k_ops, ctx)

    def if_(self, e, env, h, k, ctx, expect):
        def k_c(c, h1):
            if c.ty != "bool":
                raise Rs2vError("if on %r" % (c.ty,))
            if isinstance(c.known, bool):
                return self.block(e[2] if c.known else e[3], env, h1, k, ctx, expect)
            return self.ite(c.term, self.block(e[2], env, h1, k, ctx, expect), self.block(e[3], env, h1, k, ctx, expect))
        return self.ex(e[1], env, h, k_c, ctx, "bool")

    # ---- match
    def arm_for(self, arms, ctor):
        """the first arm that takes constructor ctor: (binder name / None / ("%whole", name), body)"""
        for pat, body in arms:
            if pat[0] == "wild":
                return None, body
            if pat[0] == "ctor" and pat[1][-1] == ctor and (pat[2] or ctor[:1].isupper()):
                if len(pat[2]) > 1:
                    raise Rs2vError("%s pattern with %d sub-patterns" % (ctor, len(pat[2])))
                return (pat[2][0] if pat[2] else None), body
            if pat[0] == "ctor" and not pat[2] and len(pat[1]) == 1 and pat[1][0][:1].islower():
                return ("%whole", pat[1][0]), body            # a variable pattern binds the whole value
        raise Rs2vError("match without an arm for %s" % ctor)

    def names_ctor(self, arms, ctor):
        return any(pat[0] == "ctor" and pat[1][-1] == ctor for pat, _b in arms)

    def parse_hint(self, arms, expect):
        for pat, body in arms:
            if pat[0] == "ctor" and pat[1][-1] == "Ok" and len(pat[2]) == 1 and pat[2][0] is not None:
                v = pat[2][0]
                if body == ("path", [v]) and expect is not None and not isinstance(expect, tuple):
                    return ("wrap", expect)
                if body[0] == "call" and body[1] == ("path", ["Ok"]) and body[2] == [("path", [v])] \
                        and isinstance(expect, tuple) and expect[0] == "res":
                    return ("wrap", expect[1])
        return None

    def run_arm(self, arms, ctor, whole, payload, env, h, k, ctx, expect):
        name, body = self.arm_for(arms, ctor)
        env2, h2 = env, h
        if isinstance(name, tuple):
            env2, h2 = self.bind(env, h, name[1], whole)
        elif name is not None:
            if payload is None:
                raise Rs2vError("pattern variable %s for a value without a payload" % name)
            env2, h2 = self.bind(env, h, name, payload)
        return self.block(body, env2, h2, k, ctx, expect)

    def normal_arms(self, arms):
        """alternatives `A | B => e` become one arm each; arms with a NESTED constructor pattern `C(D(x)) => e` are grouped
        per outer constructor into `C(t) => match t { D(x) => e, .. }` (first-match order kept; a later `_` arm of the outer
        match also closes the inner one)"""
        flat = []
        for pat, body in arms:
            if pat[0] == "or":
                flat += [(p, body) for p in pat[1]]
            else:
                flat.append((pat, body))

        def nested(pat):
            return pat[0] == "ctor" and any(isinstance(x, tuple) for x in pat[2])
        if not any(nested(pat) for pat, _b in flat):
            return flat
        out, grouped = [], set()
        for i, (pat, body) in enumerate(flat):
            c = pat[1][-1] if pat[0] == "ctor" else None
            if c is not None and c in grouped:
                continue
            if not nested(pat):
                out.append((pat, body))
                continue
            if len(pat[2]) != 1:
                raise Rs2vError("nested pattern of a constructor with %d fields" % len(pat[2]))
            grouped.add(c)
            self.ntmp = getattr(self, "ntmp", 0) + 1
            tmp = "m_%d" % self.ntmp
            inner = []
            for p2, b2 in flat[i:]:
                if p2[0] == "wild":
                    inner.append((p2, b2))
                    break
                if p2[0] != "ctor":
                    raise Rs2vError("literal pattern next to nested patterns")
                if not p2[2] and len(p2[1]) == 1 and p2[1][0][:1].islower():
                    raise Rs2vError("variable pattern next to nested patterns")
                if p2[1][-1] != c:
                    continue
                x = p2[2][0] if p2[2] else None
                if isinstance(x, tuple):
                    inner.append((x, b2))
                    continue
                inner.append((("wild",) if x is None else ("ctor", [x], []), b2))
                break
            out.append((("ctor", pat[1], [tmp]), ("match", ("path", [tmp]), inner)))
        return out

    def match(self, e, env, h, k, ctx, expect):
        arms = self.normal_arms(e[2])
        hint = self.parse_hint(arms, expect)

        def k_s(v0, h1):
            v = self.deref(v0, h1)
            t = v.ty
            tag = t[0] if isinstance(t, tuple) else t
            if tag in ("opt", "res"):
                good, bad = ("Some", "None") if tag == "opt" else ("Ok", "Err")
                if v.known is not None:
                    return self.run_arm(arms, v.known[0], v, v.known[1] if len(v.known) > 1 else None, env, h1, k, ctx, expect)
                gp, bp, bad_ty = self.cfg["encodings"][v.enc or "option"]
                gname, _ = self.arm_for(arms, good)
                x = self.fresh(gname if isinstance(gname, str) else "x")
                good_body = self.run_arm(arms, good, v, CollV(t[1], x), env, h1, k, ctx, expect)
                if "%s" in bp:
                    bname, _ = self.arm_for(arms, bad)
                    y = self.fresh(bname if isinstance(bname, str) else "e")
                    bad_body = self.run_arm(arms, bad, v, CollV(bad_ty, y), env, h1, k, ctx, expect)
                    return self.match2(v.term, gp % x, good_body, bp % y, bad_body)
                bad_body = self.run_arm(arms, bad, v, None if tag == "opt" else CollV(t[2]), env, h1, k, ctx, expect)
                return self.match2(v.term, gp % x, good_body, bp, bad_body)
            if t in self.cfg["enums"]:
                if v.known is not None and v.known != "lit":
                    return self.run_arm(arms, v.known[0], v, v.known[1] if len(v.known) > 1 else None, env, h1, k, ctx, expect)
                out = []
                for pat_fmt, rust_ctors, disc_fmt in self.cfg["enums"][t]:
                    if len(rust_ctors) == 1:
                        ctor, pty, _d = rust_ctors[0]
                        name, _b = self.arm_for(arms, ctor)
                        x = self.fresh(name if isinstance(name, str) else ctor.lower())
                        payload = CollV(pty, x) if pty is not None else None
                        out.append((pat_fmt % x, self.run_arm(arms, ctor, v, payload, env, h1, k, ctx, expect)))
                        continue
                    # several Rust constructors behind one constructor of the model
                    if not any(self.names_ctor(arms, c) for c, _p, _d in rust_ctors):
                        # the source does not tell them apart either (a catch-all arm takes them all)
                        out.append((pat_fmt % "_", self.run_arm(arms, rust_ctors[0][0], v, None, env, h1, k, ctx, expect)))
                        continue
                    x = self.fresh("tag")
                    inner = []
                    for ctor, _pty, disc in rust_ctors:
                        payload = CollV(("payload", ctor), None, items=(t, x))
                        inner.append((disc, self.run_arm(arms, ctor, v, payload, env, h1, k, ctx, expect)))
                    out.append((pat_fmt % x, self.matchn(disc_fmt % x, inner)))
                return self.matchn(v.term, out)
            raise Rs2vError("match on a value of type %r" % (t,))
        return self.ex(e[1], env, h, k_s, ctx, hint)

    # ---- calls
    def call(self, e, env, h, k, ctx, expect):
        if e[1][0] != "path":
            raise Rs2vError("call of a computed function")
        p = "::".join(e[1][1])
        if p in ("Some", "Ok", "Err"):
            if len(e[2]) != 1:
                raise Rs2vError("%s with %d arguments" % (p, len(e[2])))
            inner = None
            if isinstance(expect, tuple) and expect[0] in ("opt", "res", "wrap"):
                inner = expect[2] if (p == "Err" and expect[0] == "res") else expect[1]

            def k_ctor(v, h1):
                if p == "Some":
                    return k(CollV(("opt", v.ty), None, known=("Some", v)), h1)
                other = expect[2 if p == "Ok" else 1] if isinstance(expect, tuple) and expect[0] == "res" else None
                return k(CollV(("res", v.ty, other) if p == "Ok" else ("res", other, v.ty), None, known=(p, v)), h1)
            return self.ex(e[2][0], env, h, k_ctor, ctx, inner)
        if len(e[1][1]) == 1 and p in env:
            f = self.deref(h[env[p]], h)
            if not (isinstance(f.ty, tuple) and f.ty[0] == "fn"):
                raise Rs2vError("call of %s, which is not a function" % p)
            return self.seq(e[2], env, h, lambda vs, h1: self.cfg["call_fn"](self, f, vs, h1, k, ctx), ctx)
        if p in self.cfg["helpers"]:
            params, ret_text, body = self.cfg["helpers"][p]
            if len(params) != len(e[2]):
                raise Rs2vError("call of %s with %d arguments" % (p, len(e[2])))
            ret = self.ty_of_text(ret_text)

            def k_args(vs, h1):
                henv, h2 = {}, h1
                for (pn, _pt), v in zip(params, vs):
                    henv, h2 = self.bind(henv, h2, pn, v)
                hctx = dict(ctx)
                hctx["ret"], hctx["ret_type"] = k, ret
                return self.block(body, henv, h2, k, hctx, ret)
            return self.seq(e[2], env, h, k_args, ctx)
        c = self.cfg["ctors"].get(p)
        if c is not None:
            return self.seq(e[2], env, h, lambda vs, h1: k(c(self, [self.deref(v, h1) for v in vs], expect), h1), ctx)
        f = self.cfg["paths"].get(p)
        if f is None:
            raise Rs2vError("call of %s" % p)
        return self.seq(e[2], env, h, lambda vs, h1: f(self, vs, h1, k, ctx, expect), ctx)

    IDENT = ("clone", "to_owned", "as_str", "as_ref", "borrow", "to_string")

    def mcall(self, e, env, h, k, ctx, expect):
        recv, name, args = e[1], e[2], e[3]
        tf = e[4] if len(e) > 4 else None

        def k_r(r0, h1):
            c = r0.ty[1] if self.is_ref(r0) else self.place(recv, env, h1)
            while c is not None and self.is_ref(h1[c]):
                c = h1[c].ty[1]
            r = self.deref(r0, h1)
            tag = r.ty[0] if isinstance(r.ty, tuple) else r.ty
            if name in self.IDENT and not args and (tag, name) not in self.cfg["methods"] and tag in self.cfg["ident_types"]:
                return k(r, h1)
            if name in ("is_some", "is_none") and tag == "opt" and not args:
                if r.known is not None:
                    b = (r.known[0] == "Some") == (name == "is_some")
                    return k(CollV("bool", "true" if b else "false", known=b), h1)
                raise Rs2vError("%s on an Option that is not statically known" % name)
            m = self.cfg["methods"].get((tag, name))
            if m is None:
                raise Rs2vError("method %s on a value of type %r" % (name, r.ty))
            return self.seq(args, env, h1, lambda vs, h2: m(self, self.deref(h2[c], h2) if c is not None else r, c,
                                                            [v if v.ty == "closure" else self.deref(v, h2) for v in vs],
                                                            h2, k, ctx, tf, expect), ctx)
        return self.ex(recv, env, h, k_r, ctx, None)

    # ---- closures as Coq functions
    def closure_fun(self, clo, param_ty, h, finish, panic, ret_type):
        """`|x| body` as `fun x : T => tree`: x is the value behind the closure's `&mut` parameter; finish(fn, v, new x) is a
        leaf; a closure that mutates anything else is not understood"""
        names, body, cenv = clo.items
        if len(names) != 1:
            raise Rs2vError("closure of %d parameters" % len(names))
        x = self.fresh(names[0])
        env2, h2 = self.bind(cenv, h, names[0], CollV(param_ty, x))
        c = env2[names[0]]

        def ret(v, h3):
            for cc in h:
                if h3[cc] is not h[cc]:
                    raise Rs2vError("closure that mutates a captured variable")
            return finish(self, self.deref(v, h3), h3[c])
        cctx = {"ret": ret, "panic": panic, "ret_type": ret_type}
        saved = self.argcache
        self.argcache = dict(saved)
        try:
            term = self.block(body, env2, h2, ret, cctx, ret_type)
        finally:
            self.argcache = saved
        return "(fun %s : %s =>\n%s)" % (x, self.cfg["coq_type"](param_ty), cmd_indent(term))
# =================================================================================================
# Sub-state wave, builder B26 (first client: lib/gen/flowfor_gen.py — forin/mod.rs of the SDK's flow control: functions that
# work on `state: &mut HashMap<String, StateValue>` through string-keyed SUB-STATE maps into which typed records are
# serialised).  Purely additive: nothing above this line is changed.  The grammar is PColl's (parse_fn_coll / parse_run_coll);
# the executor FnSub is a NEW class.
#
#   SubV    a Rust value: its type, its Coq term (None when it has no Coq counterpart) and what is statically KNOWN about it: a
#           literal, a known constructor (Some / None / Ok / Err / StateValue::X / CommandResult::X ..) with known arguments, a
#           struct literal with known fields, a HashMap local with known content (closed: built from HashMap::new(); open:
#           unknown other keys), a map that is exactly the serialisation of a record (cfg["abstract"]), a PLACE inside the
#           abstract state.
#   FnSub   symbolic executor in continuation-passing style with an ABSTRACT STATE threaded through the continuations:
#     * the abstract state is a list of named CELLS (cfg["cells"]: Coq projections of one state record, cfg["state_mk"] builds
#       it; cfg["extra"]: cells outside the record, e.g. the variable map of a command context); every continuation receives
#       the cells as they are at that point, so every branch carries its own state and an early `return` sees all writes made
#       before it; a function's result is `cfg["ret"](value term, cells)`;
#     * what a free function / method / constructor MEANS is the configuration's: cfg["calls"] (handlers that get the argument
#       ASTs, the environment, the cells and the continuation: they may emit a `match`, update cells, bind locals behind
#       `&mut`), cfg["fns"] (the other translated functions: a call becomes `gbind (gen_f args state) (fun '(r, gs') => ..)`),
#       cfg["inline"] (helpers executed at the call site — used by the client to RUN serialise / deserialise pairs on symbolic
#       records and check that they are mutually inverse), cfg["place_methods"], cfg["struct_methods"], cfg["ctors"];
#     * control flow: `if` / `else if`, `match` (a scrutinee whose constructor is statically known is decided here, nested and
#       `|` patterns included; an unknown Option / Result / bool becomes a Coq `match` / `if` with the continuation copied into
#       the arms), `if let`, early `return`, blocks as values, `||` / `&&` whose right operand can unwind become branches;
#     * every operation that can unwind is an explicit arm ending in cfg["panic"]: `arguments[<literal>]` (bound once per path),
#       `list[i]`;
#     * `loop { .. }` as the last statement of a function whose only exits are `return`s: the body becomes a Coq function of
#       the state record to `GVal (LNext | LRet r, state)`, driven by `gloop <fuel>` with cfg["loop_fuel"] (out of fuel is a
#       distinct outcome); locals declared before the loop are captured (they must not be assigned inside);
#     * in CHECK mode (cfg["check"]) nothing may depend on an unknown value: any emitted branch is an error.
#   Everything not understood raises Rs2vError.
class SubV:
    __slots__ = ("ty", "term", "known")

    def __init__(self, ty, term=None, known=None):
        self.ty, self.term, self.known = ty, term, known

    def __repr__(self):
        return "SubV(%r, %r, %r)" % (self.ty, self.term, self.known)


def sub_strip_ref(e):
    while e[0] in ("ref", "refmut"):
        e = e[1]
    return e


class FnSub:
    CLONES = ("clone", "to_string", "to_owned", "as_str", "to_str", "as_ref", "borrow", "into")

    def __init__(self, cfg):
        self.cfg = cfg
        self.n = 0
        self.check = bool(cfg.get("check"))
        self.leaves = []

    # ---- small helpers --------------------------------------------------------------------------------------------
    def fresh(self, base):
        self.n += 1
        b = re.sub(r"\W", "_", base).strip("_") or "x"
        return "%s_%d" % (b, self.n)

    def unit(self):
        return SubV("unit", "tt")

    def boolv(self, b):
        return SubV("bool", known=("bool", bool(b)))

    def branching(self, what):
        if self.check:
            raise Rs2vError("check mode: the outcome depends on a value that is not statically known (%s)" % what)

    def term(self, v):
        k = v.known
        if k is not None:
            if k[0] == "lit":
                return coq_str_lit(k[1])
            if k[0] == "num":
                return "%d%%nat" % k[1]
            if k[0] == "bool":
                return "true" if k[1] else "false"
            if k[0] == "ctor":
                name, args = k[1], k[2]
                if name == "Some":
                    return "(Some %s)" % self.term(args[0])
                if name == "None":
                    return "None"
                if name == "Ok":          # Result<T, E> is kept as `option T`: the error payload has no Coq counterpart
                    return "(Some %s)" % self.term(args[0])
                if name == "Err":
                    return "None"
                h = self.cfg.get("ctor_term")
                if h:
                    return h(self, v)
                raise Rs2vError("no Coq spelling for the constructor %s" % name)
            if k[0] == "struct":
                spec = self.cfg["structs"].get(v.ty[1])
                if not spec or "mk" not in spec:
                    raise Rs2vError("no Coq record for struct %s" % (v.ty[1],))
                return spec["mk"] % tuple(self.term(k[1][f]) for f, _t in spec["fields"])
        if v.term is None:
            raise Rs2vError("a value of type %s that has no Coq counterpart is used" % (v.ty,))
        return v.term

    # ---- abstract state -------------------------------------------------------------------------------------------
    def state0(self, base):
        return {"base": base, "cells": {c: None for c, _p in self.cfg["cells"]}, "extra": dict(self.cfg.get("extra", {}))}

    def cell(self, st, c):
        if c in st["extra"]:
            return st["extra"][c]
        t = st["cells"][c]
        if t is not None:
            return t
        return "(%s %s)" % (dict(self.cfg["cells"])[c], st["base"])

    def set_cell(self, st, c, term):
        st2 = {"base": st["base"], "cells": dict(st["cells"]), "extra": dict(st["extra"])}
        if c in st2["extra"]:
            st2["extra"][c] = term
        else:
            st2["cells"][c] = term
        return st2

    def state_term(self, st):
        if all(t is None for t in st["cells"].values()):
            return st["base"]
        return self.cfg["state_mk"] % tuple(self.cell(st, c) for c, _p in self.cfg["cells"])

    # ---- environment ----------------------------------------------------------------------------------------------
    @staticmethod
    def leave(outer, now, restore=()):
        out = {}
        for n in outer:
            if n in restore:
                out[n] = outer[n]
            elif n in now:
                out[n] = now[n]
        for n in now:
            if n.startswith("%"):
                out[n] = now[n]
        return out

    def path(self, names, env):
        if len(names) == 1:
            n = names[0]
            if n in env:
                return env[n]
            if n == "None":
                return SubV(("opt", None), known=("ctor", "None", []))
            if n in self.cfg.get("statics", {}):
                return SubV("str", known=("lit", self.cfg["statics"][n]))
        j = "::".join(names)
        if j in self.cfg.get("statics", {}):
            return SubV("str", known=("lit", self.cfg["statics"][j]))
        if names[-1] in self.cfg.get("qualified_statics", {}) and len(names) > 1:
            return SubV("str", known=("lit", self.cfg["qualified_statics"][names[-1]]))
        raise Rs2vError("unknown name %s" % j)

    def field(self, v, f):
        if v.ty in ("ctx", "self"):
            tab = self.cfg.get(v.ty + "_fields", {})
            if f not in tab:
                raise Rs2vError("field %s of the %s is not available to the model" % (f, "invocation context" if v.ty == "ctx" else "command"))
            return tab[f]
        if isinstance(v.ty, tuple) and v.ty[0] == "struct":
            if v.known is not None and v.known[0] == "struct":
                if f not in v.known[1]:
                    raise Rs2vError("struct %s has no field %s" % (v.ty[1], f))
                return v.known[1][f]
            spec = self.cfg["structs"].get(v.ty[1])
            if not spec or f not in dict(spec["fields"]):
                raise Rs2vError("struct %s has no field %s" % (v.ty[1], f))
            return SubV(dict(spec["fields"])[f], spec["proj"][f] % self.term(v))
        raise Rs2vError("field %s of a %s" % (f, v.ty))

    # ---- expressions ----------------------------------------------------------------------------------------------
    def ex_list(self, es, env, st, k, ctx):
        def go(i, acc, env1, st1):
            if i == len(es):
                return k(acc, env1, st1)
            return self.ex(es[i], env1, st1, lambda v, e2, s2: go(i + 1, acc + [v], e2, s2), ctx)
        return go(0, [], env, st)

    def ex(self, e, env, st, k, ctx):
        t = e[0]
        if t == "str":
            return k(SubV("str", known=("lit", e[1])), env, st)
        if t == "num":
            return k(SubV("nat", known=("num", e[1])), env, st)
        if t == "bool":
            return k(self.boolv(e[1]), env, st)
        if t == "tuple":
            if e[1]:
                raise Rs2vError("tuple value")
            return k(self.unit(), env, st)
        if t in ("ref", "refmut"):
            return self.ex(e[1], env, st, k, ctx)
        if t == "path":
            return k(self.path(e[1], env), env, st)
        if t == "field":
            return self.ex(e[1], env, st, lambda v, e2, s2: k(self.field(v, e[2]), e2, s2), ctx)
        if t == "index":
            return self.ex_index(e, env, st, k, ctx)
        if t == "mcall":
            return self.ex_mcall(e, env, st, k, ctx)
        if t == "call":
            return self.ex_call(e, env, st, k, ctx)
        if t == "struct":
            name = e[1][-1]
            spec = self.cfg["structs"].get(name)
            if spec is None:
                raise Rs2vError("struct literal %s" % name)
            want = [f for f, _t in spec["fields"]]
            got = [f for f, _x in e[2]]
            if sorted(want) != sorted(got):
                raise Rs2vError("struct literal %s with fields %s (declared: %s)" % (name, got, want))

            def kf(vals, e2, s2):
                fields = {}
                for (f, _x), v in zip(e[2], vals):
                    wt = dict(spec["fields"])[f]
                    if not self.ty_ok(v.ty, wt):
                        raise Rs2vError("field %s of %s: a %s where a %s is declared" % (f, name, v.ty, wt))
                    fields[f] = v
                return k(SubV(("struct", name), known=("struct", fields)), e2, s2)
            return self.ex_list([x for _f, x in e[2]], env, st, kf, ctx)
        if t == "if":
            return self.ex_if(e[1], e[2], e[3], env, st, k, ctx)
        if t == "iflet":
            arms = [(e[1], e[3]), (("wild",), e[4] if e[4] is not None else ("tuple", []))]
            return self.ex(e[2], env, st, lambda v, e2, s2: self.match_value(v, arms, e2, s2, k, ctx), ctx)
        if t == "match":
            return self.ex(e[1], env, st, lambda v, e2, s2: self.match_value(v, e[2], e2, s2, k, ctx), ctx)
        if t == "block":
            return self.block(e, env, st, k, ctx)
        if t == "bin":
            if e[1] in ("||", "&&"):
                return self.ex_logic(e[1], e[2], e[3], env, st, k, ctx)
            return self.ex_list([e[2], e[3]], env, st, lambda vs, e2, s2: k(self.binop(e[1], vs[0], vs[1]), e2, s2), ctx)
        if t == "not":
            def kn(v, e2, s2):
                if v.ty != "bool":
                    raise Rs2vError("`!` on a %s" % (v.ty,))
                if v.known is not None:
                    return k(self.boolv(not v.known[1]), e2, s2)
                return k(SubV("bool", "(negb %s)" % self.term(v)), e2, s2)
            return self.ex(e[1], env, st, kn, ctx)
        raise Rs2vError("expression %s" % t)

    def ty_ok(self, have, want):
        if have == want:
            return True
        if isinstance(have, tuple) and isinstance(want, tuple) and have[0] == want[0] == "opt":
            return have[1] is None or want[1] is None or self.ty_ok(have[1], want[1])
        if isinstance(have, tuple) and isinstance(want, tuple) and have[0] == want[0] == "res":
            return (have[1] is None or self.ty_ok(have[1], want[1])) and True
        return False

    def binop(self, op, a, b):
        if a.ty != b.ty:
            raise Rs2vError("`%s` between a %s and a %s" % (op, a.ty, b.ty))
        ka, kb = a.known, b.known
        if op in ("==", "!="):
            if ka is not None and kb is not None and ka[0] == kb[0] and ka[0] in ("lit", "num", "bool"):
                return self.boolv((ka[1] == kb[1]) == (op == "=="))
            if a.ty == "nat":
                t = "(Nat.eqb %s %s)" % (self.term(a), self.term(b))
            elif a.ty == "str":
                t = "(str_eqb %s %s)" % (self.term(a), self.term(b))
            else:
                raise Rs2vError("`%s` on %s" % (op, a.ty))
            return SubV("bool", t if op == "==" else "(negb %s)" % t)
        if op in ("<", ">", "<=", ">="):
            if a.ty != "nat":
                raise Rs2vError("`%s` on %s" % (op, a.ty))
            if ka is not None and kb is not None:
                x, y = ka[1], kb[1]
                return self.boolv({"<": x < y, ">": x > y, "<=": x <= y, ">=": x >= y}[op])
            ta, tb = self.term(a), self.term(b)
            return SubV("bool", {"<": "(Nat.ltb %s %s)" % (ta, tb), ">": "(Nat.ltb %s %s)" % (tb, ta),
                                 "<=": "(Nat.leb %s %s)" % (ta, tb), ">=": "(Nat.leb %s %s)" % (tb, ta)}[op])
        if op == "+":
            # usize on nat: overflow (2^64) is outside the model
            if a.ty != "nat":
                raise Rs2vError("`+` on %s" % (a.ty,))
            if ka is not None and kb is not None:
                return SubV("nat", known=("num", ka[1] + kb[1]))
            if kb is not None and kb[1] == 1:
                return SubV("nat", "(S %s)" % self.term(a))
            if ka is not None and ka[1] == 1:
                return SubV("nat", "(S %s)" % self.term(b))
            return SubV("nat", "(%s + %s)%%nat" % (self.term(a), self.term(b)))
        raise Rs2vError("operator %s" % op)

    def ex_logic(self, op, l, r, env, st, k, ctx):
        def kl(a, env1, st1):
            if a.ty != "bool":
                raise Rs2vError("`%s` on a %s" % (op, a.ty))
            if a.known is not None:
                if a.known[1] == (op == "||"):
                    return k(self.boolv(op == "||"), env1, st1)
                return self.ex(r, env1, st1, k, ctx)
            box = []
            self.n += 1
            sent = "\0pure%d\0" % self.n

            def cap(b, e2, s2):
                box.append((b, e2, s2))
                return sent
            saved_n = self.n
            out = self.ex(r, env1, st1, cap, ctx)
            if out == sent and len(box) == 1 and box[0][2] is st1:
                b, e2, _s2 = box[0]
                if b.ty != "bool":
                    raise Rs2vError("`%s` on a %s" % (op, b.ty))
                if b.known is not None:
                    if b.known[1] == (op == "||"):
                        return k(self.boolv(op == "||"), e2, st1)
                    return k(a, e2, st1)
                return k(SubV("bool", "(%s %s %s)" % (self.term(a), op, self.term(b))), e2, st1)
            self.n = saved_n
            self.branching("`%s` with an operand that can unwind" % op)
            if op == "||":
                return "if %s\nthen %s\nelse %s" % (self.term(a), k(self.boolv(True), env1, st1), self.ex(r, env1, st1, k, ctx))
            return "if %s\nthen %s\nelse %s" % (self.term(a), self.ex(r, env1, st1, k, ctx), k(self.boolv(False), env1, st1))
        return self.ex(l, env, st, kl, ctx)

    def ex_if(self, c, b, el, env, st, k, ctx):
        def kc(v, env1, st1):
            if v.ty != "bool":
                raise Rs2vError("`if` on a %s" % (v.ty,))

            def els(env2, st2):
                if el is None:
                    return k(self.unit(), env2, st2)
                return self.ex(el, env2, st2, k, ctx)
            if v.known is not None:
                return self.block(b, env1, st1, k, ctx) if v.known[1] else els(env1, st1)
            self.branching("if")
            return "if %s\nthen %s\nelse %s" % (self.term(v), self.block(b, env1, st1, k, ctx), els(env1, st1))
        return self.ex(c, env, st, kc, ctx)

    def ex_index(self, e, env, st, k, ctx):
        def kb(vs, env1, st1):
            base, ix = vs
            if base.ty == "args":
                if ix.known is None or ix.known[0] != "num":
                    raise Rs2vError("arguments[..] with an index that is not a literal")
                key = "%%arg%d" % ix.known[1]
                if key in env1:
                    return k(env1[key], env1, st1)
                self.branching("arguments[%d]" % ix.known[1])
                x = self.fresh("arg%d" % ix.known[1])
                env2 = dict(env1)
                env2[key] = SubV("str", x)
                return "match nth_error %s %d%%nat with\n| None => %s\n| Some %s =>\n%s\nend" % (
                    self.term(base), ix.known[1], self.cfg["panic"], x, k(env2[key], env2, st1))
            if isinstance(base.ty, tuple) and base.ty[0] == "list" and ix.ty == "nat":
                self.branching("list[i]")
                x = self.fresh("elem")
                elem = self.cfg["list_elem"](self, base.ty[1], x)
                return "match nth_error %s %s with\n| None => %s\n| Some %s =>\n%s\nend" % (
                    self.term(base), self.term(ix), self.cfg["panic"], x, k(elem, env1, st1))
            raise Rs2vError("index into a %s" % (base.ty,))
        return self.ex_list([e[1], e[2]], env, st, kb, ctx)

    def ex_mcall(self, e, env, st, k, ctx):
        recv, name, args = e[1], e[2], e[3]

        def kr(v, env1, st1):
            if name in self.CLONES and not args:
                if name in ("to_string",) and v.ty not in ("str",):
                    raise Rs2vError("to_string on a %s" % (v.ty,))
                return k(v, env1, st1)
            if v.ty == "map":
                return self.map_method(recv, v, name, args, env1, st1, k, ctx)
            if v.ty == "place":
                return self.cfg["place_methods"](self, v, name, args, env1, st1, k, ctx)
            if name == "len" and not args and (v.ty == "args" or (isinstance(v.ty, tuple) and v.ty[0] == "list")):
                return k(SubV("nat", "(length %s)" % self.term(v)), env1, st1)
            if name == "is_empty" and not args and (v.ty == "args" or (isinstance(v.ty, tuple) and v.ty[0] == "list")):
                return k(SubV("bool", "(Nat.eqb (length %s) 0%%nat)" % self.term(v)), env1, st1)
            h = self.cfg.get("methods", {}).get((v.ty if not isinstance(v.ty, tuple) else v.ty[:2], name))
            if h:
                return h(self, v, args, env1, st1, k, ctx)
            raise Rs2vError("method %s on a %s" % (name, v.ty))
        return self.ex(recv, env, st, kr, ctx)

    def map_method(self, recv, v, name, args, env, st, k, ctx):
        """HashMap<String, StateValue> locals with statically known content"""
        if v.known is None or v.known[0] != "map":
            raise Rs2vError("%s on a map whose content is not statically known" % name)
        content, closed = v.known[1], v.known[2]
        if name == "insert" and len(args) == 2:
            r = sub_strip_ref(recv)
            if r[0] != "path" or len(r[1]) != 1:
                raise Rs2vError("insert on a map that is not a local")
            var = r[1][0]

            def ki(vs, env1, st1):
                key, val = vs
                if key.known is None or key.known[0] != "lit":
                    raise Rs2vError("insert with a key that is not a literal")
                if val.ty != "sv":
                    raise Rs2vError("insert of a %s into a state map" % (val.ty,))
                cur = env1[var]
                c2 = dict(cur.known[1])
                c2[key.known[1]] = val
                env2 = dict(env1)
                env2[var] = SubV("map", known=("map", c2, cur.known[2]))
                return k(SubV("opaque"), env2, st1)
            return self.ex_list(args, env, st, ki, ctx)
        if name == "get" and len(args) == 1:
            def kg(key, env1, st1):
                if key.known is None or key.known[0] != "lit":
                    raise Rs2vError("get with a key that is not a literal")
                if key.known[1] in content:
                    return k(SubV(("opt", "sv"), known=("ctor", "Some", [content[key.known[1]]])), env1, st1)
                if closed:
                    return k(SubV(("opt", "sv"), known=("ctor", "None", [])), env1, st1)
                raise Rs2vError("get(%r) reads a key nothing is known about" % key.known[1])
            return self.ex(args[0], env, st, kg, ctx)
        raise Rs2vError("method %s on a state map" % name)

    def ex_call(self, e, env, st, k, ctx):
        f, args = e[1], e[2]
        if f[0] != "path":
            raise Rs2vError("call of a computed function")
        full, last = "::".join(f[1]), f[1][-1]
        if full in ("Some", "Ok", "Err") and len(args) == 1:
            def kc(v, e2, s2):
                ty = ("opt", v.ty) if full == "Some" else (("res", v.ty, None) if full == "Ok" else ("res", None, v.ty))
                return k(SubV(ty, known=("ctor", full, [v])), e2, s2)
            return self.ex(args[0], env, st, kc, ctx)
        ctors = self.cfg.get("ctors", {})
        if full in ctors:
            ty, arity = ctors[full]
            if len(args) != arity:
                raise Rs2vError("%s with %d arguments" % (full, len(args)))
            return self.ex_list(args, env, st, lambda vs, e2, s2: k(SubV(ty, known=("ctor", full, vs)), e2, s2), ctx)
        if full == "HashMap::new" and not args:
            return k(SubV("map", known=("map", {}, True)), env, st)
        calls = self.cfg.get("calls", {})
        h = calls.get(full) or calls.get(last)
        if h:
            return h(self, args, env, st, k, ctx)
        inl = self.cfg.get("inline", {})
        if last in inl and (len(f[1]) == 1):
            return self.inline_call(last, inl[last], args, env, st, k, ctx)
        fns = self.cfg.get("fns", {})
        if last in fns and len(f[1]) == 1:
            return self.fn_call(last, fns[last], args, env, st, k, ctx)
        raise Rs2vError("call of %s: not a function the configuration knows" % full)

    def inline_call(self, name, spec, args, env, st, k, ctx):
        params, body = spec
        if len(params) != len(args):
            raise Rs2vError("%s: %d arguments" % (name, len(args)))
        depth = ctx.get("depth", 0)
        if depth > 8:
            raise Rs2vError("%s: inlining too deep" % name)

        def ka(vals, env1, st1):
            cenv = {p: v for (p, _t), v in zip(params, vals)}

            def done(v, cenv2, st2):
                env2 = dict(env1)
                for (p, _t), a in zip(params, args):
                    a0 = sub_strip_ref(a)
                    if a0[0] == "path" and len(a0[1]) == 1 and a0[1][0] in env2 and p in cenv2 and cenv2[p] is not env2[a0[1][0]]:
                        if cenv2[p].ty in ("map",):
                            env2[a0[1][0]] = cenv2[p]
                return k(v, env2, st2)
            cctx = dict(ctx, ret=done, toplevel=False, depth=depth + 1)
            return self.block(body, cenv, st1, done, cctx)
        return self.ex_list(args, env, st, ka, ctx)

    def fn_call(self, name, spec, args, env, st, k, ctx):
        """a call of another translated function: gbind (gen_f args state) (fun '(r, gs') => ..)"""
        self.branching("call of %s" % name)
        if len(spec["params"]) != len(args):
            raise Rs2vError("%s: %d arguments" % (name, len(args)))

        def ka(vals, env1, st1):
            byname = {}
            for (p, want), v in zip(spec["params"], vals):
                if not self.ty_ok(v.ty, want):
                    raise Rs2vError("%s: the argument for %s is a %s, not a %s" % (name, p, v.ty, want))
                byname[p] = v
            terms = [self.term(byname[p]) for p in spec["order"]]
            gs = self.fresh("gs")
            r = "_" if spec["ret"] == "unit" else self.fresh("r")
            st2 = {"base": gs, "cells": {c: None for c in st1["cells"]}, "extra": dict(st1["extra"])}
            rv = self.unit() if spec["ret"] == "unit" else SubV(spec["ret"], r)
            return "gbind (%s) (fun '(%s, %s) =>\n%s)" % (
                " ".join([spec["coq"]] + terms + [self.state_term(st1)]), r, gs, k(rv, env1, st2))
        return self.ex_list(args, env, st, ka, ctx)

    # ---- patterns ---------------------------------------------------------------------------------------------------
    NULLARY = ("None", "true", "false")

    def pmatch(self, pat, v):
        """bindings (dict) when the pattern matches for sure, False when it cannot match, None when that is not known"""
        if pat[0] == "wild":
            return {}
        if pat[0] == "or":
            for a in pat[1]:
                r = self.pmatch(a, v)
                if r is None:
                    return None
                if r is not False:
                    return r
            return False
        if pat[0] in ("str", "num"):
            if v.known is not None and v.known[0] in ("lit", "num"):
                return {} if v.known[1] == pat[1] else False
            return None
        if pat[0] != "ctor":
            raise Rs2vError("pattern %r" % (pat,))
        path, subs = pat[1], pat[2]
        name = "::".join(path)
        if len(path) == 1 and not subs and name not in self.NULLARY and name[:1].islower():
            return {name: v}
        if name in ("true", "false"):
            if v.known is not None and v.known[0] == "bool":
                return {} if v.known[1] == (name == "true") else False
            return None
        if v.known is None or v.known[0] != "ctor":
            return None
        if v.known[1] != name:
            if v.known[1].split("::")[-1] == path[-1] and (len(path) == 1 or "::" not in v.known[1]):
                pass
            else:
                return False
        vals = v.known[2]
        if len(subs) != len(vals):
            raise Rs2vError("pattern %s with %d fields on a value with %d" % (name, len(subs), len(vals)))
        out = {}
        for s, x in zip(subs, vals):
            if s is None:
                continue
            if isinstance(s, str):
                out[s] = x
                continue
            r = self.pmatch(s, x)
            if r is None or r is False:
                return r
            out.update(r)
        return out

    def arm(self, body, binds, env, st, k, ctx):
        env2 = dict(env)
        env2.update(binds)
        return self.ex(body, env2, st, lambda v, e3, s3: k(v, self.leave(env, e3, restore=tuple(binds)), s3), ctx)

    def match_value(self, v, arms, env, st, k, ctx):
        undetermined = False
        for pat, body in arms:
            r = self.pmatch(pat, v)
            if r is None:
                undetermined = True
                break
            if r is False:
                continue
            return self.arm(body, r, env, st, k, ctx)
        if not undetermined:
            raise Rs2vError("no arm of the match applies")
        self.branching("match")
        if v.ty == "bool":
            t_arm = f_arm = None
            for pat, body in arms:
                if pat[0] == "wild":
                    t_arm, f_arm = t_arm or (body, {}), f_arm or (body, {})
                elif pat[0] == "ctor" and pat[1] == ["true"]:
                    t_arm = t_arm or (body, {})
                elif pat[0] == "ctor" and pat[1] == ["false"]:
                    f_arm = f_arm or (body, {})
                else:
                    raise Rs2vError("pattern on a bool")
            if not t_arm or not f_arm:
                raise Rs2vError("match on a bool that is not exhaustive")
            return "if %s\nthen %s\nelse %s" % (self.term(v), self.arm(t_arm[0], {}, env, st, k, ctx), self.arm(f_arm[0], {}, env, st, k, ctx))
        if isinstance(v.ty, tuple) and v.ty[0] in ("opt", "res"):
            yes, no = ("Some", "None") if v.ty[0] == "opt" else ("Ok", "Err")
            y_arm = n_arm = None
            for pat, body in arms:
                if pat[0] == "wild":
                    y_arm, n_arm = y_arm or (body, None), n_arm or (body, None)
                elif pat[0] == "ctor" and pat[1] == [yes] and len(pat[2]) == 1:
                    if not (pat[2][0] is None or isinstance(pat[2][0], str)):
                        raise Rs2vError("nested pattern on a value that is not statically known")
                    y_arm = y_arm or (body, pat[2][0])
                elif pat[0] == "ctor" and pat[1] == [no] and len(pat[2]) == (0 if no == "None" else 1):
                    if pat[2] and not (pat[2][0] is None or isinstance(pat[2][0], str)):
                        raise Rs2vError("nested pattern on a value that is not statically known")
                    n_arm = n_arm or (body, pat[2][0] if pat[2] else None)
                elif pat[0] == "ctor" and len(pat[1]) == 1 and not pat[2] and pat[1][0][:1].islower():
                    raise Rs2vError("binding pattern on a value that is not statically known")
                else:
                    raise Rs2vError("pattern %s on a %s" % ("::".join(pat[1]) if pat[0] == "ctor" else pat[0], v.ty[0]))
            if not y_arm or not n_arm:
                raise Rs2vError("match that is not exhaustive")
            x = self.fresh(y_arm[1] or "x")
            inner = v.ty[1]
            if inner is None:
                raise Rs2vError("match on an option of unknown type")
            yb = {y_arm[1]: SubV(inner, x)} if y_arm[1] else {}
            nb = {}
            if n_arm[1]:
                nb = {n_arm[1]: SubV(v.ty[2] if v.ty[0] == "res" and v.ty[2] else "str", None)}
            return "match %s with\n| Some %s =>\n%s\n| None =>\n%s\nend" % (
                self.term(v), x if y_arm[1] else "_", self.arm(y_arm[0], yb, env, st, k, ctx), self.arm(n_arm[0], nb, env, st, k, ctx))
        raise Rs2vError("match on a %s that is not statically known" % (v.ty,))

    # ---- blocks -------------------------------------------------------------------------------------------------------
    def block(self, b, env, st, k, ctx):
        if b[0] != "block":
            return self.ex(b, env, st, k, ctx)
        stmts, tail = b[1], b[2]
        entry = env

        def out(v, env1, st1, saved):
            return k(v, self.leave(dict(entry, **saved), env1, restore=tuple(saved)), st1)

        def run(i, env1, st1, saved):
            if i == len(stmts):
                if tail is None:
                    return out(self.unit(), env1, st1, saved)
                return self.ex(tail, env1, st1, lambda v, e2, s2: out(v, e2, s2, saved), ctx)
            s = stmts[i]
            if s[0] == "let":
                name = s[1]

                def kl(v, e2, s2):
                    sv = saved
                    if name in entry and name not in saved:
                        sv = dict(saved)
                        sv[name] = e2[name]
                    e3 = dict(e2)
                    e3[name] = v
                    return run(i + 1, e3, s2, sv)
                return self.ex(s[2], env1, st1, kl, ctx)
            if s[0] == "expr":
                return self.ex(s[1], env1, st1, lambda _v, e2, s2: run(i + 1, e2, s2, saved), ctx)
            if s[0] == "return":
                if s[1] is None:
                    return ctx["ret"](self.unit(), env1, st1)
                return self.ex(s[1], env1, st1, lambda v, e2, s2: ctx["ret"](v, e2, s2), ctx)
            if s[0] == "loop":
                if i != len(stmts) - 1 or tail is not None:
                    raise Rs2vError("statements after a `loop`")
                return self.loop(s[1], env1, st1, ctx)
            raise Rs2vError("statement %s" % s[0])
        return run(0, env, st, {})

    def loop(self, body, env, st, ctx):
        if self.check:
            raise Rs2vError("check mode: a loop")
        if not ctx.get("toplevel") or not ctx.get("loop_ok"):
            raise Rs2vError("a `loop` that is not the last statement of a translated function's body")
        gs = self.fresh("gs")
        st_in = {"base": gs, "cells": {c: None for c in st["cells"]}, "extra": dict(st["extra"])}

        def same_extra(s2):
            if s2["extra"] != st["extra"]:
                raise Rs2vError("a `loop` that writes a cell outside the state record")

        def lret(v, _e2, s2):
            same_extra(s2)
            return "GVal (LRet %s, %s)" % (ctx["ret_term"](v), self.state_term(s2))

        def lnext(_v, e2, s2):
            same_extra(s2)
            for n in env:
                if not n.startswith("%") and e2.get(n) is not env[n]:
                    raise Rs2vError("the local %s is assigned inside a `loop`" % n)
            return "GVal (LNext, %s)" % self.state_term(s2)
        lctx = dict(ctx, ret=lret, toplevel=False)
        text = self.block(body, env, st_in, lnext, lctx)
        return "gloop %s (fun %s : %s =>\n%s) %s" % (self.cfg["loop_fuel"](self, st), gs, self.cfg["state_type"], text, self.state_term(st))

    # ---- a whole function ---------------------------------------------------------------------------------------------
    def function(self, body, env, base, ret_term, result, loop_ok=True):
        """ret_term(v) -> Coq term of a returned value; result(value term, state cells) -> Coq term of the outcome"""
        st = self.state0(base)

        def ret(v, _env, st1):
            return result(ret_term(v), st1)
        ctx = {"ret": ret, "ret_term": ret_term, "toplevel": True, "loop_ok": loop_ok}
        return self.block(body, env, st, ret, ctx)

    def run_closed(self, body, env):
        """CHECK mode: execute a function body on statically known values; -> (returned value, final environment)"""
        if not self.check:
            raise Rs2vError("run_closed outside check mode")
        box = []

        def ret(v, env1, _st1):
            box.append((v, env1))
            return ""
        ctx = {"ret": ret, "ret_term": None, "toplevel": False}
        self.block(body, env, {"base": "-", "cells": {}, "extra": {}}, ret, ctx)
        if len(box) != 1:
            raise Rs2vError("check mode: %d outcomes" % len(box))
        return box[0]


# =================================================================================================
# Flow-state wave, builder B25 (first client: lib/gen/flowwhile_gen.py — duckscript_sdk/src/sdk/std/flowcontrol/while_mod/mod.rs).
# Purely additive: nothing above this line is changed.  The parser extends PCmd with the `?` operator (lex_q); the executor FnFw
# is a NEW class (continuation passing, like FnCmd / FnV) for functions that keep TYPED RECORDS in the string-keyed state map.
#
#   PFw / fw_parse_free / fw_parse_method / fw_struct_fields
#   FnFw   symbolic executor.  Every Rust value is a FwV: a Coq term with a type, or a value that exists only at translation
#          time — a struct with one FwV per field, a known Some / None / Ok / Err, a StateValue of a known variant, a LOCAL
#          HashMap with literal keys (a Python dict on a symbolic heap), a local Vec of known length, a token for a part of the
#          state.  Control flow copies the continuation into the branches (decision tree); `match` / `if` on a statically known
#          value is decided here; `return` inside an inlined helper is the value of the call.
#     * the state `&mut HashMap<String, StateValue>` is ONE Coq record (cfg["state"]: constructor, one projection per CELL).
#       Which Rust expression denotes which cell is the configuration's (cfg["calls"] handlers return tokens); the executor
#       knows two kinds of cell:
#         - a typed MAP cell (string key -> record): `get_sub_state(KEY, cell)` is a SLOT — the translation case-splits on the
#           lookup (`match aget str_eqb KEY cell with Some m => .. | None => ..`): in the Some arm the slot is the local map the
#           cell's SERIALISER writes for m, in the None arm the empty map; the code then works on that local map (get / insert
#           are executed, deserialisers are inlined and run on it); when the state is next observed as a whole (a call that
#           takes the state, the end of the function) a slot that changed must again be the image of a record, which is consed
#           in front of the cell;
#         - a typed STACK cell (list of records, head = top): `.push(v)` — v must be the image of a record under the cell's
#           serialiser — conses the record; `.pop()` case-splits on the list: Some(the serialised image of the head) / None.
#       The serialised image of a record is obtained by EXECUTING the cell's serialiser (a function of the translated file) on
#       a record of placeholders: keys, variants and nesting are read from the source on every run; every field of the record
#       must occur exactly once.
#     * other functions of the file are either INLINED at the call (cfg["inline"]: serialisers, deserialisers, constructors,
#       trait methods of the command structs — also of sibling modules, cfg["modules"]) or called BY NAME (cfg["gen_calls"]:
#       functions that are translated into their own definition; signature fixed by the configuration);
#     * callees outside the translated files are the configuration's (cfg["calls"]: python handlers that check the arguments
#       and emit the model's function / an oracle parameter);
#     * `loop { .. }` whose body only changes the state: `loop_ret (fun s => ..) FUEL s DEFAULT` (FlowwhileGenLib) with the fuel
#       and the default given by the configuration; falling off the end of the body is WCont, `return` is WRet.
#   Everything not understood raises Rs2vError; nothing is guessed.
class PFw(PCmd):
    def postfix(self, e):
        while True:
            e = PCmd.postfix(self, e)
            if self.opt("op", "?"):
                e = ("try", e)
                continue
            return e


def fw_parse_free(src, name):
    """a free function (column 0) -> ([(param, type text)], return type text, body), PFw grammar"""
    ms = list(re.finditer(r"^(?:pub(?:\([a-z]+\))?\s+)?fn\s+%s\s*\(" % re.escape(name), src, re.M))
    if len(ms) != 1:
        raise Rs2vError("fn %s: %d definitions" % (name, len(ms)))
    p = PFw(lex_q(src[ms[0].start():], stop_after_item=True))
    _n, params, body = p.fn()
    if p.receiver is not None:
        raise Rs2vError("fn %s has a receiver" % name)
    return params, p.ret_type, body


def fw_depth(text, pos):
    """brace depth of text[pos] (comments, string and char literals respected); -1 inside a literal or comment"""
    i, depth = 0, 0
    str_re = re.compile(r'"(?:\\.|[^"\\])*"', re.S)
    chr_re = re.compile(r"'(?:\\.|[^'\\])'")
    while i < pos:
        c = text[i]
        j = None
        if text.startswith("//", i):
            j = text.find("\n", i)
            j = len(text) if j < 0 else j
        elif text.startswith("/*", i):
            j = text.find("*/", i)
            j = len(text) if j < 0 else j + 2
        elif c == '"':
            mm = str_re.match(text, i)
            j = mm.end() if mm else None
        elif c == "'":
            mm = chr_re.match(text, i)
            j = mm.end() if mm else None
        if j is not None:
            if j > pos:
                return -1
            i = j
            continue
        if c == "{":
            depth += 1
        elif c == "}":
            depth -= 1
        i += 1
    return depth


def fw_parse_method(src, type_name, name, trait=None):
    """`fn name` of `impl [trait for] type_name { .. }` -> (receiver, [(param, type text)], return type text, body)"""
    head = r"^\s*impl\s+%s\s+for\s+%s\s*\{" % (re.escape(trait), re.escape(type_name)) if trait else \
        r"^\s*impl\s+%s\s*\{" % re.escape(type_name)
    ms = list(re.finditer(head, src, re.M))
    if len(ms) != 1:
        raise Rs2vError("impl %s%s: %d blocks" % ((trait + " for ") if trait else "", type_name, len(ms)))
    body = balanced_block(src, ms[0].end() - 1)
    fs = [m for m in re.finditer(r"\bfn\s+%s\s*\(" % re.escape(name), body) if fw_depth(body, m.start()) == 0]
    if len(fs) != 1:
        raise Rs2vError("fn %s: %d definitions in impl %s" % (name, len(fs), type_name))
    p = PFw(lex_q(body[fs[0].start():], stop_after_item=True))
    _n, params, blk = p.fn()
    return p.receiver, params, p.ret_type, blk


def fw_struct_fields(src, name):
    """[(field, type text)] of `struct NAME { [pub[(crate)]] f: T, .. }`"""
    ms = list(re.finditer(r"^(?:pub(?:\([a-z]+\))?\s+)?struct\s+%s\s*\{" % re.escape(name), src, re.M))
    if len(ms) != 1:
        raise Rs2vError("struct %s: %d definitions" % (name, len(ms)))
    body = re.sub(r"//[^\n]*", "", balanced_block(src, ms[0].end() - 1))
    out = []
    for part in body.split(","):
        part = part.strip()
        if not part:
            continue
        m = re.fullmatch(r"(?:pub(?:\([a-z]+\))?\s+)?(\w+)\s*:\s*(.+)", part, re.S)
        if not m:
            raise Rs2vError("struct %s: field %r" % (name, part))
        out.append((m.group(1), "".join(m.group(2).split())))
    return out


class FwV:
    """a symbolic Rust value.  k: "term" (ty, term, lit = the Python value of a literal or None) | "struct" (name, fields) |
    "opt" (tag Some / None, val) | "res" (tag Ok / Err, val) | "sv" (tag = the StateValue variant, val) | "dict" (addr) |
    "vec" (addr) | "tok" (what) | "unit" """
    __slots__ = ("k", "ty", "term", "lit", "name", "fields", "tag", "val", "addr", "what")

    def __init__(self, k, **kw):
        self.k = k
        for s in self.__slots__[1:]:
            setattr(self, s, kw.get(s))

    def __repr__(self):
        return "FwV(%s)" % ", ".join("%s=%r" % (s, getattr(self, s)) for s in self.__slots__ if getattr(self, s) is not None)


def fw_term(ty, term, lit=None):
    return FwV("term", ty=ty, term=term, lit=lit)


FW_UNIT = FwV("unit")


def fw_ind(text, n=2):
    pad = " " * n
    return "\n".join(pad + l if l else l for l in text.split("\n"))


def fw_same(a, b):
    """structural equality of two symbolic values (heap addresses compare by address)"""
    if a is b:
        return True
    if a is None or b is None or a.k != b.k:
        return False
    if a.k == "term":
        return a.term == b.term
    if a.k == "struct":
        return a.name == b.name and sorted(a.fields) == sorted(b.fields) and all(fw_same(a.fields[f], b.fields[f]) for f in a.fields)
    if a.k in ("opt", "res", "sv"):
        return a.tag == b.tag and (a.val is b.val or fw_same(a.val, b.val))
    if a.k in ("dict", "vec"):
        return a.addr == b.addr
    if a.k == "tok":
        return a.what == b.what
    return a.k == "unit"


class FwSt:
    """the symbolic machine state: env (name -> FwV), heap (addr -> dict / list), cells (cell -> Coq term), base (the Coq
    term the cells started from), slots ([(cell, key term, addr, record term or None)])"""

    def __init__(self, env, heap, cells, base, slots):
        self.env, self.heap, self.cells, self.base, self.slots = env, heap, cells, base, slots

    def copy(self):
        return FwSt(dict(self.env), {a: (dict(v) if isinstance(v, dict) else list(v)) for a, v in self.heap.items()},
                    dict(self.cells), self.base, list(self.slots))


FW_IDENT_METHODS = ("clone", "to_string", "to_owned", "as_str", "as_ref", "into", "borrow", "to_vec", "as_mut", "as_slice")


class FnFw:
    """cfg keys:
      state        {"type": coq type, "mk": "(mkWS %s %s %s %s)", "cells": [(cell, "(ws_x %s)")], "var": name of the parameter}
                   or None for functions that have no state
      structs      {Rust struct: {"fields": [f..] (order of mk), "mk": fmt, "proj": {f: fmt}, "types": {f: ty}, "coq": coq type}}
      struct_src   {Rust struct: source text it is declared in} (the field list is read from there and must agree)
      cells        {cell: {"kind": "map" | "stack", "struct": S, "ser": fn name, "put": fmt(key, rec, cell), "get": fmt(key, cell)}}
      src          text of the translated file; modules {name: text of a sibling module}; statics {NAME: FwV}
      inline       set of free functions of `src` that are executed at the call
      gen_calls    {fn: {"coq": name, "args": [..what each Rust argument must be..], "ret": ty or None, "state": "rw"|"ro"|None}}
      calls        {path text: handler(fw, args (FwV list), arg exprs, st, ctx, k) -> text}
      ctors        {path text: handler(fw, args (FwV list)) -> FwV}
      cmd_structs  {Rust struct: module name or None (= src)}: structs whose `new` / trait methods are inlined
      loop         {"fuel": fmt(state term), "default": f(fw, st) -> term}
      result       f(fw, v, st) -> coq term of the function result (given the value and the final state)"""

    def __init__(self, cfg):
        self.cfg = cfg
        self.n = 0
        self.addr = 0
        self.schemas = {}

    # ---- small helpers
    def fresh(self, hint):
        self.n += 1
        h = re.sub(r"\W", "_", hint or "v").strip("_") or "v"
        if h[0].isdigit():
            h = "v" + h
        return "%s%d" % (h, self.n)

    def new_addr(self):
        self.addr += 1
        return self.addr

    def src_of(self, module):
        if module is None:
            return self.cfg["src"]
        if module not in self.cfg.get("modules", {}):
            raise Rs2vError("module %s is not available" % module)
        return self.cfg["modules"][module]

    def strip(self, e):
        while e[0] in ("ref", "refmut") or (e[0] == "block" and not e[1] and e[2] is not None):
            e = e[1] if e[0] != "block" else e[2]
        return e

    # ---- state
    def init_state(self, env):
        sc = self.cfg.get("state")
        cells = {}
        base = None
        if sc:
            base = sc["var"]
            cells = {c: proj % base for c, proj in sc["cells"]}
        return FwSt(env, {}, cells, base, [])

    def rebase(self, st, term):
        """the state is now the Coq term `term` (a variable or an application): every cell is its projection"""
        st = st.copy()
        st.base = term
        st.cells = {c: proj % term for c, proj in self.cfg["state"]["cells"]}
        st.slots = []
        return st

    def flush(self, st):
        """write every changed slot back into its cell; the slots end here"""
        if not st.slots:
            return st
        st = st.copy()
        for cell, key, addr, orig in st.slots:
            cur = st.heap[addr]
            cc = self.cfg["cells"][cell]
            if orig is None:
                before = {}
            else:
                before = self.image_of(cell, fw_term(("struct", cc["struct"]), orig))
            if self.dict_same(cur, before, st):
                continue
            rec = self.unify(cell, cur, st)
            st.cells[cell] = cc["put"] % (key, self.to_term(rec, st), st.cells[cell])
        st.slots = []
        return st

    def state_term(self, st):
        sc = self.cfg.get("state")
        if not sc:
            raise Rs2vError("the function has no state")
        st = self.flush(st)
        if all(st.cells[c] == proj % st.base for c, proj in sc["cells"]):
            return st.base
        return sc["mk"] % tuple(st.cells[c] for c, _p in sc["cells"])

    # ---- records and their serialised images
    def struct_cfg(self, name):
        sc = self.cfg.get("structs", {}).get(name)
        if sc is None:
            raise Rs2vError("struct %s has no model type" % name)
        return sc

    def check_struct(self, name):
        sc = self.struct_cfg(name)
        src = self.cfg.get("struct_src", {}).get(name, self.cfg["src"])
        got = fw_struct_fields(src, name)
        if [f for f, _t in got] != list(sc["fields"]):
            raise Rs2vError("struct %s has fields %s, the model record has %s" % (name, [f for f, _t in got], list(sc["fields"])))
        for f, t in got:
            want = sc["rust_types"][f]
            if t != want:
                raise Rs2vError("struct %s: field %s has type %s, the model keeps a %s" % (name, f, t, want))

    def explode(self, v):
        """a struct-typed term as a struct value whose fields are projections"""
        if v.k == "struct":
            return v
        if v.k == "term" and isinstance(v.ty, tuple) and v.ty[0] == "struct":
            sc = self.struct_cfg(v.ty[1])
            return FwV("struct", name=v.ty[1], fields={f: fw_term(sc["types"][f], sc["proj"][f] % v.term) for f in sc["fields"]})
        raise Rs2vError("a struct value was expected, found %r" % (v,))

    def deep_explode(self, v):
        v = self.explode(v)
        out = {}
        for f, x in v.fields.items():
            if (x.k == "struct") or (x.k == "term" and isinstance(x.ty, tuple) and x.ty[0] == "struct"):
                out[f] = self.deep_explode(x)
            else:
                out[f] = x
        return FwV("struct", name=v.name, fields=out)

    def schema(self, cell):
        """(placeholder struct, image dict) of the cell's record type, by executing its serialiser on placeholders"""
        if cell in self.schemas:
            return self.schemas[cell]
        cc = self.cfg["cells"][cell]
        leaves = []

        def holes(name, path):
            self.check_struct(name)
            sc = self.struct_cfg(name)
            fields = {}
            for f in sc["fields"]:
                t = sc["types"][f]
                if isinstance(t, tuple) and t[0] == "struct":
                    fields[f] = holes(t[1], path + [f])
                else:
                    ph = "\0hole:%s" % ".".join(path + [f])
                    leaves.append(ph)
                    fields[f] = fw_term(t, ph)
            return FwV("struct", name=name, fields=fields)
        rec = holes(cc["struct"], [])
        img = self.run_serialiser(cc["ser"], rec)
        found = []

        def walk(d):
            for _k, x in sorted(d.items()):
                if x.k != "sv":
                    raise Rs2vError("%s stores something that is not a StateValue" % cc["ser"])
                if x.val.k == "dict":
                    walk(x.val.fields)
                elif x.val.k == "term" and x.val.term in leaves:
                    found.append(x.val.term)
                else:
                    raise Rs2vError("%s stores a value that is not a field of the record: %r" % (cc["ser"], x.val))
        walk(img)
        if sorted(found) != sorted(leaves):
            raise Rs2vError("%s does not store every field of %s exactly once (stored: %s)" % (
                cc["ser"], cc["struct"], ", ".join(x[6:] for x in found)))
        self.schemas[cell] = (rec, img)
        return self.schemas[cell]

    def run_serialiser(self, ser, rec):
        """execute `ser(&rec, &mut HashMap::new())`; the result as a frozen nested dict: key -> FwV("sv", val = term | frozen dict)"""
        params, _ret, body = fw_parse_free(self.cfg["src"], ser)
        if len(params) != 2:
            raise Rs2vError("%s: %d parameters" % (ser, len(params)))
        st = FwSt({}, {}, {}, None, [])
        a = self.new_addr()
        st.heap[a] = {}
        st.env = {params[0][0]: rec, params[1][0]: FwV("dict", addr=a)}
        out = []

        def done(st2, _v):
            out.append(self.freeze(st2.heap[a], st2))
            return ""
        ctx = {"ret": done, "loop": None, "pure": True}
        self.block(body, st, ctx, done)
        if len(out) != 1:
            raise Rs2vError("%s has %d paths (a serialiser must be straight-line code)" % (ser, len(out)))
        return out[0]

    def freeze(self, d, st):
        out = {}
        for k, x in d.items():
            if x.k == "sv" and x.val is not None and x.val.k == "dict":
                out[k] = FwV("sv", tag=x.tag, val=FwV("dict", fields=self.freeze(st.heap[x.val.addr], st)))
            else:
                out[k] = x
        return out

    def thaw(self, frozen, st, subst):
        """allocate a frozen image on the heap of st (in place), placeholders replaced through subst; returns the address"""
        a = self.new_addr()
        d = {}
        for k, x in frozen.items():
            if x.val.k == "dict":
                d[k] = FwV("sv", tag=x.tag, val=FwV("dict", addr=self.thaw(x.val.fields, st, subst)))
            else:
                d[k] = FwV("sv", tag=x.tag, val=subst(x.val))
        st.heap[a] = d
        return a

    def image_of(self, cell, rec):
        """the frozen image of a record value under the cell's serialiser"""
        ph, img = self.schema(cell)
        rec = self.deep_explode(rec)
        table = {}

        def fill(p, r):
            for f, x in p.fields.items():
                if x.k == "struct":
                    fill(x, r.fields[f])
                else:
                    table[x.term] = r.fields[f]
        fill(ph, rec)

        def sub(d):
            out = {}
            for k, x in d.items():
                if x.val.k == "dict":
                    out[k] = FwV("sv", tag=x.tag, val=FwV("dict", fields=sub(x.val.fields)))
                else:
                    out[k] = FwV("sv", tag=x.tag, val=table[x.val.term])
            return out
        return sub(img)

    def dict_same(self, cur, frozen, st):
        """is the heap dict `cur` (values may point into st.heap) the frozen image `frozen`?"""
        if sorted(cur) != sorted(frozen):
            return False
        for k, x in cur.items():
            y = frozen[k]
            if x.k != "sv" or x.tag != y.tag:
                return False
            if x.val.k == "dict":
                if y.val.k != "dict" or not self.dict_same(st.heap[x.val.addr], y.val.fields, st):
                    return False
            elif y.val.k == "dict" or not fw_same(x.val, y.val):
                return False
        return True

    def unify(self, cell, cur, st):
        """the record whose image under the cell's serialiser is the heap dict `cur`"""
        ph, img = self.schema(cell)
        cc = self.cfg["cells"][cell]
        found = {}

        def walk(c, i, where):
            if sorted(c) != sorted(i):
                raise Rs2vError("the map stored in %s has the keys %s, %s writes %s" % (where, sorted(c), cc["ser"], sorted(i)))
            for k, x in c.items():
                y = i[k]
                if x.k != "sv" or x.tag != y.tag:
                    raise Rs2vError("the map stored in %s holds %r under %r, %s writes StateValue::%s" % (where, x, k, cc["ser"], y.tag))
                if y.val.k == "dict":
                    if x.val.k != "dict":
                        raise Rs2vError("the map stored in %s: %r is not a sub-state" % (where, k))
                    walk(st.heap[x.val.addr], y.val.fields, where)
                else:
                    if x.val.k != "term" or x.val.ty != y.val.ty:
                        raise Rs2vError("the map stored in %s: the value under %r is a %r, the record keeps a %s" % (
                            where, k, x.val, y.val.ty))
                    found[y.val.term] = x.val
        walk(cur, img, cell)

        def build(p):
            return FwV("struct", name=p.name, fields={f: (build(x) if x.k == "struct" else found[x.term]) for f, x in p.fields.items()})
        return build(ph)

    # ---- Coq terms of values
    def to_term(self, v, st):
        if v.k == "term":
            if v.term.startswith("\0"):
                raise Rs2vError("a placeholder escaped")
            return v.term
        if v.k == "struct":
            sc = self.struct_cfg(v.name)
            parts = [self.to_term(v.fields[f], st) for f in sc["fields"]]
            # record eta: mk (p1 x) .. (pn x) is x
            m0 = None
            for f, p in zip(sc["fields"], parts):
                fmt = sc["proj"][f]
                pre, post = fmt.split("%s")
                if p.startswith(pre) and p.endswith(post) and len(p) > len(pre) + len(post):
                    x = p[len(pre):len(p) - len(post)]
                    if m0 is None:
                        m0 = x
                    if m0 == x and self.balanced(x):
                        continue
                m0 = False
                break
            if m0:
                return m0
            return sc["mk"] % tuple(parts)
        if v.k == "opt":
            return "None" if v.tag == "None" else "(Some %s)" % self.to_term(v.val, st)
        if v.k == "res":
            return "(%s %s)" % ("inl" if v.tag == "Ok" else "inr", self.to_term(v.val, st))
        if v.k == "vec":
            return "[" + "; ".join(self.to_term(x, st) for x in st.heap[v.addr]) + "]"
        if v.k == "unit":
            return "tt"
        raise Rs2vError("a value that has no Coq term: %r" % (v,))

    def balanced(self, x):
        d = 0
        for c in x:
            if c in "([":
                d += 1
            elif c in ")]":
                d -= 1
                if d < 0:
                    return False
        return d == 0 and (" " not in x or (x.startswith("(") and x.endswith(")")))

    def type_of(self, v):
        if v.k == "term":
            return v.ty
        if v.k == "struct":
            return ("struct", v.name)
        if v.k == "unit":
            return "unit"
        return None

    # ---- blocks and statements
    def block(self, b, st, ctx, k):
        if b[0] != "block":
            return self.ev(b, st, ctx, k)
        outer = dict(st.env)

        def leave(st2, v):
            st3 = st2.copy()
            st3.env = {n: st2.env[n] for n in outer if n in st2.env}
            return k(st3, v)
        return self.stmts(b[1], 0, b[2], st, ctx, leave, set(outer) if ctx.get("nested") else None)

    def stmts(self, ss, i, tail, st, ctx, k, outer_names):
        if i == len(ss):
            if tail is None:
                return k(st, FW_UNIT)
            return self.ev(tail, st, ctx, k)
        s = ss[i]
        nxt = lambda st2: self.stmts(ss, i + 1, tail, st2, ctx, k, outer_names)  # noqa: E731
        kind = s[0]
        if kind == "let":
            name, e = s[1], s[2]
            if outer_names is not None and name in outer_names:
                raise Rs2vError("a nested block re-declares %s" % name)

            def bound(st2, v):
                if v.k == "unit":
                    raise Rs2vError("let %s = a unit value" % name)
                st3 = st2.copy()
                st3.env[name] = v
                return nxt(st3)
            return self.ev(e, st, ctx, bound)
        if kind == "expr" and s[1] == ("path", ["continue"]) and ctx.get("continue") is not None:
            return ctx["continue"](st)
        if kind == "expr":
            return self.ev(s[1], st, ctx, lambda st2, _v: nxt(st2))
        if kind == "return":
            if s[1] is None:
                return ctx["ret"](st, FW_UNIT)
            return self.ev(s[1], st, ctx, lambda st2, v: ctx["ret"](st2, v))
        if kind == "loop":
            return self.loop(s[1], st, ctx, nxt)
        if kind == "assign" and s[2] == "=" and s[1][0] == "path" and len(s[1][1]) == 1 and s[1][1][0] in st.env:
            name = s[1][1][0]

            def assigned(st2, v):
                st3 = st2.copy()
                st3.env[name] = v
                return nxt(st3)
            return self.ev(s[3], st, ctx, assigned)
        raise Rs2vError("statement %s" % kind)

    # ---- loops
    def loop(self, body, st, ctx, nxt):
        lc = self.cfg.get("loop")
        if lc is None or ctx.get("loop") is not None or ctx.get("inline"):
            raise Rs2vError("a loop the configuration does not describe")
        sc = self.cfg["state"]
        s_in = self.state_term(st)
        st = self.flush(st)
        var = self.fresh("s")
        st_body = self.rebase(st, var)
        env_before = dict(st.env)

        def fell_off(st2, _v):
            for n, x in env_before.items():
                if n in st2.env and not fw_same(st2.env[n], x):
                    raise Rs2vError("the loop body changes the local %s" % n)
            return "WCont %s" % self.state_term(st2)
        lctx = dict(ctx)
        lctx["loop"] = True
        lctx["nested"] = True
        outer_ret = ctx["ret"]

        def ret_in_loop(st2, v):
            return "WRet %s" % self.paren(outer_ret(st2, v))
        lctx["ret"] = ret_in_loop
        lctx["continue"] = lambda st2: fell_off(st2, FW_UNIT)
        body_text = self.block(body, st_body, lctx, fell_off)
        default = lc["default"](self, st)
        # after the loop nothing runs: the loop only ends through `return`
        _ = nxt
        return "loop_ret (fun %s : %s =>\n%s)\n  %s %s %s" % (var, sc["type"], fw_ind(body_text), lc["fuel"] % s_in, s_in, default)

    def paren(self, t):
        t = t.strip()
        if "\n" in t or " " in t:
            if t.startswith("(") and t.endswith(")") and self.balanced(t[1:-1]) and self.closes(t):
                return t
            return "(" + t + ")"
        return t

    def closes(self, t):
        """is the opening parenthesis at 0 closed by the last character?"""
        d = 0
        for i, c in enumerate(t):
            if c == "(":
                d += 1
            elif c == ")":
                d -= 1
                if d == 0:
                    return i == len(t) - 1
        return False

    # ---- expressions
    def ev_list(self, es, st, ctx, k, acc=None):
        acc = acc or []
        if not es:
            return k(st, acc)
        return self.ev(es[0], st, ctx, lambda st2, v: self.ev_list(es[1:], st2, ctx, k, acc + [v]))

    def lit_str(self, s):
        return fw_term("str", coq_str_lit(s), lit=s)

    def ev(self, e, st, ctx, k):
        kind = e[0]
        if kind in ("ref", "refmut"):
            return self.ev(e[1], st, ctx, k)
        if kind == "str":
            return k(st, self.lit_str(e[1]))
        if kind == "num":
            return k(st, fw_term("nat", str(e[1]), lit=e[1]))
        if kind == "bool":
            return k(st, fw_term("bool", "true" if e[1] else "false", lit=e[1]))
        if kind == "tuple" and not e[1]:
            return k(st, FW_UNIT)
        if kind == "block":
            nctx = dict(ctx)
            nctx["nested"] = True
            return self.block(e, st, nctx, k)
        if kind == "path":
            return self.path(e[1], st, ctx, k)
        if kind == "field":
            return self.ev(e[1], st, ctx, lambda st2, v: k(st2, self.field(v, e[2])))
        if kind == "struct":
            return self.struct_lit(e, st, ctx, k)
        if kind == "macro":
            return self.macro(e, st, ctx, k)
        if kind == "call":
            return self.call(e, st, ctx, k)
        if kind == "mcall":
            return self.mcall(e, st, ctx, k)
        if kind == "if":
            return self.if_(e, st, ctx, k)
        if kind == "match":
            return self.match(e, st, ctx, k)
        if kind == "iflet":
            els = e[4] if e[4] is not None else ("block", [], None)
            return self.match(("match", e[2], [(e[1], e[3]), (("wild",), els)]), st, ctx, k)
        if kind == "bin":
            return self.bin(e, st, ctx, k)
        if kind == "not":
            def neg(st2, v):
                if v.k != "term" or v.ty != "bool":
                    raise Rs2vError("`!` on %r" % (v,))
                if isinstance(v.lit, bool):
                    return k(st2, fw_term("bool", "false" if v.lit else "true", lit=not v.lit))
                return k(st2, fw_term("bool", "(negb %s)" % v.term))
            return self.ev(e[1], st, ctx, neg)
        if kind == "try":
            def tried(st2, v):
                return self.match_value(v, [(("ctor", ["Ok"], ["%try"]), ("path", ["%try"])),
                                            (("ctor", ["Err"], ["%try"]), ("block", [("return", ("call", ("path", ["Err"]), [("path", ["%try"])]))], None))],
                                        st2, ctx, k)
            return self.ev(e[1], st, ctx, tried)
        raise Rs2vError("expression %s" % kind)

    def path(self, p, st, ctx, k):
        if len(p) == 1:
            n = p[0]
            if n in st.env:
                return k(st, st.env[n])
            if n == "None":
                return k(st, FwV("opt", tag="None"))
            if n in self.cfg.get("statics", {}):
                return k(st, self.cfg["statics"][n])
            raise Rs2vError("unknown name %s" % n)
        if len(p) == 2 and p[0] in self.cfg.get("modules", {}):
            key = "::".join(p)
            if key in self.cfg.get("statics", {}):
                return k(st, self.cfg["statics"][key])
        txt = "::".join(p)
        if txt in self.cfg.get("ctors", {}):
            return k(st, self.cfg["ctors"][txt](self, []))
        raise Rs2vError("unknown path %s" % txt)

    def field(self, v, f):
        if v.k == "struct":
            if f not in v.fields:
                raise Rs2vError("struct %s has no field %s" % (v.name, f))
            return v.fields[f]
        if v.k == "term" and isinstance(v.ty, tuple) and v.ty[0] == "struct":
            sc = self.struct_cfg(v.ty[1])
            if f not in sc["proj"]:
                raise Rs2vError("struct %s has no field %s" % (v.ty[1], f))
            return fw_term(sc["types"][f], sc["proj"][f] % v.term)
        raise Rs2vError("field %s of %r" % (f, v))

    def struct_lit(self, e, st, ctx, k):
        name = e[1][-1]
        names = [f for f, _x in e[2]]

        def built(st2, vs):
            if name in self.cfg.get("structs", {}):
                sc = self.struct_cfg(name)
                self.check_struct(name)
                if sorted(names) != sorted(sc["fields"]):
                    raise Rs2vError("struct literal %s with the fields %s" % (name, names))
            elif name in self.cfg.get("cmd_structs", {}):
                want = [f for f, _t in fw_struct_fields(self.src_of(self.cfg["cmd_structs"][name]), name)]
                if sorted(names) != sorted(want):
                    raise Rs2vError("struct literal %s with the fields %s" % (name, names))
            else:
                raise Rs2vError("struct literal of the unknown struct %s" % name)
            return k(st2, FwV("struct", name=name, fields=dict(zip(names, vs))))
        return self.ev_list([x for _f, x in e[2]], st, ctx, built)

    def macro(self, e, st, ctx, k):
        if e[1] == "vec":
            def made(st2, vs):
                st3 = st2.copy()
                a = self.new_addr()
                st3.heap[a] = list(vs)
                return k(st3, FwV("vec", addr=a))
            return self.ev_list(e[2], st, ctx, made)
        raise Rs2vError("macro %s!" % e[1])

    def bin(self, e, st, ctx, k):
        op = e[1]

        def got(st2, vs):
            a, b = vs
            if a.k != "term" or b.k != "term":
                raise Rs2vError("operator %s on %r and %r" % (op, a, b))
            if op in ("&&", "||"):
                if a.ty != "bool" or b.ty != "bool":
                    raise Rs2vError("operator %s on non-booleans" % op)
                return k(st2, fw_term("bool", "(%s %s %s)" % ("andb" if op == "&&" else "orb", a.term, b.term)))
            if op in ("==", "!="):
                if a.ty != b.ty or a.ty not in ("nat", "str", "bool"):
                    raise Rs2vError("comparison of a %s with a %s" % (a.ty, b.ty))
                f = {"nat": "Nat.eqb", "str": "str_eqb", "bool": "Bool.eqb"}[a.ty]
                t = "(%s %s %s)" % (f, a.term, b.term)
                return k(st2, fw_term("bool", t if op == "==" else "(negb %s)" % t))
            if op == "+" and a.ty == "nat" and b.ty == "nat":
                # usize addition of a line number: bounded by the instruction count (no overflow), see the client
                return k(st2, fw_term("nat", "(%s + %s)" % (a.term, b.term)))
            raise Rs2vError("operator %s on %s" % (op, a.ty))
        # the right operand of && / || must be free of effects and of case splits: then evaluating both is short-circuiting
        if op in ("&&", "||") and not self.simple(e[3]):
            raise Rs2vError("the right operand of %s is not a simple expression" % op)
        return self.ev_list([e[2], e[3]], st, ctx, got)

    def simple(self, e):
        k = e[0]
        if k in ("path", "str", "num", "bool"):
            return True
        if k in ("ref", "refmut", "not", "field"):
            return self.simple(e[1])
        if k == "bin":
            return self.simple(e[2]) and self.simple(e[3])
        if k == "mcall":
            return (e[2] in FW_IDENT_METHODS or e[2] == "is_empty") and not e[3] and self.simple(e[1])
        return False

    def if_(self, e, st, ctx, k):
        def cond(st2, c):
            if c.k != "term" or c.ty != "bool":
                raise Rs2vError("if on %r" % (c,))
            els = e[3] if e[3] is not None else ("block", [], None)
            nctx = dict(ctx)
            nctx["nested"] = True
            if isinstance(c.lit, bool):
                return self.block(e[2] if c.lit else els, st2, nctx, k)
            a = self.block(e[2], st2.copy(), nctx, k)
            b = self.block(els, st2.copy(), nctx, k)
            return "if %s\nthen\n%s\nelse\n%s" % (c.term, fw_ind(a), fw_ind(b))
        return self.ev(e[1], st, ctx, cond)

    # ---- match
    def match(self, e, st, ctx, k):
        return self.ev(e[1], st, ctx, lambda st2, v: self.match_value(v, e[2], st2, ctx, k))

    def arm(self, body, binds, st, ctx, k):
        st2 = st.copy()
        shadow = {n: st.env.get(n) for n in binds}
        st2.env.update(binds)
        nctx = dict(ctx)
        nctx["nested"] = True

        def leave(st3, v):
            st4 = st3.copy()
            for n, old in shadow.items():
                if old is None:
                    st4.env.pop(n, None)
                else:
                    st4.env[n] = old
            return k(st4, v)
        return self.block(body, st2, nctx, leave) if body[0] == "block" else self.ev(body, st2, nctx, leave)

    def pat_ctor(self, pat):
        if pat[0] != "ctor":
            return None
        return pat[1][-1], pat[2]

    def match_value(self, v, arms, st, ctx, k):
        # statically known values: the first arm that matches
        if v.k in ("opt", "res", "sv"):
            for pat, body in arms:
                if pat == ("wild",):
                    return self.arm(body, {}, st, ctx, k)
                pc = self.pat_ctor(pat)
                if pc is None:
                    raise Rs2vError("pattern %r" % (pat,))
                name, subs = pc
                if v.k == "sv" and (len(pat[1]) != 2 or pat[1][0] != "StateValue"):
                    raise Rs2vError("pattern %r on a StateValue" % (pat,))
                if name != v.tag:
                    continue
                if v.tag == "None":
                    if subs:
                        raise Rs2vError("pattern None(..)")
                    return self.arm(body, {}, st, ctx, k)
                if len(subs) != 1:
                    raise Rs2vError("pattern %r" % (pat,))
                return self.arm(body, ({subs[0]: v.val} if subs[0] else {}), st, ctx, k)
            raise Rs2vError("no arm for %s" % v.tag)
        if v.k == "term" and isinstance(v.ty, tuple) and v.ty[0] in ("opt", "res"):
            tags = ("Some", "None") if v.ty[0] == "opt" else ("Ok", "Err")
            chosen = {}
            for pat, body in arms:
                if pat == ("wild",):
                    for t in tags:
                        chosen.setdefault(t, (None, body))
                    break
                pc = self.pat_ctor(pat)
                if pc is None or pc[0] not in tags or len(pat[1]) != 1:
                    raise Rs2vError("pattern %r on an %s" % (pat, v.ty[0]))
                chosen.setdefault(pc[0], (pc[1], body))
            if sorted(chosen) != sorted(tags):
                raise Rs2vError("match on an %s without an arm for every case" % v.ty[0])
            out = []
            for t in tags:
                subs, body = chosen[t]
                if t == "None":
                    out.append("| None =>\n%s" % fw_ind(self.arm(body, {}, st.copy(), ctx, k)))
                    continue
                inner = v.ty[1] if t in ("Some", "Ok") else v.ty[2]
                binds = {}
                var = "_"
                if subs:
                    if len(subs) != 1:
                        raise Rs2vError("pattern %s with %d fields" % (t, len(subs)))
                    if subs[0]:
                        var = self.fresh(subs[0])
                        binds = {subs[0]: fw_term(inner, var)}
                elif t != "None" and subs is not None:
                    raise Rs2vError("pattern %s without a field" % t)
                coq = {"Some": "Some", "Ok": "inl", "Err": "inr"}[t]
                out.append("| %s %s =>\n%s" % (coq, var, fw_ind(self.arm(body, binds, st.copy(), ctx, k))))
            return "match %s with\n%s\nend" % (v.term, "\n".join(out))
        if len(arms) == 1 and arms[0][0] == ("wild",):
            return self.arm(arms[0][1], {}, st, ctx, k)
        raise Rs2vError("match on %r" % (v,))

    # ---- calls
    def call(self, e, st, ctx, k):
        f = self.strip(e[1])
        if f[0] != "path":
            raise Rs2vError("call of a computed function")
        p = f[1]
        txt = "::".join(p)
        last = p[-1]
        if txt in ("Some", "Ok", "Err"):
            if len(e[2]) != 1:
                raise Rs2vError("%s with %d arguments" % (txt, len(e[2])))
            return self.ev(e[2][0], st, ctx, lambda st2, v: k(st2, FwV("opt" if txt == "Some" else "res", tag=txt, val=v)))
        if txt == "HashMap::new" and not e[2]:
            st2 = st.copy()
            a = self.new_addr()
            st2.heap[a] = {}
            return k(st2, FwV("dict", addr=a))
        if txt in ("String::from", "Box::new") and len(e[2]) == 1:
            return self.ev(e[2][0], st, ctx, k)
        if txt == "String::new" and not e[2]:
            return k(st, self.lit_str(""))
        if len(p) == 2 and p[0] == "StateValue" and len(e[2]) == 1:
            return self.ev(e[2][0], st, ctx, lambda st2, v: k(st2, FwV("sv", tag=p[1], val=v)))
        ctors = self.cfg.get("ctors", {})
        if txt in ctors:
            return self.ev_list(e[2], st, ctx, lambda st2, vs: k(st2, ctors[txt](self, vs)))
        calls = self.cfg.get("calls", {})
        h = calls.get(txt) or (calls.get(last) if len(p) == 1 else None)
        if h is not None:
            return self.ev_list(e[2], st, ctx, lambda st2, vs: h(self, vs, e[2], st2, ctx, k))
        gc = self.cfg.get("gen_calls", {})
        if len(p) == 1 and last in gc:
            return self.ev_list(e[2], st, ctx, lambda st2, vs: self.gen_call(last, gc[last], vs, st2, ctx, k))
        if len(p) == 1 and last in self.cfg.get("inline", ()):
            params, _ret, body = fw_parse_free(self.cfg["src"], last)
            return self.ev_list(e[2], st, ctx, lambda st2, vs: self.inline(last, params, body, vs, None, st2, ctx, k))
        # associated functions of command structs: [module::]Struct::new(..)
        if len(p) in (2, 3) and p[-2] in self.cfg.get("cmd_structs", {}):
            module = self.cfg["cmd_structs"][p[-2]]
            if len(p) == 3 and p[0] != module:
                raise Rs2vError("%s: the struct %s lives in module %s" % (txt, p[-2], module))
            recv, params, _ret, body = fw_parse_method(self.src_of(module), p[-2], last)
            if recv is not None:
                raise Rs2vError("%s has a receiver" % txt)
            return self.ev_list(e[2], st, ctx, lambda st2, vs: self.inline(txt, params, body, vs, None, st2, ctx, k))
        raise Rs2vError("call of %s" % txt)

    def inline(self, name, params, body, args, self_v, st, ctx, k):
        if len(params) != len(args):
            raise Rs2vError("%s: %d arguments for %d parameters" % (name, len(args), len(params)))
        if ctx.get("depth", 0) >= 12:
            raise Rs2vError("%s: inlining too deep" % name)
        caller_env = st.env
        st2 = st.copy()
        st2.env = {pn: a for (pn, _t), a in zip(params, args)}
        if self_v is not None:
            st2.env["self"] = self_v

        def back(st3, v):
            st4 = st3.copy()
            st4.env = dict(caller_env)
            return k(st4, v)
        ictx = {"ret": back, "loop": None, "inline": name, "pure": ctx.get("pure"), "depth": ctx.get("depth", 0) + 1}
        return self.block(body, st2, ictx, back)

    def gen_call(self, name, gc, args, st, ctx, k):
        if len(args) != len(gc["args"]):
            raise Rs2vError("%s: %d arguments" % (name, len(args)))
        terms = []
        for a, want in zip(args, gc["args"]):
            if want == "state":
                if a.k != "tok" or a.what != "state":
                    raise Rs2vError("%s: the state argument is %r" % (name, a))
                continue
            if self.type_of(a) != want:
                raise Rs2vError("%s: an argument of type %s where %s is expected" % (name, self.type_of(a), want))
            terms.append(self.to_term(a, st))
        order = gc.get("order")
        if order:
            terms = [terms[i] for i in order]
        mode = gc.get("state")
        if mode is None:
            return k(st, fw_term(gc["ret"], "(%s %s)" % (gc["coq"], " ".join(terms))))
        s_in = self.state_term(st)
        app = "(%s %s)" % (gc["coq"], " ".join(terms + [s_in]))
        if mode == "ro":
            return k(self.flush(st), fw_term(gc["ret"], app))
        if gc["ret"] is None:
            return k(self.rebase(st, app), FW_UNIT)
        r, s2 = self.fresh("r"), self.fresh("s")
        body = k(self.rebase(st, s2), fw_term(gc["ret"], r))
        return "match %s with\n| (%s, %s) =>\n%s\nend" % (app[1:-1], r, s2, fw_ind(body))

    # ---- method calls
    def mcall(self, e, st, ctx, k):
        recv, m, args = e[1], e[2], e[3]
        r0 = self.strip(recv)
        # mutation of a local String
        if m == "push_str" and r0[0] == "path" and len(r0[1]) == 1 and r0[1][0] in st.env and len(args) == 1:
            name = r0[1][0]

            def pushed(st2, v):
                cur = st2.env[name]
                if cur.k != "term" or cur.ty != "str" or v.k != "term" or v.ty != "str":
                    raise Rs2vError("push_str of %r on %r" % (v, cur))
                st3 = st2.copy()
                st3.env[name] = fw_term("str", "(%s ++ %s)" % (cur.term, v.term))
                return k(st3, FW_UNIT)
            return self.ev(args[0], st, ctx, pushed)
        return self.ev(recv, st, ctx, lambda st2, rv: self.ev_list(args, st2, ctx, lambda st3, vs: self.method(rv, m, vs, st3, ctx, k)))

    def method(self, rv, m, args, st, ctx, k):
        if m in FW_IDENT_METHODS and not args:
            if m == "to_string" and rv.k == "term" and rv.ty == "nat":
                return k(st, fw_term("str", "(usize_str %s)" % rv.term))
            return k(st, rv)
        if m == "is_empty" and not args and rv.k == "term":
            if rv.ty == "str":
                return k(st, fw_term("bool", "(str_is_empty %s)" % rv.term))
            if isinstance(rv.ty, tuple) and rv.ty[0] == "list":
                return k(st, fw_term("bool", "(match %s with [] => true | _ :: _ => false end)" % rv.term))
        if rv.k == "vec":
            if m == "push" and len(args) == 1:
                st2 = st.copy()
                st2.heap[rv.addr].append(args[0])
                return k(st2, FW_UNIT)
            if m == "append" and len(args) == 1 and args[0].k == "vec":
                st2 = st.copy()
                st2.heap[rv.addr].extend(st2.heap[args[0].addr])
                st2.heap[args[0].addr] = []
                return k(st2, FW_UNIT)
        if rv.k == "dict":
            if m == "insert" and len(args) == 2:
                key = args[0]
                if key.k != "term" or not isinstance(key.lit, str):
                    raise Rs2vError("insert with a key that is not a literal")
                if args[1].k != "sv":
                    raise Rs2vError("insert of %r" % (args[1],))
                st2 = st.copy()
                st2.heap[rv.addr][key.lit] = args[1]
                return k(st2, FW_UNIT)
            if m == "get" and len(args) == 1:
                key = args[0]
                if key.k != "term" or not isinstance(key.lit, str):
                    raise Rs2vError("get with a key that is not a literal")
                d = st.heap[rv.addr]
                if key.lit in d:
                    return k(st, FwV("opt", tag="Some", val=d[key.lit]))
                return k(st, FwV("opt", tag="None"))
        if rv.k == "tok" and rv.what.startswith("cell:"):
            cell = rv.what[5:]
            cc = self.cfg["cells"][cell]
            if cc["kind"] == "stack" and m == "push" and len(args) == 1:
                v = args[0]
                if v.k != "sv" or v.val.k != "dict":
                    raise Rs2vError("push of %r on the %s" % (v, cell))
                if v.tag != cc["variant"]:
                    raise Rs2vError("push of a StateValue::%s on the %s" % (v.tag, cell))
                rec = self.unify(cell, st.heap[v.val.addr], st)
                st2 = st.copy()
                st2.cells[cell] = "(%s :: %s)" % (self.to_term(rec, st), st.cells[cell])
                return k(st2, FW_UNIT)
            if cc["kind"] == "stack" and m == "pop" and not args:
                hd, tl = self.fresh("e"), self.fresh("rest")
                st_some = st.copy()
                st_some.cells[cell] = tl
                frozen = self.image_of(cell, fw_term(("struct", cc["struct"]), hd))
                a = self.thaw(frozen, st_some, lambda x: x)
                some = k(st_some, FwV("opt", tag="Some", val=FwV("sv", tag=cc["variant"], val=FwV("dict", addr=a))))
                none = k(st.copy(), FwV("opt", tag="None"))          # popping the empty Vec leaves it as it is
                return "match %s with\n| %s :: %s =>\n%s\n| [] =>\n%s\nend" % (st.cells[cell], hd, tl, fw_ind(some), fw_ind(none))
        if rv.k == "struct" and rv.name in self.cfg.get("cmd_structs", {}):
            module = self.cfg["cmd_structs"][rv.name]
            src = self.src_of(module)
            try:
                recv, params, _ret, body = fw_parse_method(src, rv.name, m, trait="Command")
            except Rs2vError:
                recv, params, _ret, body = fw_parse_method(src, rv.name, m)
            if recv is None:
                raise Rs2vError("%s::%s has no receiver" % (rv.name, m))
            return self.inline("%s::%s" % (rv.name, m), params, body, args, rv, st, ctx, k)
        mh = self.cfg.get("methods", {}).get(m)
        if mh is not None:
            return mh(self, rv, args, st, ctx, k)
        raise Rs2vError("method %s on %r" % (m, rv))

    # ---- slots of a map cell
    def open_slot(self, cell, key, st, ctx, k):
        """`get_sub_state(key, <cell>)`: case split on the lookup; k(st, dict value) in both arms"""
        cc = self.cfg["cells"][cell]
        if cc["kind"] != "map":
            raise Rs2vError("%s is not a map" % cell)
        if key.k != "term" or key.ty != "str":
            raise Rs2vError("the key of %s is %r" % (cell, key))
        for c2, k2, _a, _o in st.slots:
            if c2 == cell:
                raise Rs2vError("two entries of %s are open at the same time" % cell)
        m = self.fresh("m")
        st_some = st.copy()
        frozen = self.image_of(cell, fw_term(("struct", cc["struct"]), m))
        a1 = self.thaw(frozen, st_some, lambda x: x)
        st_some.slots.append((cell, key.term, a1, m))
        some = k(st_some, FwV("dict", addr=a1))
        st_none = st.copy()
        a2 = self.new_addr()
        st_none.heap[a2] = {}
        st_none.slots.append((cell, key.term, a2, None))
        none = k(st_none, FwV("dict", addr=a2))
        return "match %s with\n| Some %s =>\n%s\n| None =>\n%s\nend" % (cc["get"] % (key.term, st.cells[cell]), m, fw_ind(some), fw_ind(none))

    # ---- a whole function
    def function(self, params_env, body, state=True):
        st = self.init_state(params_env) if state else FwSt(dict(params_env), {}, {}, None, [])

        def ret(st2, v):
            return self.cfg["result"](self, v, st2)
        ctx = {"ret": ret, "loop": None}
        return self.block(body, st, ctx, ret)


# =================================================================================================
# Function-command wave, builder B27 (client: lib/gen/flowfn_gen.py — duckscript_sdk/src/sdk/std/flowcontrol/function/mod.rs:
# FunctionCommand::run, run_call, EndFunctionCommand::run, ReturnCommand::run, push_to_call_stack, pop_from_call_stack and the
# helpers store_fn_info_in_state / get_fn_info_from_state).  Purely additive: nothing above this line is changed.  The parser
# extends PVar, the executor extends FnVar (continuation passing, decision trees, path-sensitive state cells).
#
#   strip_attributes / PFlowfn / parse_flowfn_fn / parse_flowfn_method
#       `#[..]` attributes are removed before lexing; ITEMS inside a block (`struct N { .. }`, `impl T for N { fn .. }`, as
#       FunctionCommand::run declares the call command it registers) become ("item", ..) statements; `fn run` of an impl
#       block is the one at brace depth 0 of that block (a nested impl may have its own `run`); otherwise the PVar grammar
#   FnFlowfn   executor on top of FnVar:
#     * STRUCT values: a struct literal `S { f: e, g }` is cfg["structs"][S](fn, [(field, value)], env) -> CmdV, usually a
#       value of type ("struct", S) with one CmdV per field (items); `x.f` reads that field (a struct that only has a term is
#       projected by cfg["struct_proj"]);
#     * every `let mut` local is a state cell (integers included: `i = i + 1` is an assignment to the cell); an integer
#       literal bound by `let mut` without a type is cfg["int_default"];
#     * `for x in LIST { body }` whose body changes SEVERAL cells is a `fold_left` over the tuple of the changed cells (in
#       the order the cells were created), the rest of the function runs under `match <fold> with (a, b) => ..`; a body that
#       changes one cell is the fold of that cell;
#     * total arithmetic cfg["arith_total"] ({(ty, op): fmt}: usize `+` on nat, no overflow arm) next to FnCmd's checked one;
#     * PATH REFINEMENT: after `match t with Some x => A | None => B` on a term t (and `if t then A else B`) the same term is
#       known inside A / B — a second test of it is decided here, not emitted again;
#     * ITEMS declared in a block are collected in env["%items"] (struct handlers can inspect them);
#     * helper functions can be run PROGRAMMATICALLY (run_helper) under an interception table fn.icpt that configured
#       handlers consult: this is how a serialiser is executed to find out what the string-keyed map of a typed record
#       looks like (and a deserialiser to find out which record a map denotes) — see lib/gen/flowfn_gen.py;
#     * calls: cfg["helpers"] (inlined, with the file's statics in scope: cfg["statics"]), cfg["cps_paths"], cfg["paths"],
#       then cfg["path_fallback"](fn, path string, [CmdV], expect) -> CmdV or None.
#   Everything not understood raises Rs2vError.
def strip_attributes(src):
    """remove `#[..]` / `#![..]` attributes (comments and string literals respected)"""
    out, i, n = [], 0, len(src)
    str_re = re.compile(r'"(?:\\.|[^"\\])*"', re.S)
    while i < n:
        if src.startswith("//", i):
            j = src.find("\n", i)
            j = n if j < 0 else j
            out.append(src[i:j])
            i = j
            continue
        if src.startswith("/*", i):
            j = src.find("*/", i)
            if j < 0:
                raise Rs2vError("unterminated comment")
            out.append(src[i:j + 2])
            i = j + 2
            continue
        c = src[i]
        if c == '"':
            mm = str_re.match(src, i)
            if not mm:
                raise Rs2vError("unterminated string")
            out.append(mm.group(0))
            i = mm.end()
            continue
        if c == "#" and (src.startswith("#[", i) or src.startswith("#![", i)):
            j, depth = src.index("[", i), 0
            while j < n:
                if src[j] == "[":
                    depth += 1
                elif src[j] == "]":
                    depth -= 1
                    if depth == 0:
                        break
                j += 1
            if j >= n:
                raise Rs2vError("unterminated attribute")
            i = j + 1
            continue
        out.append(c)
        i += 1
    return "".join(out)


class PFlowfn(PVar):
    def item_ahead(self):
        """the index of `struct` / `impl` when an item starts here (after an optional visibility), else None"""
        j = self.i
        if self.t[j] == ("id", "pub"):
            j += 1
            if self.t[j] == ("op", "("):
                while self.t[j] != ("op", ")"):
                    if self.t[j][0] == "eof":
                        return None
                    j += 1
                j += 1
        if self.t[j] in (("id", "struct"), ("id", "impl")) and self.t[j + 1][0] == "id":
            return j
        return None

    def stmt(self):
        j = self.item_ahead()
        if j is None:
            return super().stmt()
        self.i = j
        if self.opt("id", "struct"):
            name = self.eat("id")
            self.eat("op", "{")
            fields = []
            while not self.at("op", "}"):
                if self.opt("id", "pub") and self.opt("op", "("):
                    while not self.opt("op", ")"):
                        self.i += 1
                fname = self.eat("id")
                self.eat("op", ":")
                fields.append((fname, self.type_text()))
                if not self.opt("op", ","):
                    break
            self.eat("op", "}")
            return ("item", "struct", name, fields)
        self.eat("id", "impl")
        first = self.eat("id")
        trait, name = None, first
        if self.opt("id", "for"):
            trait, name = first, self.eat("id")
        self.eat("op", "{")
        fns = {}
        saved = (self.receiver, self.ret_type)
        while not self.at("op", "}"):
            self.receiver, self.ret_type = None, None
            fname, params, body = self.fn()
            if fname in fns:
                raise Rs2vError("impl %s: two fn %s" % (name, fname))
            fns[fname] = (self.receiver, params, self.ret_type, body)
        self.eat("op", "}")
        self.receiver, self.ret_type = saved
        return ("item", "impl", trait, name, fns)


def parse_flowfn_fn(src, name):
    """a free function of the file (column 0), PFlowfn grammar -> ([(param, type text)], return type text, body)"""
    src = strip_attributes(src)
    ms = list(re.finditer(r"^(?:pub(?:\([a-z]+\))?\s+)?fn\s+%s\s*\(" % re.escape(name), src, re.M))
    if len(ms) != 1:
        raise Rs2vError("fn %s: %d definitions" % (name, len(ms)))
    p = PFlowfn(lex(src[ms[0].start():], stop_after_item=True))
    _n, params, body = p.fn()
    if p.receiver is not None:
        raise Rs2vError("fn %s has a receiver" % name)
    return params, p.ret_type, body


def top_level_fns(body, name):
    """start offsets of `fn name(` at brace depth 0 of the text (comments and string literals respected)"""
    out, i, n, depth = [], 0, len(body), 0
    str_re = re.compile(r'"(?:\\.|[^"\\])*"', re.S)
    chr_re = re.compile(r"'(?:\\.|[^'\\])'")
    fn_re = re.compile(r"fn\s+%s\s*\(" % re.escape(name))
    while i < n:
        if body.startswith("//", i):
            j = body.find("\n", i)
            i = n if j < 0 else j
            continue
        if body.startswith("/*", i):
            j = body.find("*/", i)
            if j < 0:
                raise Rs2vError("unterminated comment")
            i = j + 2
            continue
        c = body[i]
        if c == '"':
            mm = str_re.match(body, i)
            if not mm:
                raise Rs2vError("unterminated string")
            i = mm.end()
            continue
        if c == "'":
            mm = chr_re.match(body, i)
            if mm:
                i = mm.end()
                continue
        if c == "{":
            depth += 1
        elif c == "}":
            depth -= 1
        elif c == "f" and depth == 0 and (i == 0 or not (body[i - 1].isalnum() or body[i - 1] == "_")) and fn_re.match(body, i):
            out.append(i)
        i += 1
    return out


def parse_flowfn_method(src, trait, type_name, name):
    """`fn name` (at depth 0) of `impl trait for type_name { .. }` (column 0), PFlowfn grammar
    -> (receiver, [(param, type text)], return type text, body)"""
    src = strip_attributes(src)
    ms = list(re.finditer(r"^impl\s+%s\s+for\s+%s\s*\{" % (re.escape(trait), re.escape(type_name)), src, re.M))
    if len(ms) != 1:
        raise Rs2vError("impl %s for %s: %d blocks" % (trait, type_name, len(ms)))
    body = balanced_block(src, ms[0].end() - 1)
    fs = top_level_fns(body, name)
    if len(fs) != 1:
        raise Rs2vError("fn %s: %d definitions in impl %s for %s" % (name, len(fs), trait, type_name))
    p = PFlowfn(lex(body[fs[0]:], stop_after_item=True))
    _n, params, blk = p.fn()
    return p.receiver, params, p.ret_type, blk


class FfV(CmdV):
    """a CmdV with free attributes (provenance of a map, dirty flag ..)"""
    pass


class FnFlowfn(FnVar):
    """cfg keys in addition to FnVar's:
      structs        {struct name: f(fn, [(field, CmdV)], env) -> CmdV}
      struct_proj    {struct name: {field: (ty, fmt % term)}}        fields of a struct value that only has a term
      int_default    ty of `let mut i = <integer literal>` without a type annotation
      arith_total    {(ty, op): fmt % (a, b)}
      statics        {name: CmdV}                                    in scope of every helper
      path_fallback  f(fn, path string, [CmdV], expect) -> CmdV or None
      all_fns        {name: ([(param, type text)], return type text, body)}   what run_helper can run
      consts         {rust path string: CmdV}                        constants of other modules (`end::END_COMMAND_NAME`)
    """

    def __init__(self, cfg):
        super().__init__(cfg)
        self.refine = {}
        self.icpt = {}

    # ---- path refinement, interception
    def guarded(self, f):
        saved, ref = self.st, self.refine
        try:
            return f()
        finally:
            self.st, self.refine = saved, ref

    def with_refine(self, key, val, thunk):
        old = self.refine
        self.refine = dict(old)
        self.refine[key] = val
        try:
            return thunk()
        finally:
            self.refine = old

    def run_helper(self, name, argvals, k, icpt=None):
        """inline the function `name` of cfg["all_fns"] on the given values; under the interception table icpt when given
        (the continuation runs under the table of the caller again)"""
        params, ret_text, body = self.cfg["all_fns"][name]
        if len(params) != len(argvals):
            raise Rs2vError("call of %s with %d arguments" % (name, len(argvals)))
        ret = self.ty_of_text(ret_text)
        henv = dict(self.cfg.get("statics", {}))
        henv["%decl"], henv["%frame"] = {}, 0
        for (pn, _pt), v in zip(params, argvals):
            henv[pn] = v
        outer = self.icpt

        def k2(v):
            inner = self.icpt
            self.icpt = outer
            try:
                return k(v)
            finally:
                self.icpt = inner
        if icpt is not None:
            self.icpt = dict(icpt)
            self.icpt["%outer"] = outer
        try:
            return self.block(body, henv, k2, {"ret": k2, "ret_type": ret}, ret)
        finally:
            self.icpt = outer

    def leave_icpt(self, thunk):
        """run thunk under the interception table of the caller of the running intercepted helper"""
        inner = self.icpt
        self.icpt = inner.get("%outer", {})
        try:
            return thunk()
        finally:
            self.icpt = inner

    # ---- statements
    def stmts1(self, ss, tail, env, k, ctx, expect):
        if not ss:
            return FnVar.stmts1(self, ss, tail, env, k, ctx, expect)
        s, rest = ss[0], ss[1:]
        kind = s[0]
        if kind == "item":
            env2 = dict(env)
            items = dict(env.get("%items", {}))
            items[(s[1],) + ((s[2],) if s[1] == "struct" else (s[2], s[3]))] = s
            env2["%items"] = items
            return self.stmts(rest, tail, env2, k, ctx, expect)
        if kind == "let" and len(s) > 4 and s[4]:
            name, e = s[1], s[2]
            ty = self.ty_of_text(s[3])

            def k_let(v):
                v = self.cur(v)
                if ty is not None:
                    v = self.ascribe(v, ty)
                elif v.ty == "intlit":
                    v = self.literal(v, self.cfg["int_default"])
                env2 = dict(env)
                if self.cfg["cell_types"](v.ty):
                    self.declare(env2, name, CmdV(("ref", self.new_cell(name, v))), True)
                else:
                    self.declare(env2, name, v, True)
                return self.stmts(rest, tail, env2, k, ctx, expect)
            return self.ex(e, env, k_let, ctx, ty)
        if kind == "assign":
            target, op, rhs = s[1], s[2], s[3]
            if op != "=" or target[0] != "path" or len(target[1]) != 1 or target[1][0] not in env:
                raise Rs2vError("assignment other than `local = e`")
            cell = self.cell_of(env[target[1][0]])
            if cell is None:
                raise Rs2vError("assignment to %s, which is not a `let mut` local" % target[1][0])
            cty = self.cur(env[target[1][0]]).ty

            def k_rhs(v):
                v = self.cur(v)
                if v.ty == "intlit":
                    v = self.literal(v, cty)
                if v.ty != cty or v.term is None:
                    raise Rs2vError("assignment of a value of type %r to a local of type %r" % (v.ty, cty))
                self.write(cell, v)
                return self.stmts(rest, tail, env, k, ctx, expect)
            return self.ex(rhs, env, k_rhs, ctx, cty)
        if kind == "for":
            return self.for_multi(s, env, ctx, lambda: self.stmts(rest, tail, env, k, ctx, expect))
        return FnVar.stmts1(self, ss, tail, env, k, ctx, expect)

    def for_multi(self, s, env, ctx, k_rest):
        """for x in LIST { body }: the cells the body changes become the accumulator of a fold_left"""
        _, pat, it, body = s
        if self.in_fold:
            raise Rs2vError("nested loop")
        if isinstance(pat, tuple):
            raise Rs2vError("tuple pattern in a for loop")
        item_ty, lterm = self.iterable(self.pure(it, env, ctx))
        x = self.fresh(pat)
        env_b = self.enter(env)
        self.declare(env_b, pat, CmdV(item_ty, x))

        def no_return(_v):
            raise Rs2vError("return inside a loop")
        ctx_b = {"ret": no_return, "ret_type": None}
        saved, saved_ref = self.st, self.refine
        eff = self.effects

        def run(cells, kleaf):
            self.st, self.refine = cells, {}
            self.in_fold += 1
            try:
                return self.block(body, env_b, kleaf, ctx_b, None)
            finally:
                self.in_fold -= 1
                self.st, self.refine = saved, saved_ref
        order = [c for c, v in saved.items() if v.term is not None]
        accs = {c: self.fresh("acc") for c in order}
        changed = set()

        def k1(v):
            if v.ty not in ("unit", "discard"):
                raise Rs2vError("loop body with a value of type %r" % (v.ty,))
            for c, cv in saved.items():
                if c not in accs:
                    if self.st.get(c) is not cv:
                        raise Rs2vError("loop body: %s changes" % c)
                elif c not in self.st or self.st[c].term != accs[c]:
                    if c not in self.st or self.st[c].ty != saved[c].ty or self.st[c].term is None:
                        raise Rs2vError("loop body: %s changes its type" % c)
                    changed.add(c)
            return ""
        names1 = dict(self.names)
        run({c: (CmdV(v.ty, accs[c]) if c in accs else v) for c, v in saved.items()}, k1)
        self.names = names1
        chg = [c for c in order if c in changed]
        if not chg:
            raise Rs2vError("a loop whose body changes nothing")
        cells = dict(saved)
        for c in chg:
            cells[c] = CmdV(saved[c].ty, accs[c])

        def k2(v):
            for d, dv in saved.items():
                if d not in chg and self.st.get(d) is not dv:
                    raise Rs2vError("loop body: inconsistent state change")
            ts = [self.st[c].term for c in chg]
            return ts[0] if len(ts) == 1 else "(%s)" % ", ".join(ts)
        body_term = run(cells, k2)
        self.effects = eff
        ct = self.cfg["coq_type"]
        xty = ct(item_ty)
        if len(chg) == 1:
            c = chg[0]
            fold = "(fold_left (fun (%s : %s) (%s : %s) =>\n%s) %s %s)" % (
                accs[c], ct(saved[c].ty), x, xty, cmd_indent(body_term, 4), lterm, saved[c].term)
            self.write(c, CmdV(saved[c].ty, fold))
            return k_rest()
        st = self.fresh("st")
        sty = " * ".join(ct(saved[c].ty) for c in chg)
        fold = "fold_left (fun (%s : %s) (%s : %s) => let '(%s) := %s in\n%s) %s (%s)" % (
            st, sty, x, xty, ", ".join(accs[c] for c in chg), st, cmd_indent(body_term, 4), lterm,
            ", ".join(saved[c].term for c in chg))
        outs = [self.fresh("r") for _ in chg]
        keep = self.st
        for c, o in zip(chg, outs):
            self.write(c, CmdV(saved[c].ty, o))
        try:
            rest = k_rest()
        finally:
            self.st = keep
        return "match %s with\n| (%s) =>\n%s\nend" % (fold, ", ".join(outs), cmd_indent(rest, 4))

    # ---- expressions
    def ex1(self, e, env, k, ctx, expect):
        kind = e[0]
        if kind == "struct":
            name = e[1][-1]
            h = self.cfg.get("structs", {}).get(name)
            if h is None:
                raise Rs2vError("struct literal %s" % "::".join(e[1]))
            fnames = [f for f, _ in e[2]]
            return self.seq([x for _, x in e[2]], env, lambda vs: k(h(self, list(zip(fnames, [self.cur(v) for v in vs])), env)), ctx)
        if kind == "field":
            if e[1][0] == "path" and len(e[1][1]) == 1 and (e[1][1][0], e[2]) in self.cfg["fields"]:
                return k(self.cfg["fields"][(e[1][1][0], e[2])])

            def k_base(b):
                b = self.cur(b)
                if isinstance(b.ty, tuple) and b.ty[0] == "struct":
                    if b.items is not None:
                        if e[2] not in b.items:
                            raise Rs2vError("struct %s has no field %s" % (b.ty[1], e[2]))
                        return k(b.items[e[2]])
                    pr = self.cfg.get("struct_proj", {}).get(b.ty[1], {}).get(e[2])
                    if pr is not None and b.term is not None:
                        return k(CmdV(pr[0], pr[1] % b.term))
                raise Rs2vError("field .%s of a value of type %r" % (e[2], b.ty))
            return self.ex(e[1], env, k_base, ctx, None)
        if kind == "array" and e[1]:
            return self.seq(e[1], env, lambda vs: k(self.list_of([self.cur(v) for v in vs])), ctx)
        return FnVar.ex1(self, e, env, k, ctx, expect)

    def list_of(self, vs):
        tys = {v.ty for v in vs}
        if len(tys) != 1 or any(v.term is None for v in vs):
            raise Rs2vError("list literal of %r" % (sorted(map(repr, tys)),))
        return CmdV(("list", vs[0].ty), "[%s]" % "; ".join(v.term for v in vs))

    def bin(self, e, env, k, ctx):
        op = e[1]
        if op in ("&&", "||", ".."):
            return FnVar.bin(self, e, env, k, ctx)

        def k_ops(vs):
            a, b = self.cur(vs[0]), self.cur(vs[1])
            if op in ("+", "-", "*"):
                a2, b2 = self.unify(a, b)
                fm = self.cfg.get("arith_total", {}).get((a2.ty, op))
                if fm is not None:
                    if a2.term is None or b2.term is None:
                        raise Rs2vError("%s on a value without a term" % op)
                    return k(CmdV(a2.ty, fm % (a2.term, b2.term)))
            return FnCmd.bin(self, ("bin", op, ("%value", a), ("%value", b)), env, k, ctx)
        return self.seq([e[2], e[3]], env, k_ops, ctx)

    def if_(self, e, env, k, ctx, expect):
        def k_c(c):
            c = self.cur(c)
            if c.ty != "bool":
                raise Rs2vError("if on %r" % (c.ty,))
            known = c.known if isinstance(c.known, bool) else self.refine.get(c.term) if c.term is not None else None
            if isinstance(known, bool):
                return self.block(e[2] if known else e[3], env, k, ctx, expect)
            a = self.with_refine(c.term, True, lambda: self.block(e[2], env, k, ctx, expect))
            b = self.with_refine(c.term, False, lambda: self.block(e[3], env, k, ctx, expect))
            return self.ite(c.term, a, b)
        return self.ex(e[1], env, k_c, ctx, "bool")

    def match(self, e, env, k, ctx, expect):
        arms = e[2]
        hint = self.parse_hint(e[1], arms, expect)

        def k_s(v):
            v = self.cur(v)
            t = v.ty
            if isinstance(t, tuple) and t[0] == "opt" and v.known is None and v.term is not None:
                r = self.refine.get(v.term)
                if r is not None:
                    v = CmdV(t, v.term, known=r)
                else:
                    gname, _ = self.arm_for(arms, "Some")
                    x = self.fresh(gname if isinstance(gname, str) else "x")
                    payload = self.payload_of(t[1], x)
                    some_v, none_v = CmdV(t, v.term, known=("Some", payload)), CmdV(t, v.term, known=("None",))
                    a = self.with_refine(v.term, ("Some", payload),
                                         lambda: FnVar.match(self, ("match", ("%value", some_v), arms), env, k, ctx, expect))
                    b = self.with_refine(v.term, ("None",),
                                         lambda: FnVar.match(self, ("match", ("%value", none_v), arms), env, k, ctx, expect))
                    return self.match2(v.term, "Some %s" % x, a, "None", b)
            return FnVar.match(self, ("match", ("%value", v), arms), env, k, ctx, expect)
        return self.ex(e[1], env, k_s, ctx, hint)

    def payload_of(self, ty, x):
        return CmdV(ty, x)

    def path(self, e, env, k, ctx, expect):
        p = "::".join(e[1])
        if len(e[1]) > 1 and p in self.cfg.get("consts", {}):
            return k(self.cfg["consts"][p])
        return FnVar.path(self, e, env, k, ctx, expect)

    def call(self, e, env, k, ctx, expect):
        if e[1][0] != "path":
            raise Rs2vError("call of a computed function")
        p = "::".join(e[1][1])
        if p in self.cfg["helpers"]:
            return self.seq(e[2], env, lambda vs: self.run_helper(p, vs, k), ctx)
        if p in ("Some", "Ok", "Err") or p in self.cfg.get("cps_paths", {}) or p in self.cfg["ctors"] or p in self.cfg["paths"]:
            return FnVar.call(self, e, env, k, ctx, expect)
        fb = self.cfg.get("path_fallback")
        if fb is not None:
            def k_args(vs):
                v = fb(self, p, vs, expect)
                if v is None:
                    raise Rs2vError("call of %s" % p)
                return k(v)
            return self.seq(e[2], env, k_args, ctx)
        raise Rs2vError("call of %s" % p)


# =================================================================================================
# Typed-state wave, builder B24 (first client: lib/gen/flowif_gen.py — the if / elseif / else / end_if commands of
# duckscript_sdk/src/sdk/std/flowcontrol/ifelse/mod.rs).  Purely additive: nothing above this line is changed.  The parser
# extends PV (the `?` operator, closures) with receivers and typed parameters; the executor FnTs is a NEW class
# (continuation passing: the result is a decision tree whose leaves are function results).
#
#   PTs / parse_fn_ts / parse_trait_fn_ts / parse_impl_fn_ts
#       PV grammar + `fn f(&self, p: T) -> R` (receiver, parameter and return types kept as text) + `loop { .. }` (P2)
#   ts_read_struct      `struct S { [pub[(crate)]] f: T, .. }` -> [(field, type text)]
#   ts_check_serde      the check the typed view rests on: `serialize_S(&S, &mut HashMap<String, StateValue>)` and
#       `deserialize_S(&mut HashMap<..>) -> Option<S>` are mutually inverse FIELD BY FIELD — every key the serialiser writes is
#       read back by the deserialiser from the same key, under the same StateValue variant (scalars, a List of one scalar
#       variant, a SubState written / read by another checked pair), into the same struct field, and the struct literal the
#       deserialiser returns names exactly the declared fields.  Anything else is Rs2vError.
#   FnTs   symbolic executor for functions that keep STRUCTS SERIALISED in the string-keyed runtime state
#       (`state: &mut HashMap<String, StateValue>`) of which the hand model keeps typed records, typed association lists and
#       typed stacks.  cfg["layout"] describes the typed view: which nested sub-state holds what.
#     * `&mut HashMap` values are PLACES (paths into the state): get_core_sub_state_for_command / get_sub_state / get_list
#       (cfg["place_fns"]) walk the layout; a key that is not a literal is only allowed where the layout has a dynamic map;
#     * on a dynamic map of serialised S:  deserialize_S(&mut slot) is a lookup in the association list, serialize_S(&v, slot) an
#       insert (spelling given by the layout); on a dynamic map of one scalar variant: insert(key, StateValue::V(x));
#     * on a list of serialised S: push(StateValue::SubState(m)) where m is a local `HashMap::new()` filled by serialize_S is
#       a push of the record; pop() gives a value that `match`es as StateValue::SubState(m) and deserialize_S(&mut m) as
#       Some(record) — the other arms are dead by the typed-view invariant (every entry was written by the push rule);
#     * every use of a (de)serialiser requires that ts_check_serde accepted the pair;
#     * callees: other functions translated in the same unit (cfg["fns"]: the call is emitted, a callee that returns a value
#       and a state is bound by a `match .. with (v, st) =>`; one that can run out of fuel by an `option` match), configured
#       callees (cfg["calls"]: handlers that CHECK the actual arguments and give the outcome shapes), command structs whose
#       `name()` / `aliases()` / `new()` are executed from their own source (cfg["modules"]);
#     * control flow copies the continuation into the branches; `xs.is_empty()` refines xs into `[]` / `x :: r` (a later
#       `xs[0]` needs no panic arm); `v[i]` otherwise is `nth_error` with the configured panic leaf; `loop { .. return e; .. }`
#       as the last statement becomes `<name>_body` (a step function: LCont state / LRet result) driven by explicit fuel
#       (cfg fuel term; out of fuel = None);
#     * block scoping with shadowing (cells), mutation of locals through push / append / push_str.
#   Everything not understood raises Rs2vError; nothing is guessed.
class PTs(PV):
    receiver = None
    ret_type = None
    type_text = PCmd.type_text
    fn = PCmd.fn
    # `loop`, `let (a, b)`, struct literals: P2 (inherited through PQ)


def _ts_find(src, pattern, what):
    ms = list(re.finditer(pattern, src, re.M))
    if len(ms) != 1:
        raise Rs2vError("%s: %d definitions" % (what, len(ms)))
    return ms[0]


def _ts_depth(text, pos):
    """brace depth of text[pos] (comments, string and char literals respected)"""
    i, depth = 0, 0
    str_re = re.compile(r'"(?:\\.|[^"\\])*"', re.S)
    chr_re = re.compile(r"'(?:\\.|[^'\\])'")
    while i < pos:
        c = text[i]
        if text.startswith("//", i):
            j = text.find("\n", i)
            i = len(text) if j < 0 else j
            continue
        if text.startswith("/*", i):
            j = text.find("*/", i)
            i = len(text) if j < 0 else j + 2
            continue
        if c == '"':
            mm = str_re.match(text, i)
            if mm:
                i = mm.end()
                continue
        if c == "'":
            mm = chr_re.match(text, i)
            if mm:
                i = mm.end()
                continue
        if c == "{":
            depth += 1
        elif c == "}":
            depth -= 1
        i += 1
    return depth


def parse_fn_ts(src, name):
    """a free function (column 0) -> ([(param, type text)], return type text, body)"""
    m = _ts_find(src, r"^(?:pub(?:\([a-z]+\))?\s+)?fn\s+%s\s*\(" % re.escape(name), "fn %s" % name)
    p = PTs(lex_q(src[m.start():], stop_after_item=True))
    _n, params, body = p.fn()
    if p.receiver is not None:
        raise Rs2vError("fn %s has a receiver" % name)
    return params, p.ret_type, body


def _ts_impl_fn(src, header_re, what, name):
    m = _ts_find(src, header_re, what)
    body = balanced_block(src, m.end() - 1)
    fs = [f for f in re.finditer(r"\bfn\s+%s\s*\(" % re.escape(name), body) if _ts_depth(body, f.start()) == 0]
    if len(fs) > 1:
        raise Rs2vError("fn %s: %d definitions in %s" % (name, len(fs), what))
    if not fs:
        return None
    p = PTs(lex_q(body[fs[0].start():], stop_after_item=True))
    _n, params, blk = p.fn()
    return p.receiver, params, p.ret_type, blk


def parse_trait_fn_ts(src, trait, type_name, name):
    """`fn name` of `impl trait for type_name` -> (receiver, params, ret type text, body) or None when the impl has none"""
    return _ts_impl_fn(src, r"^\s*impl\s+%s\s+for\s+%s\s*\{" % (re.escape(trait), re.escape(type_name)),
                       "impl %s for %s" % (trait, type_name), name)


def parse_impl_fn_ts(src, type_name, name):
    """`fn name` of the inherent `impl type_name`"""
    return _ts_impl_fn(src, r"^\s*impl\s+%s\s*\{" % re.escape(type_name), "impl %s" % type_name, name)


def ts_read_struct(src, name):
    m = _ts_find(src, r"^(?:pub(?:\([a-z]+\))?\s+)?struct\s+%s\s*\{" % re.escape(name), "struct %s" % name)
    body = re.sub(r"//[^\n]*", "", balanced_block(src, m.end() - 1))
    out = []
    for part in body.split(","):
        part = part.strip()
        if not part:
            continue
        mm = re.fullmatch(r"(?:pub(?:\([a-z]+\))?\s+)?(\w+)\s*:\s*(.+)", part, re.S)
        if not mm:
            raise Rs2vError("struct %s: field %r not understood" % (name, part))
        out.append((mm.group(1), "".join(mm.group(2).split())))
    return out


# ---- the serialise / deserialise check
def _ts_unwrap(e):
    """strip `&`, `&mut`, `.clone()`, `.to_string()`, `.to_owned()`"""
    while True:
        if e[0] in ("ref", "refmut"):
            e = e[1]
        elif e[0] == "mcall" and e[2] in ("clone", "to_string", "to_owned") and not e[3]:
            e = e[1]
        else:
            return e


def _ts_lit(e, what):
    e = _ts_unwrap(e)
    if e[0] != "str":
        raise Rs2vError("%s: the key is not a string literal" % what)
    return e[1]


def _ts_sv_ctor(e):
    """StateValue::V(x) -> (V, x)"""
    if e[0] == "call" and e[1][0] == "path" and len(e[1][1]) == 2 and e[1][1][0] == "StateValue" and len(e[2]) == 1:
        return e[1][1][1], e[2][0]
    return None


def _ts_field_of(e, var):
    e = _ts_unwrap(e)
    if e[0] == "field" and _ts_unwrap(e[1]) == ("path", [var]):
        return e[2]
    return None


def _ts_ser_entries(params, body, what, serde_names):
    """[(key, shape, field)] written by a serialiser; shape: ("scalar", V) | ("list", V) | ("sub", S)"""
    if len(params) != 2 or body[2] is not None:
        raise Rs2vError("%s: not `fn(&S, &mut HashMap)` with a statement body" % what)
    xv, mv = params[0][0], params[1][0]
    out, pend = [], {}
    stmts = list(body[1])
    i = 0
    while i < len(stmts):
        s = stmts[i]
        if s[0] == "let" and _ts_unwrap(s[2]) == ("macro", "vec", []):
            # let mut l = vec![]; for x in &X.f { l.push(StateValue::V(*x)); }
            if i + 1 >= len(stmts) or stmts[i + 1][0] != "for":
                raise Rs2vError("%s: `let %s = vec![]` is not followed by the loop that fills it" % (what, s[1]))
            f = stmts[i + 1]
            fld = _ts_field_of(f[2], xv)
            bl = f[3]
            if fld is None or bl[2] is not None or len(bl[1]) != 1 or bl[1][0][0] != "expr":
                raise Rs2vError("%s: the loop that fills %s has an unexpected shape" % (what, s[1]))
            c = bl[1][0][1]
            sv = _ts_sv_ctor(c[3][0]) if (c[0] == "mcall" and c[1] == ("path", [s[1]]) and c[2] == "push" and len(c[3]) == 1) else None
            if sv is None or _ts_unwrap(sv[1]) != ("path", [f[1]]):
                raise Rs2vError("%s: the loop that fills %s does not push StateValue::V(item)" % (what, s[1]))
            pend[s[1]] = (("list", sv[0]), fld)
            i += 2
            continue
        if s[0] == "let" and s[2] == ("call", ("path", ["HashMap", "new"]), []):
            # let mut m = HashMap::new(); serialize_Y(&X.f, &mut m);
            if i + 1 >= len(stmts) or stmts[i + 1][0] != "expr":
                raise Rs2vError("%s: `let %s = HashMap::new()` is not followed by a serialiser call" % (what, s[1]))
            c = stmts[i + 1][1]
            ok = c[0] == "call" and c[1][0] == "path" and len(c[1][1]) == 1 and len(c[2]) == 2 and _ts_unwrap(c[2][1]) == ("path", [s[1]])
            fld = _ts_field_of(c[2][0], xv) if ok else None
            sname = [k for k, v in serde_names.items() if ok and v["ser"] == c[1][1][0]]
            if fld is None or not sname:
                raise Rs2vError("%s: the nested serialiser call for %s has an unexpected shape" % (what, s[1]))
            pend[s[1]] = (("sub", sname[0]), fld)
            i += 2
            continue
        if s[0] == "expr" and s[1][0] == "mcall" and s[1][1] == ("path", [mv]) and s[1][2] == "insert" and len(s[1][3]) == 2:
            key = _ts_lit(s[1][3][0], what)
            sv = _ts_sv_ctor(s[1][3][1])
            if sv is None:
                raise Rs2vError("%s: the value stored under %r is not StateValue::<variant>(..)" % (what, key))
            inner = _ts_unwrap(sv[1])
            if inner[0] == "path" and len(inner[1]) == 1 and inner[1][0] in pend:
                shape, fld = pend.pop(inner[1][0])
                if (shape[0] == "list") != (sv[0] == "List") or (shape[0] == "sub") != (sv[0] == "SubState"):
                    raise Rs2vError("%s: %r is stored as StateValue::%s" % (what, key, sv[0]))
            else:
                fld = _ts_field_of(sv[1], xv)
                if fld is None or sv[0] in ("List", "SubState", "Set", "Any"):
                    raise Rs2vError("%s: the value stored under %r is not a field of the struct" % (what, key))
                shape = ("scalar", sv[0])
            out.append((key, shape, fld))
            i += 1
            continue
        raise Rs2vError("%s: statement not understood: %r" % (what, s[0]))
    if pend:
        raise Rs2vError("%s: %s built but never stored" % (what, ", ".join(sorted(pend))))
    return out


def _ts_is_ret_none(e):
    return e == ("block", [("return", ("path", ["None"]))], None)


def _ts_get_match(e, mv, what):
    """match MAP.get("k") { Some(v) => INNER, None => return None } -> (key, v, INNER)"""
    if not (e[0] == "match" and e[1][0] == "mcall" and _ts_unwrap(e[1][1]) == ("path", [mv]) and e[1][2] == "get"
            and len(e[1][3]) == 1 and len(e[2]) == 2):
        raise Rs2vError("%s: a field is not read by `match %s.get(..)`" % (what, mv))
    key = _ts_lit(e[1][3][0], what)
    some = [a for a in e[2] if a[0][0] == "ctor" and a[0][1] == ["Some"] and len(a[0][2]) == 1 and a[0][2][0]]
    none = [a for a in e[2] if a[0] == ("ctor", ["None"], []) or a[0] == ("wild",)]
    if len(some) != 1 or len(none) != 1 or not _ts_is_ret_none(none[0][1]):
        raise Rs2vError("%s: the read of %r is not { Some(v) => .., None => return None }" % (what, key))
    return key, some[0][0][2][0], some[0][1]


def _ts_variant_match(e, var, what, key, allow_clone=False):
    """match VAR { StateValue::V(x) => BODY, _ => return None } -> (V, x, BODY)"""
    scr = e[1] if e[0] == "match" else None
    if scr is not None and allow_clone:
        scr = _ts_unwrap(scr)
    if not (scr == ("path", [var]) and len(e[2]) == 2):
        raise Rs2vError("%s: the value read from %r is not matched against its variant" % (what, key))
    (p1, b1), (p2, b2) = e[2]
    if not (p1[0] == "ctor" and len(p1[1]) == 2 and p1[1][0] == "StateValue" and len(p1[2]) == 1 and p1[2][0]
            and p2 == ("wild",) and _ts_is_ret_none(b2)):
        raise Rs2vError("%s: the variant match of %r is not { StateValue::V(x) => .., _ => return None }" % (what, key))
    return p1[1][1], p1[2][0], b1


def _ts_de_entries(params, body, what, serde_names):
    """([(key, shape, local)], struct name, [(field, local)]) read by a deserialiser"""
    if len(params) != 1:
        raise Rs2vError("%s: not `fn(&mut HashMap)`" % what)
    mv = params[0][0]
    out = []
    stmts = list(body[1])
    i = 0
    while i < len(stmts):
        s = stmts[i]
        if s[0] == "let" and _ts_unwrap(s[2]) == ("macro", "vec", []):
            if i + 1 >= len(stmts) or stmts[i + 1][0] != "expr":
                raise Rs2vError("%s: `let %s = vec![]` is not followed by the match that fills it" % (what, s[1]))
            key, v, inner = _ts_get_match(stmts[i + 1][1], mv, what)
            var, lv, blk = _ts_variant_match(inner, v, what, key)
            ok = var == "List" and blk[0] == "block" and blk[2] is None and len(blk[1]) == 1 and blk[1][0][0] == "for" \
                and _ts_unwrap(blk[1][0][2]) == ("path", [lv])
            if ok:
                f = blk[1][0]
                fb = f[3]
                item_match = fb[2] if (not fb[1] and fb[2] is not None) else (fb[1][0][1] if len(fb[1]) == 1 and fb[1][0][0] == "expr" and fb[2] is None else None)
                ok = item_match is not None
            if ok:
                ivar, ix, ibody = _ts_variant_match(item_match, f[1], what, key)
                ibody = ibody[2] if (ibody[0] == "block" and not ibody[1] and ibody[2] is not None) else ibody
                ok = ibody[0] == "mcall" and ibody[1] == ("path", [s[1]]) and ibody[2] == "push" and len(ibody[3]) == 1 \
                    and _ts_unwrap(ibody[3][0]) == ("path", [ix])
            if not ok:
                raise Rs2vError("%s: the list under %r is not read item by item into %s" % (what, key, s[1]))
            out.append((key, ("list", ivar), s[1]))
            i += 2
            continue
        if s[0] == "let":
            key, v, inner = _ts_get_match(s[2], mv, what)
            var, x, b = _ts_variant_match(inner, v, what, key, allow_clone=True)
            if var == "SubState":
                ok = b[0] == "match" and b[1][0] == "call" and b[1][1][0] == "path" and len(b[1][1][1]) == 1 \
                    and len(b[1][2]) == 1 and _ts_unwrap(b[1][2][0]) == ("path", [x]) and len(b[2]) == 2
                sname = [k for k, d in serde_names.items() if ok and d["de"] == b[1][1][1][0]]
                if ok and sname:
                    (p1, b1), (p2, b2) = b[2]
                    ok = p1[0] == "ctor" and p1[1] == ["Some"] and len(p1[2]) == 1 and _ts_unwrap(b1) == ("path", [p1[2][0]]) \
                        and (p2 == ("ctor", ["None"], []) or p2 == ("wild",)) and _ts_is_ret_none(b2)
                if not (ok and sname):
                    raise Rs2vError("%s: the sub-state under %r is not read by a checked deserialiser" % (what, key))
                out.append((key, ("sub", sname[0]), s[1]))
            else:
                if var in ("List", "Set", "Any") or _ts_unwrap(b) != ("path", [x]):
                    raise Rs2vError("%s: the value under %r is not handed on as it is" % (what, key))
                out.append((key, ("scalar", var), s[1]))
            i += 1
            continue
        raise Rs2vError("%s: statement not understood: %r" % (what, s[0]))
    t = body[2]
    if not (t is not None and t[0] == "call" and t[1] == ("path", ["Some"]) and len(t[2]) == 1 and t[2][0][0] == "struct"
            and len(t[2][0][1]) == 1):
        raise Rs2vError("%s: the result is not Some(Struct { .. })" % what)
    fields = []
    for fname, fe in t[2][0][2]:
        fe = _ts_unwrap(fe)
        if fe[0] != "path" or len(fe[1]) != 1:
            raise Rs2vError("%s: field %s of the result is not a local read from the map" % (what, fname))
        fields.append((fname, fe[1][0]))
    return out, t[2][0][1][0], fields


TS_SCALARS = {"UnsignedNumber": "usize", "Boolean": "bool", "String": "String"}


def ts_check_serde(src, serde_names):
    """serde_names: {struct: {"ser": fn, "de": fn}} -> ({struct: [(field, type text)]}, {struct: None | reason}): per struct,
    whether its pair is mutually inverse field by field (see the block comment); a struct that nests a rejected one is
    rejected too"""
    res, why = {}, {}
    for sname in serde_names:
        try:
            res[sname] = ts_read_struct(src, sname)
            why[sname] = None
        except Rs2vError as e:
            res[sname], why[sname] = None, str(e)
    nested = {}
    for sname, d in serde_names.items():
        if why[sname] is not None:
            continue
        try:
            nested[sname] = _ts_check_pair(src, sname, d, res[sname], serde_names)
        except Rs2vError as e:
            why[sname] = str(e)
    changed = True
    while changed:
        changed = False
        for sname, subs in nested.items():
            for s in subs:
                if why[sname] is None and why.get(s) is not None:
                    why[sname] = "it nests %s: %s" % (s, why[s])
                    changed = True
    return res, why


def _ts_check_pair(src, sname, d, decl, serde_names):
    if True:
        what = "%s / %s" % (d["ser"], d["de"])
        sp, _sr, sb = parse_fn_ts(src, d["ser"])
        dp, dr, db = parse_fn_ts(src, d["de"])
        if "".join((dr or "").split()) != "Option<%s>" % sname:
            raise Rs2vError("%s: the deserialiser returns %s" % (what, dr))
        if "&" + sname not in "".join(sp[0][1].split()) if sp else True:
            raise Rs2vError("%s: the serialiser does not take &%s" % (what, sname))
        ser = _ts_ser_entries(sp, sb, d["ser"], serde_names)
        de, dstruct, dfields = _ts_de_entries(dp, db, d["de"], serde_names)
        if dstruct != sname:
            raise Rs2vError("%s: the deserialiser builds a %s" % (what, dstruct))
        if sorted(f for f, _l in dfields) != sorted(f for f, _t in decl) or len(dfields) != len(decl):
            raise Rs2vError("%s: the struct literal does not name exactly the declared fields of %s" % (what, sname))
        if len({k for k, _s, _f in ser}) != len(ser) or len({k for k, _s, _l in de}) != len(de):
            raise Rs2vError("%s: a key is written or read twice" % what)
        if len({f for _k, _s, f in ser}) != len(ser) or len({l for _k, _s, l in de}) != len(de):
            raise Rs2vError("%s: a field is written twice or a local is read twice" % what)
        wr = {k: (s, f) for k, s, f in ser}
        rd = {k: (s, l) for k, s, l in de}
        if set(wr) != set(rd):
            raise Rs2vError("%s: keys written %s, keys read %s" % (what, sorted(wr), sorted(rd)))
        local_of = {f: l for f, l in dfields}
        types = dict(decl)
        for k in sorted(wr):
            (ws, wf), (rs, rl) = wr[k], rd[k]
            if ws != rs:
                raise Rs2vError("%s: %r is written as %s and read as %s" % (what, k, ws, rs))
            if local_of.get(wf) != rl:
                raise Rs2vError("%s: %r is written from field %s but read into field %s" % (
                    what, k, wf, ",".join(f for f, l in dfields if l == rl) or "?"))
            want = TS_SCALARS.get(ws[1]) if ws[0] == "scalar" else \
                ("Vec<%s>" % TS_SCALARS.get(ws[1]) if ws[0] == "list" else ws[1])
            if want is None or "None" in want or types[wf] != want:
                raise Rs2vError("%s: field %s : %s is stored as %s" % (what, wf, types[wf], ws))
        if set(f for _k, _s, f in ser) != set(types):
            raise Rs2vError("%s: not every field of %s is written" % (what, sname))
        return [s[1] for _k, s, _f in ser if s[0] == "sub"]


# ---- symbolic values, environment, state
class TsV:
    """a symbolic Rust value.  ty: "nat" / "bool" / "str" / "unit" / "err" / "cres" / ("list", T) / ("option", T) /
    ("result", T) (Result<T, String>; the model keeps `option T`) / ("struct", S) (a configured Coq record) /
    ("fields", S) (a struct that only exists at translation time: one TsV per field) / ("cmd", S) (a command struct) /
    ("place", path) / ("map_fresh",) / ("ser", S) (a local HashMap holding the serialisation of the record `term`) /
    ("sv", V) (StateValue::V(inner), inner in fields["0"]) / ("opaque", name).
    known: ("lit", python value) / ("some", TsV) / ("none",) / ("ok", TsV) / ("err", TsV) / ("items", [TsV])"""
    __slots__ = ("ty", "term", "known", "fields")

    def __init__(self, ty, term=None, known=None, fields=None):
        self.ty, self.term, self.known, self.fields = ty, term, known, fields

    def __repr__(self):
        return "TsV(%r, %r, %r)" % (self.ty, self.term, self.known)


TS_UNIT = TsV("unit", "tt")


class TsEnv:
    """names -> cells -> values (shadowing-safe: a nested `let` of an outer name gets its own cell), plus the path facts
    (what is known about a stable term on this path: ("nil",) / ("cons", head, tail))"""

    def __init__(self, names=None, store=None, facts=None):
        self.names, self.store, self.facts = names or {}, store or {}, facts or {}

    def has(self, n):
        return n in self.names

    def get(self, n):
        return self.store[self.names[n]]

    def let(self, n, v):
        c = len(self.store)
        names, store = dict(self.names), dict(self.store)
        names[n] = c
        store[c] = v
        return TsEnv(names, store, self.facts)

    def set(self, n, v):
        store = dict(self.store)
        store[self.names[n]] = v
        return TsEnv(self.names, store, self.facts)

    def leave(self, outer):
        """the environment after a block: the outer names, the cells as the block left them"""
        return TsEnv(outer.names, self.store, self.facts)

    def fact(self, term, f):
        facts = dict(self.facts)
        facts[term] = f
        return TsEnv(self.names, self.store, facts)


class TsSt:
    """the symbolic runtime state: a base term of the state type and the components that were replaced since"""

    def __init__(self, base, over=None):
        self.base, self.over = base, over or {}

    def comp(self, cfg, c):
        return self.over[c] if c in self.over else "(%s %s)" % (cfg["state"]["proj"][c], self.base)

    def with_comp(self, c, term):
        o = dict(self.over)
        o[c] = term
        return TsSt(self.base, o)

    def term(self, cfg):
        if not self.over:
            return self.base
        return "(%s %s)" % (cfg["state"]["mk"], " ".join(self.comp(cfg, c) for c in cfg["state"]["comps"]))


def ts_ident(s):
    s = re.sub(r"\W", "_", s)
    return s + "_" if s in ("end", "match", "with", "fun", "let", "in", "if", "then", "else", "return", "fix", "at", "as", "Type", "Set", "Prop") else s


class FnTs:
    """cfg keys (see lib/gen/flowif_gen.py for a complete instance):
      state      {"mk": ctor, "comps": [component], "proj": {component: projection}, "root": rust name of the state parameter}
      layout     {path: {"kind": "submap"} | {"kind": "dynmap", "comp": c, "value": ("serde", S) | ("variant", V, ty),
                         "lookup": fmt(key, comp), "insert": fmt(key, value, comp)} | {"kind": "list", "comp": c, "elem": S}}
      place_fns  {rust fn: ("root", prefix) | "sub" | "list"}
      serde      {S: {"ser": fn, "de": fn}}; serde_ok {S: None | reason}  (result of ts_check_serde)
      structs    {S: {"mk": ctor, "fields": [(rust field, projection, ty)]}}
      statics    {NAME: text}; modules {rust module: {"src": text, "statics": {..}}}; src: the text of the file itself
      fns        {rust fn: {"coq", "params": [(name, ty)], "ret": ("value", ty) | ("state",) | ("pair", ty), "fuel": bool}}
      calls      {rust path tail: handler(fn, args, E, st, k, ctx) -> term}
      cres       handler(fn, ctor name, [TsV]) -> term      (CommandResult::<ctor>(..))
      panic      leaf(fn, st) -> term, or absent (an index that can fail is then refused)
      fuel       {rust fn: fmt(state term)}"""

    def __init__(self, cfg, name):
        self.cfg, self.name, self.n = cfg, name, 0
        self.sig = cfg["fns"][name]
        self.loop_defs = []

    # ---- small helpers
    def fresh(self, base):
        self.n += 1
        return "%s_%d" % (ts_ident(base), self.n)

    def err(self, msg):
        raise Rs2vError("%s: %s" % (self.name, msg))

    def plain(self, v, what):
        if v.term is None:
            self.err("%s has no value the model keeps" % what)
        return v.term

    def struct_cfg(self, ty):
        return self.cfg["structs"][ty[1]]

    def coq_of(self, v, ty=None):
        """the Coq term of a value, as a value of model type ty"""
        ty = ty or v.ty
        if isinstance(ty, tuple) and ty[0] in ("option", "result"):
            if v.known and v.known[0] in ("some", "ok"):
                return "(Some %s)" % self.coq_of(v.known[1])
            if v.known and v.known[0] in ("none", "err"):
                return "None"
        return self.plain(v, "a value of type %s" % (ty,))

    def same_ty(self, a, b):
        return a == b or a is None or b is None

    # ---- leaves
    def leaf(self, v, st, ctx, wrap=True):
        kind = self.sig["ret"]
        if kind[0] == "state":
            if v.ty != "unit":
                self.err("a value is returned from a function the model gives only a state")
            t = st.term(self.cfg)
        elif kind[0] == "value":
            if "state" in [p[1] for p in self.sig["params"]] and (st.over or st.base != ctx["st0"]):
                self.err("the function changes the state; the configured signature says it only reads it")
            t = self.coq_of(self.conv(v, kind[1]), kind[1])
        else:
            t = "(%s, %s)" % (self.coq_of(self.conv(v, kind[1]), kind[1]), st.term(self.cfg))
        if ctx.get("loop"):
            return "LRet %s" % t
        return "Some %s" % t if self.sig.get("fuel") else t

    def conv(self, v, ty):
        if v.ty == ty:
            return v
        if isinstance(ty, tuple) and isinstance(v.ty, tuple) and ty[0] == v.ty[0] and ty[0] in ("option", "result", "list") \
                and (v.ty[1] is None or v.ty[1] == ty[1]):
            return v
        self.err("a %s where the configured signature has a %s" % (v.ty, ty))

    # ---- expressions (continuation passing: k(value, E, st) -> term)
    def exs(self, es, E, st, k, ctx):
        def go(i, acc, E_, st_):
            if i == len(es):
                return k(acc, E_, st_)
            return self.ex(es[i], E_, st_, lambda v, E2, st2: go(i + 1, acc + [v], E2, st2), ctx)
        return go(0, [], E, st)

    def lit_str(self, s):
        return TsV("str", coq_str_lit(s), ("lit", s))

    def ex(self, e, E, st, k, ctx):
        t = e[0]
        if t == "num":
            return k(TsV("nat", "%d%%nat" % e[1], ("lit", e[1])), E, st)
        if t == "str":
            return k(self.lit_str(e[1]), E, st)
        if t == "bool":
            return k(TsV("bool", "true" if e[1] else "false", ("lit", e[1])), E, st)
        if t in ("ref", "refmut"):
            return self.ex(e[1], E, st, k, ctx)
        if t == "tuple" and not e[1]:
            return k(TS_UNIT, E, st)
        if t == "path":
            return k(self.path(e[1], E), E, st)
        if t == "field":
            return self.ex(e[1], E, st, lambda v, E2, st2: k(self.field(v, e[2]), E2, st2), ctx)
        if t == "index":
            return self.ex(e[1], E, st, lambda v, E2, st2: self.ex(
                e[2], E2, st2, lambda i, E3, st3: self.index(v, i, E3, st3, k, ctx), ctx), ctx)
        if t == "not":
            return self.ex(e[1], E, st, lambda v, E2, st2: k(self.not_(v), E2, st2), ctx)
        if t == "bin":
            if e[1] in ("&&", "||"):
                if self.effectful(e[3]):
                    self.err("an operand of %s that has effects" % e[1])
            return self.ex(e[2], E, st, lambda a, E2, st2: self.ex(
                e[3], E2, st2, lambda b, E3, st3: k(self.bin(e[1], a, b), E3, st3), ctx), ctx)
        if t == "macro":
            if e[1] == "vec":
                return self.exs(e[2], E, st, lambda vs, E2, st2: k(self.list_lit(vs), E2, st2), ctx)
            self.err("macro %s!" % e[1])
        if t == "struct":
            return self.exs([fe for _f, fe in e[2]], E, st,
                            lambda vs, E2, st2: k(self.struct_lit(e[1], [f for f, _ in e[2]], vs), E2, st2), ctx)
        if t == "block":
            return self.block(e, E, st, k, ctx)
        if t == "if":
            return self.if_(e, E, st, k, ctx)
        if t == "match":
            return self.ex(e[1], E, st, lambda v, E2, st2: self.match_(v, e[2], E2, st2, k, ctx), ctx)
        if t == "iflet":
            els = e[4] if e[4] is not None else ("block", [], None)
            return self.ex(e[2], E, st, lambda v, E2, st2: self.match_(
                v, [(e[1], e[3]), (("wild",), els)], E2, st2, k, ctx), ctx)
        if t == "try":
            def after(v, E2, st2):
                if not (isinstance(v.ty, tuple) and v.ty[0] == "result"):
                    self.err("`?` on a %s" % (v.ty,))
                if v.known and v.known[0] == "ok":
                    return k(v.known[1], E2, st2)
                if v.known and v.known[0] == "err":
                    return self.ret(TsV(("result", None), None, ("err", v.known[1])), E2, st2, ctx)
                x = self.fresh("ok")
                return "match %s with\n| Some %s =>\n%s\n| None =>\n%s\nend" % (
                    v.term, x, k(self.of_ty(v.ty[1], x), E2, st2),
                    self.ret(TsV(("result", None), None, ("err", TsV("err"))), E2, st2, ctx))
            return self.ex(e[1], E, st, after, ctx)
        if t == "call":
            return self.call(e, E, st, k, ctx)
        if t == "mcall":
            return self.mcall(e, E, st, k, ctx)
        self.err("expression %s" % t)

    def effectful(self, e):
        """conservative: anything but operators, paths, fields, literals and a few read-only methods"""
        if not isinstance(e, tuple) or not e:
            return False
        if e[0] in ("num", "str", "bool", "path", "char"):
            return False
        if e[0] in ("field", "not", "ref", "refmut"):
            return self.effectful(e[1])
        if e[0] == "bin":
            return self.effectful(e[2]) or self.effectful(e[3])
        if e[0] == "mcall" and e[2] in ("len", "is_empty", "clone", "to_string", "as_str") and not e[3]:
            return self.effectful(e[1])
        return True

    def of_ty(self, ty, term):
        return TsV(ty, term)

    def path(self, segs, E):
        if len(segs) == 1:
            n = segs[0]
            if E.has(n):
                return E.get(n)
            if n == "None":
                return TsV(("option", None), "None", ("none",))
            if n in self.cfg.get("statics", {}):
                return self.lit_str(self.cfg["statics"][n])
            self.err("unknown name %s" % n)
        if len(segs) == 2 and segs[0] in self.cfg.get("modules", {}):
            st = self.cfg["modules"][segs[0]].get("statics", {})
            if segs[1] in st:
                return self.lit_str(st[segs[1]])
        self.err("unknown path %s" % "::".join(segs))

    def field(self, v, f):
        if v.fields is not None and f in v.fields:
            return v.fields[f]
        if isinstance(v.ty, tuple) and v.ty[0] == "struct":
            for rf, proj, ty in self.struct_cfg(v.ty)["fields"]:
                if rf == f:
                    return TsV(ty, "(%s %s)" % (proj, self.plain(v, "the struct")))
        self.err("field %s of a %s" % (f, v.ty))

    def not_(self, v):
        if v.ty != "bool":
            self.err("! on a %s" % (v.ty,))
        if v.known:
            return TsV("bool", "false" if v.known[1] else "true", ("lit", not v.known[1]))
        return TsV("bool", "(negb %s)" % v.term)

    def bin(self, op, a, b):
        if op in ("&&", "||"):
            if a.ty != "bool" or b.ty != "bool":
                self.err("%s on %s, %s" % (op, a.ty, b.ty))
            return TsV("bool", "(%s %s %s)" % (a.term, op, b.term))
        if op in ("+",) and a.ty == "nat" and b.ty == "nat":
            # usize addition: modelled on nat (no overflow: the operands are line numbers / indices of a Vec)
            return TsV("nat", "(%s + %s)%%nat" % (a.term, b.term))
        if op in ("==", "!=", "<", ">", "<=", ">="):
            if a.ty != b.ty or a.ty not in ("nat", "str", "bool"):
                self.err("%s on %s, %s" % (op, a.ty, b.ty))
            if a.ty == "nat":
                f = {"==": "(Nat.eqb %s %s)", "!=": "(negb (Nat.eqb %s %s))", "<": "(Nat.ltb %s %s)", "<=": "(Nat.leb %s %s)",
                     ">": "(Nat.ltb %s %s)", ">=": "(Nat.leb %s %s)"}[op]
                x, y = (b.term, a.term) if op in (">", ">=") else (a.term, b.term)
                return TsV("bool", f % (x, y))
            if a.ty == "str" and op in ("==", "!="):
                t = "(str_eqb %s %s)" % (a.term, b.term)
                return TsV("bool", t if op == "==" else "(negb %s)" % t)
            if a.ty == "bool" and op in ("==", "!="):
                t = "(Bool.eqb %s %s)" % (a.term, b.term)
                return TsV("bool", t if op == "==" else "(negb %s)" % t)
        self.err("operator %s on %s, %s" % (op, a.ty, b.ty))

    def list_lit(self, vs):
        ty = None
        for v in vs:
            if not self.same_ty(ty, v.ty):
                self.err("a vec! of mixed types")
            ty = v.ty
        return TsV(("list", ty), "[" + "; ".join(self.plain(v, "a list element") for v in vs) + "]", ("items", vs))

    def struct_lit(self, path, names, vs):
        s = path[-1]
        if s in self.cfg["structs"]:
            sc = self.cfg["structs"][s]
            if sorted(names) != sorted(f for f, _p, _t in sc["fields"]) or len(names) != len(sc["fields"]):
                self.err("the literal of %s does not name exactly its fields" % s)
            by = dict(zip(names, vs))
            terms = []
            for f, _p, ty in sc["fields"]:
                terms.append(self.coq_of(self.conv(by[f], ty), ty))
            return TsV(("struct", s), "(%s %s)" % (sc["mk"], " ".join(terms)), None, dict(by))
        if self.is_cmd_struct(s):
            if names != ["package"] or vs[0].ty != "str":
                self.err("command struct %s built from other fields than package" % s)
            return TsV(("cmd", s, path[0] if len(path) > 1 else None), None, None, {"package": vs[0]})
        self.err("struct literal %s" % s)

    def is_cmd_struct(self, s):
        return s in self.cfg.get("cmd_structs", {})

    def index(self, v, i, E, st, k, ctx):
        if not (isinstance(v.ty, tuple) and v.ty[0] == "list") or i.ty != "nat":
            self.err("index on %s by %s" % (v.ty, i.ty))
        f = E.facts.get(v.term)
        if f and f[0] == "cons" and i.known and i.known[1] == 0:
            return k(TsV(v.ty[1], f[1]), E, st)
        if "panic" not in self.cfg or self.sig.get("no_panic"):
            self.err("an index that can be out of range in a function without a panic outcome")
        x = self.fresh(ctx.get("bind_hint") or "item")
        return "match nth_error %s %s with\n| None => %s\n| Some %s =>\n%s\nend" % (
            v.term, i.term, self.panic_leaf(st, ctx), x, k(TsV(v.ty[1], x), E, st))

    def panic_leaf(self, st, ctx):
        t = self.cfg["panic"](self, st)
        if ctx.get("loop"):
            return "LRet %s" % t
        return "Some %s" % t if self.sig.get("fuel") else t

    # ---- blocks and statements
    def block(self, b, E, st, k, ctx):
        outer = E

        def done(v, E2, st2):
            return k(v, E2.leave(outer), st2)
        return self.stmts(b[1], b[2], E, st, done, ctx)

    def stmts(self, items, tail, E, st, k, ctx):
        if not items:
            if tail is None:
                return k(TS_UNIT, E, st)
            return self.ex(tail, E, st, k, ctx)
        s, rest = items[0], items[1:]

        def go(E2, st2):
            return self.stmts(rest, tail, E2, st2, k, ctx)
        if s[0] == "let":
            ctx2 = dict(ctx)
            ctx2["bind_hint"] = s[1]
            return self.ex(s[2], E, st, lambda v, E2, st2: go(E2.let(s[1], v), st2), ctx2)
        if s[0] == "expr":
            return self.ex(s[1], E, st, lambda _v, E2, st2: go(E2, st2), ctx)
        if s[0] == "return":
            if s[1] is None:
                return self.ret(TS_UNIT, E, st, ctx)
            return self.ex(s[1], E, st, lambda v, E2, st2: self.ret(v, E2, st2, ctx), ctx)
        if s[0] == "loop":
            if rest or tail is not None:
                self.err("statements after `loop { }`")
            return self.loop(s[1], E, st, ctx)
        self.err("statement %s" % s[0])

    def ret(self, v, E, st, ctx):
        if ctx.get("inline") is not None:
            return ctx["inline"](v, E, st)
        return self.leaf(v, st, ctx)

    # ---- control flow
    def if_(self, e, E, st, k, ctx):
        c, then, els = e[1], e[2], e[3] if e[3] is not None else ("block", [], None)
        neg = False
        c0 = c
        while c0[0] == "not":
            neg, c0 = not neg, c0[1]
        if c0[0] == "mcall" and c0[2] == "is_empty" and not c0[3] and not self.effectful(c0[1]):
            def on_list(v, E2, st2):
                if not (isinstance(v.ty, tuple) and v.ty[0] == "list"):
                    return self.cond(c, then, els, E2, st2, k, ctx)
                a, b = (els, then) if neg else (then, els)
                if v.known and v.known[0] == "items":
                    return self.ex(a if not v.known[1] else b, E2, st2, k, ctx)
                f = E2.facts.get(v.term)
                if f:
                    return self.ex(a if f[0] == "nil" else b, E2, st2, k, ctx)
                h, r = self.fresh("x"), self.fresh("xs")
                return "match %s with\n| [] =>\n%s\n| %s :: %s =>\n%s\nend" % (
                    v.term, self.ex(a, E2.fact(v.term, ("nil",)), st2, lambda x, E3, st3: k(x, TsEnv(E3.names, E3.store, E2.facts), st3), ctx),
                    h, r, self.ex(b, E2.fact(v.term, ("cons", h, r)), st2, lambda x, E3, st3: k(x, TsEnv(E3.names, E3.store, E2.facts), st3), ctx))
            return self.ex(c0[1], E, st, on_list, ctx)
        return self.cond(c, then, els, E, st, k, ctx)

    def cond(self, c, then, els, E, st, k, ctx):
        def on(v, E2, st2):
            if v.ty != "bool":
                self.err("if on a %s" % (v.ty,))
            if v.known:
                return self.ex(then if v.known[1] else els, E2, st2, k, ctx)
            return "if %s then\n%s\nelse\n%s" % (v.term, self.ex(then, E2, st2, k, ctx), self.ex(els, E2, st2, k, ctx))
        return self.ex(c, E, st, on, ctx)

    def bind_pat(self, pat, v, E):
        """bind the (single) variable of a one-argument constructor pattern"""
        if pat[2] and pat[2][0]:
            return E.let(pat[2][0], v)
        return E

    def match_(self, v, arms, E, st, k, ctx):
        def arm(body, E2):
            outer = E

            def done(x, E3, st3):
                return k(x, E3.leave(outer), st3)
            return self.ex(body, E2, st, done, ctx)

        def find(ctor):
            for pat, body in arms:
                if pat == ("wild",):
                    return None, body
                if pat[0] == "ctor" and pat[1][-1] == ctor:
                    return pat, body
            self.err("no arm for %s" % ctor)
        if len(arms) == 1 and arms[0][0] == ("wild",):
            return arm(arms[0][1], E)
        ty = v.ty
        if isinstance(ty, tuple) and ty[0] == "sv":
            # typed-view invariant: the variant is the one the layout keeps here
            pat, body = find(ty[1])
            return arm(body, self.bind_pat(pat, v.fields["0"], E) if pat else E)
        if isinstance(ty, tuple) and ty[0] in ("option", "result"):
            yes, no = ("Some", "None") if ty[0] == "option" else ("Ok", "Err")
            for pat, _b in arms:
                if pat != ("wild",) and not (pat[0] == "ctor" and pat[1] in ([yes], [no])):
                    self.err("pattern %r on a %s" % (pat, ty[0]))
            if v.known and v.known[0] in ("some", "ok"):
                pat, body = find(yes)
                return arm(body, self.bind_pat(pat, v.known[1], E) if pat else E)
            if v.known and v.known[0] in ("none", "err"):
                pat, body = find(no)
                if pat and ty[0] == "result":
                    return arm(body, self.bind_pat(pat, v.known[1], E))
                return arm(body, E)
            py, by = find(yes)
            pn, bn = find(no)
            hint = (py[2][0] if py and py[2] and py[2][0] else None) or "v"
            x = self.fresh(hint)
            inner = self.of_ty(ty[1], x)
            Ey = self.bind_pat(py, inner, E) if py else E
            En = self.bind_pat(pn, TsV("err"), E) if (pn and ty[0] == "result") else E
            return "match %s with\n| Some %s =>\n%s\n| None =>\n%s\nend" % (self.plain(v, "the scrutinee"), x, arm(by, Ey), arm(bn, En))
        self.err("match on a %s" % (ty,))

    # ---- places (references into the typed view of the state)
    def key_lit(self, v, what):
        if v.ty != "str" or not v.known or v.known[0] != "lit":
            self.err("%s: the key is not a literal known at translation time" % what)
        return v.known[1]

    def place_call(self, name, kind, args, E, st, k, ctx):
        def go(vs, E2, st2):
            if kind[0] == "root" if isinstance(kind, tuple) else False:
                if len(vs) != 2 or vs[0].ty != ("place", ()):
                    self.err("%s is not called on the whole state" % name)
                path = tuple(kind[1]) + (self.key_lit(vs[1], name),)
                if path not in self.cfg["layout"]:
                    self.err("%s: the typed view has no sub-state %s" % (name, "/".join(path)))
                return k(TsV(("place", path)), E2, st2)
            if len(vs) != 2 or not (isinstance(vs[1].ty, tuple) and vs[1].ty[0] == "place"):
                self.err("%s(key, place) expected" % name)
            path = vs[1].ty[1]
            if path == () or path not in self.cfg["layout"]:
                self.err("%s on something that is not a sub-state of the typed view" % name)
            nd = self.cfg["layout"][path]
            if nd["kind"] == "submap":
                child = path + (self.key_lit(vs[0], name),)
                cn = self.cfg["layout"].get(child)
                if cn is None:
                    self.err("%s: the typed view has no %s" % (name, "/".join(child)))
                if (kind == "list") != (cn["kind"] == "list"):
                    self.err("%s: %s is a %s in the typed view" % (name, "/".join(child), cn["kind"]))
                return k(TsV(("place", child)), E2, st2)
            if nd["kind"] == "dynmap" and kind == "sub" and nd["value"][0] == "serde":
                if vs[0].ty != "str":
                    self.err("%s: the key is not a string" % name)
                return k(TsV(("slot", path), None, None, {"key": vs[0]}), E2, st2)
            self.err("%s on a %s of the typed view" % (name, nd["kind"]))
        return self.exs(args, E, st, go, ctx)

    def need_serde(self, s):
        why = self.cfg.get("serde_ok", {}).get(s, "not checked")
        if why is not None:
            self.err("serialise / deserialise of %s are not understood as mutually inverse (%s)" % (s, why))

    def serde_call(self, s, which, args, E, st, k, ctx, arg_exprs):
        self.need_serde(s)

        def go(vs, E2, st2):
            if which == "de":
                if len(vs) != 1:
                    self.err("deserialiser of %s: arguments" % s)
                m = vs[0]
                if m.ty == ("ser", s):
                    return k(TsV(("option", ("struct", s)), None, ("some", TsV(("struct", s), m.term))), E2, st2)
                if isinstance(m.ty, tuple) and m.ty[0] == "slot":
                    nd = self.cfg["layout"][m.ty[1]]
                    if nd["value"] != ("serde", s):
                        self.err("deserialiser of %s on a slot that holds %s" % (s, nd["value"]))
                    t = nd["lookup"] % (self.plain(m.fields["key"], "the key"), st2.comp(self.cfg, nd["comp"]))
                    return k(TsV(("option", ("struct", s)), t), E2, st2)
                self.err("deserialiser of %s on a %s" % (s, m.ty))
            if len(vs) != 2 or vs[0].ty != ("struct", s):
                self.err("serialiser of %s: arguments" % s)
            m = vs[1]
            if m.ty == ("map_fresh",):
                tgt = _ts_unwrap(arg_exprs[1])
                if tgt[0] != "path" or len(tgt[1]) != 1 or not E2.has(tgt[1][0]):
                    self.err("serialiser of %s into something that is not a local map" % s)
                return k(TS_UNIT, E2.set(tgt[1][0], TsV(("ser", s), self.plain(vs[0], "the record"))), st2)
            if isinstance(m.ty, tuple) and m.ty[0] == "slot":
                nd = self.cfg["layout"][m.ty[1]]
                if nd["value"] != ("serde", s):
                    self.err("serialiser of %s on a slot that holds %s" % (s, nd["value"]))
                c = nd["comp"]
                t = nd["insert"] % (self.plain(m.fields["key"], "the key"), self.plain(vs[0], "the record"), st2.comp(self.cfg, c))
                return k(TS_UNIT, E2, st2.with_comp(c, t))
            self.err("serialiser of %s into a %s" % (s, m.ty))
        return self.exs(args, E, st, go, ctx)

    # ---- calls
    def call(self, e, E, st, k, ctx):
        f, args = e[1], e[2]
        if f[0] != "path":
            self.err("call of a computed function")
        segs = f[1]
        last = segs[-1]
        full = "::".join(segs)
        if segs in (["Some"], ["Ok"], ["Err"]) and len(args) == 1:
            tag, ty = {"Some": ("some", "option"), "Ok": ("ok", "result"), "Err": ("err", "result")}[last]

            def wrap(v, E2, st2):
                if tag == "err":
                    return k(TsV(("result", None), None, ("err", v if v.ty == "err" else TsV("err", None, ("text", v)))), E2, st2)
                return k(TsV((ty, v.ty), None if v.term is None else "(Some %s)" % v.term, (tag, v)), E2, st2)
            return self.ex(args[0], E, st, wrap, ctx)
        if segs == ["HashMap", "new"] and not args:
            return k(TsV(("map_fresh",)), E, st)
        if len(segs) == 2 and segs[0] == "StateValue" and len(args) == 1:
            return self.ex(args[0], E, st, lambda v, E2, st2: k(TsV(("sv", last), None, None, {"0": v}), E2, st2), ctx)
        if len(segs) == 2 and segs[0] == "CommandResult":
            return self.exs(args, E, st, lambda vs, E2, st2: k(TsV("cres", self.cfg["cres"](self, last, vs)), E2, st2), ctx)
        if len(segs) == 2 and segs[0] == "GoToValue" and len(args) == 1:
            return self.ex(args[0], E, st, lambda v, E2, st2: k(TsV(("goto", last), v.term, None, {"0": v}), E2, st2), ctx)
        if last in self.cfg.get("place_fns", {}) and len(segs) == 1:
            return self.place_call(last, self.cfg["place_fns"][last], args, E, st, k, ctx)
        for s, d in self.cfg.get("serde", {}).items():
            if len(segs) == 1 and last in (d["ser"], d["de"]):
                return self.serde_call(s, "ser" if last == d["ser"] else "de", args, E, st, k, ctx, args)
        if full in self.cfg.get("calls", {}) or last in self.cfg.get("calls", {}):
            h = self.cfg["calls"].get(full) or self.cfg["calls"][last]
            return self.exs(args, E, st, lambda vs, E2, st2: h(self, vs, E2, st2, k, ctx), ctx)
        if last in self.cfg["fns"] and (len(segs) == 1 or (len(segs) == 2 and self.cfg["fns"][last].get("module") == segs[0])):
            return self.fn_call(last, args, E, st, k, ctx)
        if last == "new" and len(segs) >= 2 and self.is_cmd_struct(segs[-2]):
            return self.exs(args, E, st, lambda vs, E2, st2: self.cmd_new(segs[-2], vs, E2, st2, k, ctx), ctx)
        self.err("call of %s" % full)

    def fn_call(self, name, args, E, st, k, ctx):
        sig = self.cfg["fns"][name]
        if not sig.get("understood", True):
            self.err("the callee %s is not understood" % name)
        if len(args) != len(sig["params"]):
            self.err("%s: %d arguments" % (name, len(args)))

        def go(vs, E2, st2):
            terms, has_state = [], False
            for v, (pn, pty) in zip(vs, sig["params"]):
                if pty == "state":
                    if v.ty != ("place", ()):
                        self.err("%s: the state argument is not the whole state" % name)
                    has_state = True
                    continue
                terms.append(self.coq_of(self.conv(v, pty), pty))
            for extra in sig.get("extra", []):
                terms.insert(0, self.plain(E2.get(extra) if E2.has(extra) else self.err("%s needs %s" % (name, extra)), extra))
            if has_state:
                terms.append(st2.term(self.cfg))
            callt = "(%s %s)" % (sig["coq"], " ".join(terms)) if terms else sig["coq"]
            kind = sig["ret"]

            def split(ty, st3, pat_of, fuel):
                """the arms for a returned value of type ty (an option / result is split into its two outcomes)"""
                if isinstance(ty, tuple) and ty[0] in ("option", "result"):
                    x = self.fresh(ctx.get("bind_hint") or "v")
                    inner = self.of_ty(ty[1], x)
                    yes = TsV(ty, "(Some %s)" % x, ("some" if ty[0] == "option" else "ok", inner))
                    no = TsV(ty, "None", ("none",) if ty[0] == "option" else ("err", TsV("err", None, ("from", name))))
                    return [(pat_of("Some %s" % x), yes), (pat_of("None"), no)]
                x = self.fresh(ctx.get("bind_hint") or "v")
                return [(pat_of(x), self.of_ty(ty, x))]
            fuel = sig.get("fuel")
            if fuel and not self.sig.get("fuel"):
                self.err("%s can run out of fuel; the configured signature of the caller has no such outcome" % name)
            if kind[0] == "state":
                if fuel:
                    s2 = self.fresh("st")
                    out = "match %s with\n| None => %s\n| Some %s =>\n%s\nend" % (
                        callt, "LRet None" if ctx.get("loop") else "None", s2, k(TS_UNIT, E2, TsSt(s2)))
                    return out
                return k(TS_UNIT, E2, TsSt(callt))
            if kind[0] == "value":
                if fuel:
                    self.err("a fuelled callee that returns a bare value")
                if isinstance(kind[1], tuple) and kind[1][0] in ("option", "result"):
                    arms = split(kind[1], st2, lambda p: p, False)
                    return "match %s with\n%s\nend" % (callt, "\n".join("| %s =>\n%s" % (p, k(v, E2, st2)) for p, v in arms))
                return k(self.of_ty(kind[1], callt), E2, st2)
            s2 = self.fresh("st")
            wrap = (lambda p: "Some (%s, %s)" % (p, s2)) if fuel else (lambda p: "(%s, %s)" % (p, s2))
            arms = split(kind[1], None, wrap, fuel)
            body = "\n".join("| %s =>\n%s" % (p, k(v, E2, TsSt(s2))) for p, v in arms)
            if fuel:
                body = "| None => %s\n%s" % ("None", body)
            return "match %s with\n%s\nend" % (callt, body)
        return self.exs(args, E, st, go, ctx)

    # ---- command structs: name() / aliases() / new() executed from their own source
    def cmd_src(self, s):
        mod = self.cfg["cmd_structs"][s]
        return self.cfg["src"] if mod is None else self.cfg["modules"][mod]["src"]

    def cmd_new(self, s, vs, E, st, k, ctx):
        r = parse_impl_fn_ts(self.cmd_src(s), s, "new")
        if r is None:
            self.err("%s::new not found" % s)
        _recv, params, _rt, body = r
        if len(params) != len(vs):
            self.err("%s::new: arguments" % s)
        E0 = TsEnv()
        for (pn, _t), v in zip(params, vs):
            E0 = E0.let(pn, v)
        return self.inline(body, E0, E, st, k, ctx, "%s::new" % s)

    def inline(self, body, E0, E, st, k, ctx, what):
        """run a small pure helper at the call site: its value goes to k, the caller's environment is untouched"""
        ctx2 = {"inline": lambda v, _E, st2: k(v, E, st2), "st0": ctx.get("st0")}
        if ctx.get("loop"):
            ctx2["loop"] = True
        return self.stmts(body[1], body[2], E0, st, lambda v, _E, st2: k(v, E, st2), ctx2)

    def cmd_method(self, v, m, E, st, k, ctx):
        s = v.ty[1]
        r = parse_trait_fn_ts(self.cmd_src(s), "Command", s, m)
        if r is None:
            if m == "aliases":
                return k(TsV(("list", "str"), "[]", ("items", [])), E, st)      # the trait's default: vec![]
            self.err("%s::%s not found" % (s, m))
        recv, params, _rt, body = r
        if params or recv != "ref":
            self.err("%s::%s takes parameters" % (s, m))
        return self.inline(body, TsEnv().let("self", v), E, st, k, ctx, "%s::%s" % (s, m))

    # ---- method calls
    def local_of(self, e, E):
        e = _ts_unwrap(e) if e[0] in ("ref", "refmut") else e
        if e[0] == "path" and len(e[1]) == 1 and E.has(e[1][0]):
            return e[1][0]
        return None

    def mcall(self, e, E, st, k, ctx):
        recv, m, args = e[1], e[2], e[3]

        def on(v, E2, st2):
            ty = v.ty
            if m in ("clone", "to_owned", "as_str") and not args and (
                    ty in ("str", "nat", "bool") or (isinstance(ty, tuple) and ty[0] in ("struct", "list", "option", "fields"))):
                return k(v, E2, st2)
            if m == "to_string" and not args and ty in ("str", "err"):
                return k(v, E2, st2)
            if m == "to_string" and not args and ty == "nat":
                return k(TsV("str", self.cfg["num_to_string"] % v.term), E2, st2)
            if isinstance(ty, tuple) and ty[0] == "cmd" and m in ("name", "aliases") and not args:
                return self.cmd_method(v, m, E2, st2, k, ctx)
            if isinstance(ty, tuple) and ty[0] == "list":
                if m == "len" and not args:
                    return k(TsV("nat", "(length %s)" % v.term), E2, st2)
                if m == "is_empty" and not args:
                    f = E2.facts.get(v.term)
                    if f:
                        return k(TsV("bool", "true" if f[0] == "nil" else "false", ("lit", f[0] == "nil")), E2, st2)
                    return k(TsV("bool", "(match %s with [] => true | _ :: _ => false end)" % v.term), E2, st2)
                if m in ("push", "append") and len(args) == 1:
                    n = self.local_of(recv, E2)
                    if n is None:
                        self.err("%s on a list that is not a local" % m)

                    def upd(a, E3, st3):
                        cur = E3.get(n)
                        if m == "push":
                            if not self.same_ty(cur.ty[1], a.ty):
                                self.err("push of a %s onto a list of %s" % (a.ty, cur.ty[1]))
                            ety, t = cur.ty[1] or a.ty, "(%s ++ [%s])" % (cur.term, self.plain(a, "the pushed value"))
                            if cur.known and cur.known[0] == "items" and not cur.known[1]:
                                t = "[%s]" % a.term
                        else:
                            if not (isinstance(a.ty, tuple) and a.ty[0] == "list" and self.same_ty(cur.ty[1], a.ty[1])):
                                self.err("append of a %s" % (a.ty,))
                            if self.local_of(args[0], E3) is not None:
                                self.err("append from a local (it would have to be emptied)")
                            ety, t = cur.ty[1] or a.ty[1], "(%s ++ %s)" % (cur.term, a.term)
                            if cur.known and cur.known[0] == "items" and not cur.known[1]:
                                t = a.term
                        return k(TS_UNIT, E3.set(n, TsV(("list", ety), t)), st3)
                    return self.ex(args[0], E2, st2, upd, ctx)
            if ty == "str" and m == "push_str" and len(args) == 1:
                n = self.local_of(recv, E2)
                if n is None:
                    self.err("push_str on a string that is not a local")
                return self.ex(args[0], E2, st2, lambda a, E3, st3: k(TS_UNIT, E3.set(n, TsV(
                    "str", "(%s ++ %s)" % (E3.get(n).term, self.plain(self.conv(a, "str"), "the pushed text")))), st3), ctx)
            if isinstance(ty, tuple) and ty[0] == "place" and ty[1] in self.cfg["layout"]:
                nd = self.cfg["layout"][ty[1]]
                if nd["kind"] == "list" and m == "pop" and not args:
                    s = nd["elem"]
                    self.need_serde(s)
                    c = nd["comp"]
                    h, r = self.fresh(ctx.get("bind_hint") or "top"), self.fresh("rest")
                    hint = ctx.get("pop_hint")
                    elem = TsV(("sv", "SubState"), None, None, {"0": TsV(("ser", s), h)})
                    return "match %s with\n| [] =>\n%s\n| %s :: %s =>\n%s\nend" % (
                        st2.comp(self.cfg, c), k(TsV(("option", ("sv", "SubState")), None, ("none",)), E2, st2),
                        h, r, k(TsV(("option", ("sv", "SubState")), None, ("some", elem)), E2, st2.with_comp(c, r)))
                if nd["kind"] == "list" and m == "push" and len(args) == 1:
                    s = nd["elem"]
                    self.need_serde(s)

                    def push(a, E3, st3):
                        if a.ty != ("sv", "SubState") or a.fields["0"].ty != ("ser", s):
                            self.err("push of something that is not StateValue::SubState(<serialised %s>)" % s)
                        c = nd["comp"]
                        return k(TS_UNIT, E3, st3.with_comp(c, "(%s :: %s)" % (a.fields["0"].term, st3.comp(self.cfg, c))))
                    return self.ex(args[0], E2, st2, push, ctx)
                if nd["kind"] == "dynmap" and nd["value"][0] == "variant" and m == "insert" and len(args) == 2:
                    def ins(vs, E3, st3):
                        key, val = vs
                        if key.ty != "str" or val.ty != ("sv", nd["value"][1]) or val.fields["0"].ty != nd["value"][2]:
                            self.err("insert of %s under a %s key; the typed view keeps StateValue::%s here" % (val.ty, key.ty, nd["value"][1]))
                        c = nd["comp"]
                        return k(TS_UNIT, E3, st3.with_comp(c, nd["insert"] % (key.term, val.fields["0"].term, st3.comp(self.cfg, c))))
                    return self.exs(args, E2, st2, ins, ctx)
            self.err("method %s on a %s" % (m, ty))
        ctx2 = ctx
        return self.ex(recv, E, st, on, ctx2)

    # ---- `loop { .. }` as the last statement
    def loop(self, body, E, st, ctx):
        if ctx.get("loop") or ctx.get("inline") is not None:
            self.err("nested loop")
        if st.over:
            self.err("the state is changed before the loop")
        sig = self.sig
        extras = [n for n in sig.get("loop_locals", [])]
        for n in extras:
            if not E.has(n):
                self.err("the loop body is configured to take the local %s, which does not exist" % n)
        # the body sees the parameters and the configured locals under their own names; any other local of the
        # enclosing function is not available to it
        Eb = TsEnv()
        binders = []
        for pn, pty in sig["params"]:
            if pty == "state":
                Eb = Eb.let(pn, TsV(("place", ())))
            else:
                Eb = Eb.let(pn, self.of_ty(pty, ts_ident(pn)))
                binders.append("(%s : %s)" % (ts_ident(pn), self.cfg["coq_type"](pty)))
        for n in extras:
            v = E.get(n)
            Eb = Eb.let(n, self.of_ty(v.ty, ts_ident(n)))
            binders.append("(%s : %s)" % (ts_ident(n), self.cfg["coq_type"](v.ty)))
        for n in E.names:
            if not Eb.has(n):
                Eb = Eb.let(n, TsV(("opaque", "a local of the enclosing function the loop body is not configured to take")))
        ctx2 = {"loop": True, "st0": "st"}
        bt = self.stmts(body[1], body[2], Eb, TsSt("st"), lambda _v, _E, st2: "LCont %s" % st2.term(self.cfg), ctx2)
        res_ty = self.ret_type_text(inner=True)
        self.loop_defs.append("Definition %s_body %s%s (st : %s) : lstep (%s) (%s) :=\n%s." % (
            sig["coq"], self.cfg["state"].get("implicit", ""), " ".join(binders), self.cfg["state"]["type"],
            self.cfg["state"]["type"], res_ty, bt))
        actual = [ts_ident(pn) for pn, pty in sig["params"] if pty != "state"] + [self.plain(E.get(n), n) for n in extras]
        fuel = self.cfg["fuel"][self.name] % st.term(self.cfg)
        return "loop_r (%s_body %s) %s %s" % (sig["coq"], " ".join(actual), fuel, st.term(self.cfg))

    def ret_type_text(self, inner=False):
        kind = self.sig["ret"]
        ct = self.cfg["coq_type"]
        if kind[0] == "state":
            t = self.cfg["state"]["type"]
        elif kind[0] == "value":
            t = ct(kind[1])
        else:
            t = "%s * %s" % (ct(kind[1]), self.cfg["state"]["type"])
        if self.sig.get("fuel") and not inner:
            t = "option (%s)" % t
        return t

    # ---- the function
    def translate(self, params, body, recv_fields=None):
        """-> [definition text]; params: [(name, type text)] of the source, checked against the configured signature"""
        sig = self.sig
        if not sig.get("context") and [p for p, _t in params] != [p for p, _t in sig["params"]]:
            self.err("parameters %s; the configured signature has %s" % ([p for p, _ in params], [p for p, _ in sig["params"]]))
        E = TsEnv()
        binders = []
        for b in sig.get("pre_binders", []):
            binders.append(b)
        if sig.get("context"):
            E = sig["context"](self, params, E, binders)
        else:
            for (pn, _tt), (_pn, pty) in zip(params, sig["params"]):
                if pty == "state":
                    E = E.let(pn, TsV(("place", ())))
                else:
                    E = E.let(pn, self.of_ty(pty, ts_ident(pn)))
                    binders.append("(%s : %s)" % (ts_ident(pn), self.cfg["coq_type"](pty)))
        has_state = sig.get("context") or any(pty == "state" for _p, pty in sig["params"])
        if has_state:
            binders.append("(st : %s)" % self.cfg["state"]["type"])
        ctx = {"st0": "st"}
        term = self.stmts(body[1], body[2], E, TsSt("st"), lambda v, _E, st2: self.leaf(v, st2, ctx), ctx)
        head = "Definition %s %s%s : %s :=\n%s." % (
            sig["coq"], self.cfg["state"].get("implicit", "") if has_state else "", " ".join(binders), self.ret_type_text(), term)
        return self.loop_defs + [head]


# =================================================================================================
# JSON glue wave, builder B28 (client: lib/gen/json_gen.py — create_structure of duckscript_sdk/src/sdk/std/json/parse/mod.rs,
# encode_from_state_value / encode_from_state of json/encode/mod.rs and the two `run` functions).  Purely additive: nothing
# above this line is changed.  The grammar is PColl's (parse_fn_coll / parse_run_coll); the executor FnJson extends FnColl by
# ONE thing, general `for` loops:
#
#   for PAT in ITER { BODY }      BODY is arbitrary code of the FnColl subset: calls with effects (a recursive call that
#       threads `&mut state`), `if let`, `match`, an early `return e`, panic arms, the out-of-fuel arm of a callee.  The loop
#       state is the tuple of the cells that exist BEFORE the loop and that some path through BODY assigns (found by a first,
#       discarded, execution of BODY); PAT is a name or a tuple of names (`for (key, value) in map`: the items are pairs).
#         - BODY never leaves the function:   let '(c1, .., cn) := for_each_acc (i1, .., in) ITER (fun PAT '(c1, .., cn) => BODY') in REST
#         - BODY may leave the function:      match for_each_brk (i1, .., in) ITER (fun PAT '(c1, .., cn) => BODY'') with
#                                             | inl (c1, .., cn) => REST | inr r => r end
#           where every normal end of BODY'' is `inl (..)` and every `return e` / panic arm / fuel arm is `inr <that result>`
#       (for_each_acc / for_each_brk: coq/theories/Rs2vJsonLib.v).  A body that assigns nothing is dropped only when it cannot
#       leave the function either.
#   Everything else (what a method / path / constructor / macro means, the types, the enum tables) is the configuration's,
#   exactly as for FnColl.
class FnJson(FnColl):
    PANIC_MARK, FUEL_MARK, RET_MARK = "\0JPANIC", "\0JFUEL", "\0JRET"

    def for_(self, s, env, h, k_next, ctx):
        _, pat, it, body = s

        def k_it(itv, h1):
            itv = self.cfg["iter"](self, self.deref(itv, h1), h1)
            ety = itv.ty[1]

            def bind_pat(env0, h0):
                if isinstance(pat, str):
                    x = self.fresh(pat)
                    env2, h2 = self.bind(env0, h0, pat, CollV(ety, x))
                    return env2, h2, x
                if not (isinstance(ety, tuple) and ety[0] == "pair" and len(ety) == len(pat) + 1):
                    raise Rs2vError("for over a tuple pattern of %d names on items of type %r" % (len(pat), ety))
                xs, env2, h2 = [], env0, h0
                for n, t in zip(pat, ety[1:]):
                    x = self.fresh(n)
                    xs.append(x)
                    env2, h2 = self.bind(env2, h2, n, CollV(t, x))
                return env2, h2, "'(%s)" % ", ".join(xs)

            # first execution: which cells does the body assign, can it leave the function
            leaves = []

            def k1(v, h2):
                leaves.append(h2)
                return COLL_HOLE
            ctx1 = dict(ctx)
            ctx1["ret"] = lambda v, h2: self.RET_MARK
            ctx1["panic"], ctx1["fuel"] = self.PANIC_MARK, self.FUEL_MARK
            env_b, h_b, _x = bind_pat(env, h1)
            saved_names, saved_cells = dict(self.names), self.ncell
            t1 = self.block(body, env_b, h_b, k1, ctx1, None)
            self.names, self.ncell = saved_names, saved_cells
            leaves_out = any(m in t1 for m in (self.PANIC_MARK, self.FUEL_MARK, self.RET_MARK))
            changed, new_ty = [], {}
            for c in h1:
                for h2 in leaves:
                    if h2[c] is not h1[c]:
                        if c not in new_ty:
                            changed.append(c)
                            new_ty[c] = h2[c].ty
                        elif new_ty[c] != h2[c].ty and None not in (new_ty[c] if isinstance(new_ty[c], tuple) else ()):
                            if None not in (h2[c].ty if isinstance(h2[c].ty, tuple) else ()):
                                raise Rs2vError("for loop that assigns values of different types to one variable")
            if not changed and not leaves_out:
                return k_next(h1)
            for c in changed:
                if self.is_ref(h1[c]):
                    raise Rs2vError("for loop that re-seats a reference")

            # second execution over symbolic accumulators
            def tup(ts):
                return ts[0] if len(ts) == 1 else "(%s)" % ", ".join(ts)

            def binder(ts):
                return ts[0] if len(ts) == 1 else "'(%s)" % ", ".join(ts)
            env_b, h_b, xb = bind_pat(env, h1)
            accs = [self.fresh("acc") for _c in changed]
            for c, a in zip(changed, accs):
                h_b = self.write(h_b, c, CollV(new_ty[c], a))
            unit = not changed

            def leaf(h2):
                return "tt" if unit else tup([h2[c].term for c in changed])
            ctx2 = dict(ctx)
            if leaves_out:
                k2 = lambda v, h2: "inl %s" % leaf(h2)                                   # noqa: E731
                ctx2["ret"] = lambda v, h2: "inr (%s)" % ctx["ret"](v, h2)
                ctx2["panic"] = "inr (%s)" % ctx["panic"] if ctx.get("panic") is not None else None
                ctx2["fuel"] = "inr (%s)" % ctx["fuel"] if ctx.get("fuel") is not None else None
            else:
                k2 = lambda v, h2: leaf(h2)                                              # noqa: E731
            t2 = self.block(body, env_b, h_b, k2, ctx2, None)
            if any(m in t2 for m in (self.PANIC_MARK, self.FUEL_MARK, self.RET_MARK)) or "None" == ctx2.get("panic", ""):
                raise Rs2vError("for loop: a panic / fuel arm without a term")
            init = "tt" if unit else tup([h1[c].term for c in changed])
            outs = [self.fresh("acc") for _c in changed]
            h_after = h1
            for c, o in zip(changed, outs):
                h_after = self.write(h_after, c, CollV(new_ty[c], o))
            fun = "(fun %s %s =>\n%s)" % (xb, "_" if unit else binder(accs), cmd_indent(t2, 4))
            rest = k_next(h_after)
            if leaves_out:
                r = self.fresh("r")
                return self.matchn("for_each_brk %s %s\n  %s" % (init, itv.term, fun),
                                   [("inl %s" % ("_" if unit else tup(outs)), rest), ("inr %s" % r, r)])
            return "let %s := for_each_acc %s %s\n  %s in\n%s" % (binder(outs), init, itv.term, fun, rest)
        return self.ex(it, env, h, k_it, ctx, None)


# =================================================================================================
# Small-natives wave, builder B30 (client: lib/gen/smallnat_gen.py — the generic `end` dispatch, goto, not, eval, noop).
# Purely additive: nothing above this line is changed.  FnSn is FnTs (typed view of the runtime state, continuation passing,
# decision trees) plus what these small `run` functions use and FnTs refuses:
#   * `map.get(&key)` on a dynamic map of ONE scalar StateValue variant (layout "lookup" spelling): an option of that variant
#     (the `_ =>` arm of a later `match` on the value is dead by the typed-view invariant, as for FnTs' stacks);
#   * `s.starts_with("lit")` (cfg["starts_with"]), `b.to_string()` on a bool (cfg["bool_to_string"]), `format!("..{}..", a, ..)`
#     (the text is the concatenation; the value remembers its template: known = ("fmt", template)), `.clone()` of a result;
#   * `x.f = e;` on a local that is a translation-time struct (("fields", S)), `let (a, _) = call(..)` of a configured callee that
#     returns a tuple (ty ("tuple",), fields "0", "1", ..), struct literals of the structs listed in cfg["field_structs"]
#     (exactly the declared fields);
#   * `match r { CommandResult::Crash(e) => .., _ => .. }` on a result that is only known as a term (cfg["cres_match"] gives
#     the constructor spelling; the payload is an error CODE: known = ("code", term));
#   * functions without any state (sig["stateless"]: no state binder; the context's `state` is then not available).
#   Everything else is FnTs; everything not understood raises Rs2vError.
class FnSn(FnTs):
    def of_ty(self, ty, term):
        if isinstance(ty, tuple) and ty[0] == "sv":
            vt = self.cfg.get("sv_types", {}).get(ty[1])
            if vt is None:
                self.err("a StateValue::%s the typed view does not keep" % ty[1])
            return TsV(ty, None, None, {"0": TsV(vt, term)})
        return TsV(ty, term)

    def ex(self, e, E, st, k, ctx):
        if e[0] == "%val":
            return k(e[1], E, st)
        if e[0] == "macro" and e[1] == "format":
            if not e[2] or e[2][0][0] != "str":
                self.err("format! without a literal template")
            tpl = e[2][0][1]
            parts = tpl.split("{}")
            if "{" in "".join(parts) or "}" in "".join(parts) or len(parts) != len(e[2]):
                self.err("format! template %r with %d arguments" % (tpl, len(e[2]) - 1))

            def done(vs, E2, st2):
                terms = []
                for i, p in enumerate(parts):
                    if p:
                        terms.append(coq_str_lit(p))
                    if i < len(vs):
                        if vs[i].ty != "str":
                            self.err("format! of a %s" % (vs[i].ty,))
                        terms.append(self.plain(vs[i], "a format! argument"))
                t = terms[0] if len(terms) == 1 else "(%s)" % " ++ ".join(terms)
                return k(TsV("str", t, ("fmt", tpl)), E2, st2)
            return self.exs(list(e[2][1:]), E, st, done, ctx)
        return FnTs.ex(self, e, E, st, k, ctx)

    def struct_lit(self, path, names, vs):
        s = path[-1]
        fs = self.cfg.get("field_structs", {})
        if s in fs:
            if sorted(names) != sorted(fs[s]) or len(names) != len(fs[s]):
                self.err("the literal of %s does not name exactly its fields" % s)
            return TsV(("fields", s), None, None, dict(zip(names, vs)))
        return FnTs.struct_lit(self, path, names, vs)

    def stmts(self, items, tail, E, st, k, ctx):
        if items and items[0][0] == "assign":
            s, rest = items[0], items[1:]
            tgt = s[1]
            if s[2] != "=" or tgt[0] != "field" or tgt[1][0] != "path" or len(tgt[1][1]) != 1 or not E.has(tgt[1][1][0]):
                self.err("assignment to something that is not a field of a local")
            n, f = tgt[1][1][0], tgt[2]

            def upd(v, E2, st2):
                cur = E2.get(n)
                if not (isinstance(cur.ty, tuple) and cur.ty[0] == "fields") or cur.fields is None or f not in cur.fields:
                    self.err("assignment to field %s of a %s" % (f, cur.ty))
                nf = dict(cur.fields)
                nf[f] = v
                return self.stmts(rest, tail, E2.set(n, TsV(cur.ty, None, None, nf)), st2, k, ctx)
            return self.ex(s[3], E, st, upd, ctx)
        if items and items[0][0] == "lettuple":
            s, rest = items[0], items[1:]

            def bind(v, E2, st2):
                if v.ty != ("tuple",) or v.fields is None or len(v.fields) != len(s[1]):
                    self.err("let (..) = of a %s" % (v.ty,))
                for i, n in enumerate(s[1]):
                    if n != "_":
                        E2 = E2.let(n, v.fields[str(i)])
                return self.stmts(rest, tail, E2, st2, k, ctx)
            return self.ex(s[2], E, st, bind, ctx)
        return FnTs.stmts(self, items, tail, E, st, k, ctx)

    def match_(self, v, arms, E, st, k, ctx):
        cm = self.cfg.get("cres_match")
        if v.ty == "cres" and cm and not (len(arms) == 1 and arms[0][0] == ("wild",)):
            if v.term is None:
                self.err("match on a result that is not a term")
            outer = E
            out, seen, has_wild = [], set(), False
            for pat, body in arms:
                def done(x, E3, st3):
                    return k(x, E3.leave(outer), st3)
                if pat == ("wild",):
                    has_wild = True
                    out.append("| _ =>\n%s" % self.ex(body, E, st, done, ctx))
                    break
                if pat[0] != "ctor" or len(pat[1]) != 2 or pat[1][0] != "CommandResult" or pat[1][1] not in cm or pat[1][1] in seen:
                    self.err("pattern %r on a CommandResult" % (pat,))
                seen.add(pat[1][1])
                x = self.fresh((pat[2][0] if pat[2] and pat[2][0] else None) or "e")
                E2 = self.bind_pat(pat, TsV("err", None, ("code", x)), E)
                out.append("| %s %s =>\n%s" % (cm[pat[1][1]], x, self.ex(body, E2, st, done, ctx)))
            if not has_wild:
                self.err("match on a CommandResult without a `_` arm")
            return "match %s with\n%s\nend" % (v.term, "\n".join(out))
        return FnTs.match_(self, v, arms, E, st, k, ctx)

    def mcall(self, e, E, st, k, ctx):
        recv, m, args = e[1], e[2], e[3]
        if m not in ("get", "starts_with", "to_string", "clone"):
            return FnTs.mcall(self, e, E, st, k, ctx)

        def on(v, E2, st2):
            ty = v.ty
            if m == "clone" and not args and ty in ("cres", "err"):
                return k(v, E2, st2)
            if m == "to_string" and not args and ty == "bool" and "bool_to_string" in self.cfg:
                return k(TsV("str", self.cfg["bool_to_string"] % self.plain(v, "the bool")), E2, st2)
            if m == "starts_with" and len(args) == 1 and ty == "str" and "starts_with" in self.cfg:
                def sw(p, E3, st3):
                    if p.ty != "str" or not p.known or p.known[0] != "lit":
                        self.err("starts_with of something that is not a string literal")
                    return k(TsV("bool", self.cfg["starts_with"] % (p.term, self.plain(v, "the string"))), E3, st3)
                return self.ex(args[0], E2, st2, sw, ctx)
            if m == "get" and len(args) == 1 and isinstance(ty, tuple) and ty[0] == "place" and ty[1] in self.cfg["layout"]:
                nd = self.cfg["layout"][ty[1]]
                if nd["kind"] == "dynmap" and nd["value"][0] == "variant" and "lookup" in nd:
                    def get(key, E3, st3):
                        if key.ty != "str":
                            self.err("get with a key that is not a string")
                        t = nd["lookup"] % (self.plain(key, "the key"), st3.comp(self.cfg, nd["comp"]))
                        return k(TsV(("option", ("sv", nd["value"][1])), t), E3, st3)
                    return self.ex(args[0], E2, st2, get, ctx)
            return FnTs.mcall(self, ("mcall", ("%val", v), m, args), E2, st2, k, ctx)
        return self.ex(recv, E, st, on, ctx)

    def translate(self, params, body, recv_fields=None):
        sig = self.sig
        if not sig.get("stateless"):
            return FnTs.translate(self, params, body, recv_fields)
        if not sig.get("context"):
            self.err("a stateless function without a configured context")
        binders = list(sig.get("pre_binders", []))
        E = sig["context"](self, params, TsEnv(), binders)
        ctx = {"st0": "st"}
        term = self.stmts(body[1], body[2], E, TsSt("st"), lambda v, _E, st2: self.leaf(v, st2, ctx), ctx)
        if re.search(r"\bst\b", term):
            self.err("a function configured as stateless reaches the state")
        return self.loop_defs + ["Definition %s %s : %s :=\n%s." % (sig["coq"], " ".join(binders), self.ret_type_text(), term)]


# =================================================================================================
# File-command wave, builder B29 (client: lib/gen/fs_gen.py — the `run` functions of the file commands of
# duckscript_sdk/src/sdk/std/fs and the helpers of utils/io.rs -> coq/generated/GenFsFn.v).  Purely additive: nothing above
# this line is changed.
#
#   PFs / parse_fs_run / parse_fs_helper     the PCmd grammar + tuple patterns `(Ok(a), Ok(b))` in match arms
#   FnFs(FnCmd)    the continuation-passing executor of FnCmd with ONE threaded piece of state, the file tree:
#     * `self.tree` is the Coq term of the tree at the point being executed.  A configured EFFECT (cfg["effects"]: a callee that
#       changes the tree and answers Ok(()) / Err(_)) is `let '(ok, t') := <primitive> <tree> in ..` and everything after it is
#       executed with t'; a configured READ mentions `fn.tree` in its term.  Its result is a value of type ("bres",): a `match`
#       / `if let` on it is `if ok then <Ok arm> else <Err arm>`.  (Branches are generated one after the other, so the current
#       tree is restored when a continuation returns: in CPS everything "after" an effect lies inside its continuation.)
#     * `for i in a..b { .. }` (a, b of type nat) whose body may `return` and may read `<argument vector>[i]` (an explicit panic
#       arm `match nth_error args i with None => LPanic ..`): `match for_idx (fun i t => BODY) (idx_range a b) <tree> with LPanic
#       => <panic> | LRet o t' => <return o at t'> | LNext t' => <rest at t'> end` (Rs2vFsLib.v); the body's normal end is LNext.
#     * `match (A, B) { (Ok(x), Ok(y)) => E1, _ => E2 }` on two pure Result values: nested option matches, E2 in both other arms.
#     * `match v { StateValue::ByteArray(b) => .., _ => .. }` on a value of a configured enum type (cfg["enums"]).
#     * char literals (a value that exists only statically), `v[i]` with the loop variable.
#   What a callee MEANS is the configuration's; everything not understood raises Rs2vError.
class PFs(PCmd):
    def pattern(self):
        if self.at("op", "("):
            self.i += 1
            items = []
            while not self.at("op", ")"):
                items.append(self.pattern())
                if not self.opt("op", ","):
                    break
            self.eat("op", ")")
            return ("tuplepat", items)
        return super().pattern()


def parse_fs_run(src, trait="Command", type_name="CommandImpl", name="run"):
    """`fn run` of `impl Command for CommandImpl { .. }`, PFs grammar -> (receiver, [(param, type text)], body)"""
    ms = list(re.finditer(r"^\s*impl\s+%s\s+for\s+%s\s*\{" % (re.escape(trait), re.escape(type_name)), src, re.M))
    if len(ms) != 1:
        raise Rs2vError("impl %s for %s: %d blocks" % (trait, type_name, len(ms)))
    body = balanced_block(src, ms[0].end() - 1)
    fs = list(re.finditer(r"\bfn\s+%s\s*\(" % re.escape(name), body))
    if len(fs) != 1:
        raise Rs2vError("fn %s: %d definitions in impl %s for %s" % (name, len(fs), trait, type_name))
    p = PFs(lex(body[fs[0].start():], stop_after_item=True))
    _n, params, blk = p.fn()
    return p.receiver, params, blk


def parse_fs_helper(src, name):
    """a free function of a file, PFs grammar -> ([(param, type text)], return type text, body)"""
    ms = list(re.finditer(r"^(?:pub(?:\([a-z]+\))?\s+)?fn\s+%s\s*\(" % re.escape(name), src, re.M))
    if len(ms) != 1:
        raise Rs2vError("fn %s: %d definitions" % (name, len(ms)))
    p = PFs(lex(src[ms[0].start():], stop_after_item=True))
    _n, params, body = p.fn()
    if p.receiver is not None:
        raise Rs2vError("fn %s has a receiver" % name)
    return params, p.ret_type, body


class FnFs(FnCmd):
    """extra cfg keys:
      tree        Coq term of the tree `run` starts with
      effects     {rust path string: f(fn, [CmdV], k) -> Coq text}   callees that change the tree (use fn.effect)
      enums       {ty: {variant name: (Coq constructor, payload ty)}}
      loop_ret    f(fn, CmdV) -> Coq term of the `out` a `return` inside a loop body carries
    """

    def __init__(self, cfg):
        super().__init__(cfg)
        self.tree = cfg["tree"]
        self.panic_term = cfg["panic"]

    def panic(self):
        return self.panic_term

    def effect(self, fterm, k, ty=("bres",)):
        """let '(ok, t') := fterm <tree> in <everything after, at t'>"""
        ok, t1 = self.fresh("ok"), self.fresh("t")
        old = self.tree
        self.tree = t1
        try:
            body = k(CmdV(ty, ok))
        finally:
            self.tree = old
        return "(let '(%s, %s) := %s %s in\n%s)" % (ok, t1, fterm, old, body)

    # ---- expressions
    def ex(self, e, env, k, ctx, expect=None):
        if e[0] == "char":
            return k(CmdV("char", None, lit=e[1]))
        return super().ex(e, env, k, ctx, expect)

    def call(self, e, env, k, ctx, expect):
        if e[1][0] == "path":
            h = self.cfg.get("effects", {}).get("::".join(e[1][1]))
            if h is not None:
                return self.seq(e[2], env, lambda vs: h(self, vs, k), ctx)
        return super().call(e, env, k, ctx, expect)

    def index(self, e, env, k, ctx):
        ix = e[2]
        if ix[0] == "path" and len(ix[1]) == 1 and ix[1][0] in env and not ix[1][0].startswith("%") \
                and isinstance(env[ix[1][0]], CmdV) and env[ix[1][0]].ty == "nat":
            iv = env[ix[1][0]]

            def k_base(b):
                if b.term != self.cfg["args_term"]:
                    raise Rs2vError("indexing other than <argument vector>[<index>]")
                x = self.fresh("a_" + ix[1][0])
                return self.match2("nth_error %s %s" % (b.term, iv.term), "None", self.panic(), "Some %s" % x, k(CmdV("str", x)))
            return self.ex(e[1], env, k_base, ctx, None)
        return super().index(e, env, k, ctx)

    # ---- match
    def fs_arm(self, arms, ctor, payload, whole, env, k, ctx, expect):
        name, body = self.arm_for(arms, ctor)
        env2 = self.enter(env)
        if isinstance(name, tuple):
            self.declare(env2, name[1], whole)
        elif name is not None:
            if payload is None:
                raise Rs2vError("pattern variable %s for a value without a payload" % name)
            self.declare(env2, name, payload)
        return self.block(body, env2, k, ctx, expect) if body[0] == "block" else self.ex(body, env2, k, ctx, expect)

    def match(self, e, env, k, ctx, expect):
        arms = e[2]
        if e[1][0] == "tuple":
            return self.match_pair(e, env, k, ctx, expect)
        if any(p[0] == "tuplepat" for p, _b in arms):
            raise Rs2vError("tuple pattern on something else than a tuple expression")

        def k_s(v):
            tag = v.ty[0] if isinstance(v.ty, tuple) else v.ty
            if tag == "bres" and v.known is None:
                good = self.fs_arm(arms, "Ok", CmdV("unit"), v, env, k, ctx, expect)
                bad = self.fs_arm(arms, "Err", CmdV("ioerr"), v, env, k, ctx, expect)
                return self.ite(v.term, good, bad)
            if tag in self.cfg.get("enums", {}) and v.known is None:
                return self.match_enum(v, self.cfg["enums"][tag], arms, env, k, ctx, expect)
            env2 = dict(env)
            env2["scrutinee__"] = v
            return FnCmd.match(self, ("match", ("path", ["scrutinee__"]), arms), env2, k, ctx, expect)
        return self.ex(e[1], env, k_s, ctx, self.parse_hint(e[1], arms, expect))

    def match_enum(self, v, variants, arms, env, k, ctx, expect):
        out, seen, closed = [], set(), False
        for pat, body in arms:
            if closed:
                raise Rs2vError("arm after a catch-all arm")
            env2 = self.enter(env)
            if pat[0] == "wild":
                closed = True
                lhs = "_"
            elif pat[0] == "ctor" and pat[1][-1] in variants and pat[1][-1] not in seen:
                coq, pty = variants[pat[1][-1]]
                seen.add(pat[1][-1])
                if pty is None:
                    if pat[2]:
                        raise Rs2vError("sub-pattern of %s" % pat[1][-1])
                    lhs = coq
                else:
                    if len(pat[2]) != 1:
                        raise Rs2vError("%s pattern with %d sub-patterns" % (pat[1][-1], len(pat[2])))
                    if pat[2][0] is None:
                        lhs = "%s _" % coq
                    else:
                        x = self.fresh(pat[2][0])
                        self.declare(env2, pat[2][0], CmdV(pty, x))
                        lhs = "%s %s" % (coq, x)
            else:
                raise Rs2vError("pattern %r on a value of type %r" % (pat, v.ty))
            t = self.block(body, env2, k, ctx, expect) if body[0] == "block" else self.ex(body, env2, k, ctx, expect)
            out.append("| %s =>\n%s" % (lhs, cmd_indent(t, 4)))
        if not closed and len(seen) != len(variants):
            raise Rs2vError("match on %r that is not exhaustive" % (v.ty,))
        return "match %s with\n%s\nend" % (v.term, "\n".join(out))

    def match_pair(self, e, env, k, ctx, expect):
        """match (A, B) { (Ok(x), Ok(y)) => E1, _ => E2 }  (also Some / Some)"""
        arms = e[2]
        if len(e[1][1]) != 2 or len(arms) != 2 or arms[0][0][0] != "tuplepat" or arms[1][0][0] != "wild":
            raise Rs2vError("match on a tuple of another shape than { (C(x), C(y)) => .., _ => .. }")
        pats = arms[0][0][1]
        if len(pats) != 2 or any(p[0] != "ctor" or p[1][-1] not in ("Ok", "Some") or len(p[2]) != 1 for p in pats):
            raise Rs2vError("tuple pattern of another shape than (Ok(x), Ok(y))")

        def k_ab(vs):
            for v, p in zip(vs, pats):
                want = "res" if p[1][-1] == "Ok" else "opt"
                if not (isinstance(v.ty, tuple) and v.ty[0] == want) or v.known is not None or v.term is None:
                    raise Rs2vError("tuple match on a component of type %r" % (v.ty,))
            xs = [self.fresh(p[2][0] or "x") for p in pats]
            env2 = self.enter(env)
            for v, p, x in zip(vs, pats, xs):
                if p[2][0] is not None:
                    self.declare(env2, p[2][0], CmdV(v.ty[1], x))
            b1, b2 = arms[0][1], arms[1][1]
            hit = self.block(b1, env2, k, ctx, expect) if b1[0] == "block" else self.ex(b1, env2, k, ctx, expect)
            envw = self.enter(env)
            miss1 = self.block(b2, envw, k, ctx, expect) if b2[0] == "block" else self.ex(b2, envw, k, ctx, expect)
            miss2 = self.block(b2, envw, k, ctx, expect) if b2[0] == "block" else self.ex(b2, envw, k, ctx, expect)
            inner = self.match2(vs[1].term, "Some %s" % xs[1], hit, "None", miss1)
            return self.match2(vs[0].term, "Some %s" % xs[0], inner, "None", miss2)
        return self.seq(e[1][1], env, k_ab, ctx)

    # ---- statements: the indexed loop
    def stmts(self, ss, tail, env, k, ctx, expect):
        if ss and ss[0][0] == "for":
            return self.for_range(ss[0], ss[1:], tail, env, k, ctx, expect)
        return super().stmts(ss, tail, env, k, ctx, expect)

    def for_range(self, s, rest, tail, env, k, ctx, expect):
        _, pat, it, body = s

        def k_it(r):
            if r.ty != ("range", "nat"):
                raise Rs2vError("for over %r (only a..b on the argument count is understood)" % (r.ty,))
            a, b = r.items
            i, tl = self.fresh(pat), self.fresh("t")
            env_b = self.enter(env)
            self.declare(env_b, pat, CmdV("nat", i))
            old_tree, old_panic = self.tree, self.panic_term
            self.tree, self.panic_term = tl, "LPanic"
            bctx = {"ret": lambda v: "LRet %s %s" % (self.cfg["loop_ret"](self, v), self.tree), "ret_type": ctx["ret_type"]}

            def k_end(v):
                if v.ty != "unit":
                    raise Rs2vError("loop body ending in a value of type %r" % (v.ty,))
                return "LNext %s" % self.tree
            try:
                body_t = self.block(body, env_b, k_end, bctx, "unit")
            finally:
                self.tree, self.panic_term = old_tree, old_panic
            o, t2, t3 = self.fresh("o"), self.fresh("t"), self.fresh("t")
            try:
                self.tree = t2
                ret_t = ctx["ret"](CmdV("cmdresult", o))
                self.tree = t3
                rest_t = self.stmts(rest, tail, env, k, ctx, expect)
            finally:
                self.tree = old_tree
            return ("match for_idx (fun (%s : nat) (%s : tree) =>\n%s) (idx_range %s %s) %s with\n| LPanic =>\n%s\n| LRet %s %s =>\n%s\n"
                    "| LNext %s =>\n%s\nend" % (i, tl, cmd_indent(body_t, 4), a.term, b.term, old_tree, cmd_indent(self.panic(), 4),
                                               o, t2, cmd_indent(ret_t, 4), t3, cmd_indent(rest_t, 4)))
        return self.ex(it, env, k_it, ctx, None)
