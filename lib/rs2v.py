"""rs2v — a small Rust-to-Gallina translator for the scanner-style functions of duckscript.

It understands a deliberately small subset of Rust (enough for the hand-rolled state machines the
properties are anchored in: `let [mut]`, assignments, `+= 1` / `-= 1`, `String::push / push_str /
clear`, `if / else if / else`, `if let Some(x) = ..`, `match` on Option / Result / unit enums,
`for x in a..b`, `for c in s.chars()`, `break`, `return`, calls of other translated functions with
`&mut String` parameters, comparisons and boolean operators) and refuses everything else with
Rs2vError — it never guesses.  The result is an ordinary Gallina term built by symbolic execution of
the statement list:

  * every mutable local becomes a component of an explicit state; a loop body becomes a function
    from the state (and the loop item) to `step state` (SContinue / SBreak / SFail / SPanic);
  * every Rust operation that can unwind is explicit: `v[i]` is `nth_error` with SPanic / IPanic on
    None, `i -= 1` on usize is `usize_dec` with panic on 0;
  * `if` duplicates the continuation into both branches (the functions are small), so the output is
    a decision tree whose leaves are states / results.

The *shape* of the generated term (which record a state is packed into, how Rust constructors are
spelled) is given by a per-function configuration, so that the generated function has the same
type as the hand-written model function it is proved equal to (lib/gen/core_gen.py)."""
import re


class Rs2vError(Exception):
    pass


# ---------------------------------------------------------------------------------------------
# lexer
TOK = re.compile(r"""
    (?P<ws>\s+|//[^\n]*|/\*.*?\*/)
  | (?P<char>'(?:\\.|[^'\\])')
  | (?P<str>"(?:\\.|[^"\\])*")
  | (?P<num>\d+)
  | (?P<id>[A-Za-z_][A-Za-z0-9_]*!?)
  | (?P<op>::|->|=>|==|!=|<=|>=|&&|\|\||\+=|-=|\.\.|[{}()\[\];,.:=<>!&+\-*|])
""", re.S | re.X)

ESC = {"n": "\n", "r": "\r", "t": "\t", "\\": "\\", '"': '"', "'": "'", "0": "\0"}


def unescape(body):
    out, i = [], 0
    while i < len(body):
        c = body[i]
        if c == "\\":
            i += 1
            if body[i] not in ESC:
                raise Rs2vError("unsupported escape \\%s" % body[i])
            out.append(ESC[body[i]])
        else:
            out.append(c)
        i += 1
    return "".join(out)


def lex(src, stop_after_item=False):
    """tokenise [src]; with [stop_after_item] stop right after the first balanced `{ .. }` block (one fn item), so that
    later items of the file the lexer has no rule for (attributes, lifetimes, `?` ...) are never looked at"""
    pos, toks = 0, []
    depth, opened = 0, False
    while pos < len(src):
        if stop_after_item and opened and depth == 0:
            break
        m = TOK.match(src, pos)
        if not m:
            raise Rs2vError("cannot tokenise at: %r" % src[pos:pos + 30])
        pos = m.end()
        k = m.lastgroup
        if k == "ws":
            continue
        t = m.group(k)
        if k == "char":
            toks.append(("char", unescape(t[1:-1])))
        elif k == "str":
            toks.append(("str", unescape(t[1:-1])))
        elif k == "num":
            toks.append(("num", int(t)))
        elif k == "id":
            toks.append(("id", t))
        else:
            toks.append(("op", t))
            if t == "{":
                depth += 1
                opened = True
            elif t == "}":
                depth -= 1
    toks.append(("eof", None))
    return toks


# ---------------------------------------------------------------------------------------------
# parser (expressions with precedence climbing; blocks; statements)
class P:
    def __init__(self, toks):
        self.t, self.i = toks, 0

    def peek(self, k=0):
        return self.t[self.i + k]

    def at(self, kind, val=None):
        a = self.t[self.i]
        return a[0] == kind and (val is None or a[1] == val)

    def eat(self, kind, val=None):
        a = self.t[self.i]
        if a[0] != kind or (val is not None and a[1] != val):
            raise Rs2vError("expected %s %r, found %r" % (kind, val, a))
        self.i += 1
        return a[1]

    def opt(self, kind, val=None):
        if self.at(kind, val):
            self.i += 1
            return True
        return False

    # ---- types are skipped, not interpreted
    def skip_type(self):
        depth = 0
        while True:
            a = self.peek()
            if a[0] == "eof":
                raise Rs2vError("eof in type")
            if a[0] == "op" and a[1] in ("<", "(", "["):
                depth += 1
            elif a[0] == "op" and a[1] in (">", ")", "]"):
                if depth == 0:
                    return
                depth -= 1
            elif a[0] == "op" and a[1] in (",", "=", ";", "{") and depth == 0:
                return
            self.i += 1

    def fn(self):
        """fn name(params) [-> type] block  — returns (name, [(pname, is_mut_ref)], block)"""
        while not self.at("id", "fn"):
            self.i += 1          # pub, pub(crate) ...
        self.eat("id", "fn")
        name = self.eat("id")
        if self.opt("op", "<"):
            raise Rs2vError("generic fn %s" % name)
        self.eat("op", "(")
        params = []
        while not self.at("op", ")"):
            self.opt("id", "mut")
            pn = self.eat("id")
            self.eat("op", ":")
            mut_ref = self.at("op", "&") and self.peek(1) == ("id", "mut")
            self.skip_type()
            params.append((pn, mut_ref))
            self.opt("op", ",")
        self.eat("op", ")")
        if self.opt("op", "->"):
            self.skip_type()
        return name, params, self.block()

    def block(self):
        self.eat("op", "{")
        stmts, tail = [], None
        while not self.at("op", "}"):
            s = self.stmt()
            if s[0] == "tail":
                tail = s[1]
                if not self.at("op", "}"):
                    raise Rs2vError("expression without ';' in the middle of a block")
            else:
                stmts.append(s)
        self.eat("op", "}")
        return ("block", stmts, tail)

    def stmt(self):
        if self.at("id", "let"):
            self.i += 1
            mut = self.opt("id", "mut")
            name = self.eat("id")
            if self.opt("op", ":"):
                self.skip_type()
            self.eat("op", "=")
            e = self.expr()
            self.eat("op", ";")
            return ("let", name, e)
        if self.at("id", "break"):
            self.i += 1
            self.eat("op", ";")
            return ("break",)
        if self.at("id", "return"):
            self.i += 1
            e = None if self.at("op", ";") else self.expr()
            self.opt("op", ";")
            return ("return", e)
        if self.at("id", "for"):
            self.i += 1
            pat = self.eat("id")
            self.eat("id", "in")
            it = self.expr(no_struct=True)
            b = self.block()
            return ("for", pat, it, b)
        e = self.expr()
        if self.at("op", "=") or self.at("op", "+=") or self.at("op", "-="):
            op = self.eat("op")
            r = self.expr()
            if not self.opt("op", ";"):
                if not self.at("op", "}"):
                    raise Rs2vError("assignment not followed by ';' or '}'")
            return ("assign", e, op, r)
        if self.opt("op", ";"):
            return ("expr", e)
        if e[0] in ("if", "iflet", "match", "block") and not self.at("op", "}"):
            return ("expr", e)           # block-like expression statement
        return ("tail", e)

    PREC = [("||",), ("&&",), ("==", "!=", "<", ">", "<=", ">="), ("..",), ("+", "-"), ("*",)]

    def expr(self, lvl=0, no_struct=False):
        if lvl == len(self.PREC):
            return self.unary(no_struct)
        l = self.expr(lvl + 1, no_struct)
        while self.peek()[0] == "op" and self.peek()[1] in self.PREC[lvl]:
            op = self.eat("op")
            r = self.expr(lvl + 1, no_struct)
            l = ("bin", op, l, r)
        return l

    def unary(self, no_struct):
        if self.opt("op", "!"):
            return ("not", self.unary(no_struct))
        if self.opt("op", "&"):
            self.opt("id", "mut")
            return ("ref", self.unary(no_struct))
        if self.opt("op", "*"):
            return self.unary(no_struct)
        return self.postfix(self.atom(no_struct))

    def args(self, close):
        a = []
        while not self.at("op", close):
            a.append(self.expr())
            if not self.opt("op", ","):
                break
        self.eat("op", close)
        return a

    def postfix(self, e):
        while True:
            if self.opt("op", "("):
                e = ("call", e, self.args(")"))
            elif self.opt("op", "["):
                ix = self.expr()
                self.eat("op", "]")
                e = ("index", e, ix)
            elif self.at("op", ".") and self.peek(1)[0] == "id":
                self.i += 1
                n = self.eat("id")
                if self.opt("op", "("):
                    e = ("mcall", e, n, self.args(")"))
                else:
                    e = ("field", e, n)
            else:
                return e

    def atom(self, no_struct):
        a = self.peek()
        if a[0] == "char":
            self.i += 1
            return ("char", a[1])
        if a[0] == "str":
            self.i += 1
            return ("str", a[1])
        if a[0] == "num":
            self.i += 1
            return ("num", a[1])
        if a == ("op", "("):
            self.i += 1
            if self.opt("op", ")"):
                return ("tuple", [])
            e = self.expr()
            if self.opt("op", ","):
                items = [e] + self.args(")")
                return ("tuple", items)
            self.eat("op", ")")
            return e
        if a == ("op", "{"):
            return self.block()
        if a[0] == "id":
            if a[1] == "if":
                self.i += 1
                if self.opt("id", "let"):
                    pat = self.pattern()
                    self.eat("op", "=")
                    e = self.expr(no_struct=True)
                    b = self.block()
                    el = self.else_part()
                    return ("iflet", pat, e, b, el)
                c = self.expr(no_struct=True)
                b = self.block()
                return ("if", c, b, self.else_part())
            if a[1] == "match":
                self.i += 1
                e = self.expr(no_struct=True)
                self.eat("op", "{")
                arms = []
                while not self.at("op", "}"):
                    pat = self.pattern()
                    self.eat("op", "=>")
                    if self.at("id", "return") or self.at("id", "break"):
                        s = self.stmt_in_arm()
                        body = ("block", [s], None)
                    else:
                        body = self.expr()
                        if self.at("op", "=") or self.at("op", "+=") or self.at("op", "-="):
                            op = self.eat("op")
                            r = self.expr()
                            body = ("block", [("assign", body, op, r)], None)
                    self.opt("op", ",")
                    arms.append((pat, body))
                self.eat("op", "}")
                return ("match", e, arms)
            if a[1] in ("true", "false"):
                self.i += 1
                return ("bool", a[1] == "true")
            if a[1].endswith("!"):
                self.i += 1
                close = {"(": ")", "[": "]"}[self.eat("op")]
                return ("macro", a[1][:-1], self.args(close))
            self.i += 1
            path = [a[1]]
            while self.at("op", "::"):
                self.i += 1
                path.append(self.eat("id"))
            return ("path", path)
        raise Rs2vError("unexpected token %r" % (a,))

    def stmt_in_arm(self):
        if self.at("id", "break"):
            self.i += 1
            return ("break",)
        self.eat("id", "return")
        return ("return", self.expr())

    def else_part(self):
        if not self.opt("id", "else"):
            return None
        if self.at("id", "if"):
            e = self.atom(False)
            return ("block", [], e)
        return self.block()

    def pattern(self):
        a = self.peek()
        if a == ("id", "_"):
            self.i += 1
            return ("wild",)
        if a[0] in ("char", "str", "num"):
            self.i += 1
            return (a[0], a[1])
        self.opt("id", "ref")
        path = [self.eat("id")]
        while self.opt("op", "::"):
            path.append(self.eat("id"))
        sub = []
        if self.opt("op", "("):
            while not self.at("op", ")"):
                self.opt("id", "ref")
                self.opt("id", "mut")
                if self.opt("id", "_"):
                    sub.append(None)
                else:
                    sub.append(self.eat("id"))
                self.opt("op", ",")
            self.eat("op", ")")
        return ("ctor", path, sub)


def parse_fn(src, name):
    m = re.search(r"(?:pub(?:\([a-z]+\))?\s+)?fn\s+%s\s*\(" % re.escape(name), src)
    if not m:
        raise Rs2vError("fn %s not found" % name)
    p = P(lex(src[m.start():], stop_after_item=True))
    n, params, body = p.fn()
    return params, body


# ---------------------------------------------------------------------------------------------
# symbolic execution to Gallina
def coq_char(c):
    return "%d%%N" % ord(c)


def coq_str_lit(s):
    return "[" + ";".join("%d%%N" % ord(c) for c in s) + "]"


class Ty:
    """variable kinds the executor knows how to operate on"""
    BOOL, NAT, NUM_N, CHAR, STR, STR_REV, OPAQUE, INT_Z = "bool", "nat", "N", "char", "str", "str_rev", "opaque", "Z"


class Fn:
    """configuration + executor for one Rust function.

    cfg keys:
      params      {rust name: (type, coq term)}      parameters (immutable)
      locals      {rust name: type}                  every `let mut` the function declares
      state       (ctor_fmt, [rust names in field order], {rust name: projection fmt})  how the loop state is packed:
                  ctor_fmt % tuple(terms), projection fmt % state_var
      ctors       {rust path string: coq fmt}        constructors of results / errors, e.g. 'Ok': 'IOk %s'
      returns     'value' | ...                      how `return e` / tail values are wrapped: cfg['wrap_ok'](term)
      step        dict(cont=, brk=, fail=, panic=)   spellings of the loop-step constructors
      res         dict(ok=, err_match=, panic=)      how a loop result is consumed
      helpers     {rust fn name: (coq name, [param kinds])}  other translated functions callable from here
      methods     {(type, method): handler}          extra method translations
    """

    def __init__(self, cfg):
        self.cfg = cfg
        self.fresh = 0
        self.loops = []          # generated loop-body definitions: (name, text)

    def newvar(self, base):
        self.fresh += 1
        return "%s_%d" % (base, self.fresh)

    # ---- types
    def type_of(self, e, env):
        k = e[0]
        if k == "path" and len(e[1]) == 1:
            n = e[1][0]
            if n in env:
                return env[n][0]
            raise Rs2vError("unknown variable %s" % n)
        if k == "char":
            return Ty.CHAR
        if k == "str":
            return Ty.STR
        if k == "bool" or k == "not":
            return Ty.BOOL
        if k == "num":
            return None
        if k == "bin":
            if e[1] in ("||", "&&", "==", "!=", "<", ">", "<=", ">="):
                return Ty.BOOL
            return self.type_of(e[2], env) or self.type_of(e[3], env)
        if k == "ref":
            return self.type_of(e[1], env)
        if k == "mcall":
            r = self.cfg.get("method_types", {}).get(e[2])
            if r:
                return r
            if e[2] in ("is_empty", "is_none", "is_some"):
                return Ty.BOOL
            if e[2] in ("to_string", "clone", "to_owned"):
                return self.type_of(e[1], env)
            if e[2] == "len":
                return Ty.NAT
        if k == "call" and e[1][0] == "path":
            h = self.cfg.get("helpers", {}).get(e[1][1][-1])
            if h:
                return h.get("ret")
        raise Rs2vError("cannot type %r" % (e,))

    # ---- pure expressions -> coq term (string).  Partial operations are NOT allowed here.
    def ex(self, e, env):
        k = e[0]
        if k == "path":
            if len(e[1]) == 1 and e[1][0] in env:
                return env[e[1][0]][1]
            name = "::".join(e[1])
            if name in self.cfg.get("ctors", {}):
                f = self.cfg["ctors"][name]
                if "%s" in f:
                    raise Rs2vError("constructor %s needs arguments" % name)
                return f
            raise Rs2vError("unknown name %s" % name)
        if k == "char":
            return coq_char(e[1])
        if k == "bool":
            return "true" if e[1] else "false"
        if k == "str":
            return coq_str_lit(e[1])
        if k == "not":
            return "(negb %s)" % self.ex(e[1], env)
        if k == "ref":
            return self.ex(e[1], env)
        if k == "tuple":
            return "(" + ", ".join(self.ex(x, env) for x in e[1]) + ")"
        if k == "macro" and e[1] == "vec" and not e[2]:
            return "[]"
        if k == "bin":
            op, l, r = e[1], e[2], e[3]
            if op == "||":
                return "(%s || %s)" % (self.ex(l, env), self.ex(r, env))
            if op == "&&":
                return "(%s && %s)" % (self.ex(l, env), self.ex(r, env))
            tl = self.type_of(l, env) if l[0] != "num" else None
            tr = self.type_of(r, env) if r[0] != "num" else None
            t = tl or tr
            if t is None:
                raise Rs2vError("comparison of two literals")
            a, b = self.num(l, t, env), self.num(r, t, env)
            if op in ("==", "!="):
                eqb = {Ty.CHAR: "N.eqb", Ty.NUM_N: "N.eqb", Ty.NAT: "Nat.eqb", Ty.BOOL: "Bool.eqb",
                       Ty.STR: "str_eqb", Ty.INT_Z: "Z.eqb"}.get(t)
                if not eqb:
                    raise Rs2vError("== on type %s" % t)
                s = "(%s %s %s)" % (eqb, a, b)
                return s if op == "==" else "(negb %s)" % s
            cmp_ = {("<", Ty.NAT): "Nat.ltb %s %s", ("<=", Ty.NAT): "Nat.leb %s %s", (">", Ty.NAT): "Nat.ltb %s %s",
                    (">=", Ty.NAT): "Nat.leb %s %s", ("<", Ty.NUM_N): "N.ltb %s %s", (">", Ty.NUM_N): "N.ltb %s %s",
                    ("<=", Ty.NUM_N): "N.leb %s %s", (">=", Ty.NUM_N): "N.leb %s %s",
                    ("<", Ty.INT_Z): "Z.ltb %s %s", (">", Ty.INT_Z): "Z.ltb %s %s",
                    ("<=", Ty.INT_Z): "Z.leb %s %s", (">=", Ty.INT_Z): "Z.leb %s %s"}.get((op, t))
            if cmp_:
                x, y = (a, b) if op in ("<", "<=") else (b, a)
                return "(" + cmp_ % (x, y) + ")"
            if op == "+" and t == Ty.NAT:
                return "(%s + %s)%%nat" % (a, b)
            if op == "+" and t == Ty.INT_Z:
                return "(%s + %s)%%Z" % (a, b)
            if op == "-" and t == Ty.INT_Z:
                return "(%s - %s)%%Z" % (a, b)
            raise Rs2vError("operator %s on %s" % (op, t))
        if k == "mcall":
            recv, m, args = e[1], e[2], e[3]
            h = self.cfg.get("methods", {}).get(m)
            if h:
                return h(self, recv, args, env)
            t = self.type_of(recv, env)
            r = self.ex(recv, env)
            if m in ("to_string", "clone", "to_owned") and not args:
                return r
            if m == "is_empty" and t in (Ty.STR, Ty.STR_REV) and not args:
                return "(match %s with [] => true | _ => false end)" % r
            if m == "len" and not args:
                return "(length %s)" % r
            raise Rs2vError("method %s on %s" % (m, t))
        if k == "call" and e[1][0] == "path":
            name = "::".join(e[1][1])
            if name in self.cfg.get("ctors", {}):
                f = self.cfg["ctors"][name]
                return "(" + f % tuple(self.ex(a, env) for a in e[2]) + ")"
            h = self.cfg.get("helpers", {}).get(e[1][1][-1])
            if h and not h.get("mut"):
                return "(%s %s)" % (h["coq"], " ".join(self.ex(a, env) for a in e[2]))
            raise Rs2vError("call of %s in expression position" % name)
        raise Rs2vError("expression %r" % (e,))

    def num(self, e, t, env):
        if e[0] == "num":
            return {Ty.NAT: "%d%%nat", Ty.NUM_N: "%d%%N", Ty.INT_Z: "%d%%Z", Ty.CHAR: "%d%%N"}.get(t, "%d") % e[1]
        return self.ex(e, env)

    # ---- packing the loop state
    def pack(self, env):
        fmt, order, _ = self.cfg["state"]
        return fmt % tuple(self.out_term(n, env) for n in order)

    def out_term(self, n, env):
        return env[n][1]

    def unpack(self, env, sv):
        _, order, proj = self.cfg["state"]
        env = dict(env)
        for n in order:
            env[n] = (env[n][0], proj[n] % sv)
        return env

    # ---- statements.  k(env) -> coq term for "the rest"; ctx: dict(loop=bool)
    def run(self, stmts, tail, env, k, ctx):
        if not stmts:
            if tail is not None:
                return self.tail(tail, env, k, ctx)
            return k(env, None)
        s, rest = stmts[0], stmts[1:]

        def cont(env2, _v=None):
            return self.run(rest, tail, env2, k, ctx)
        return self.stmt(s, env, cont, ctx)

    def stmt(self, s, env, cont, ctx):
        k = s[0]
        if k == "let":
            return self.bind(s[1], s[2], env, cont, ctx)
        if k == "assign":
            return self.assign(s, env, cont, ctx)
        if k == "expr":
            return self.effect(s[1], env, cont, ctx)
        if k == "break":
            if not ctx.get("loop"):
                raise Rs2vError("break outside a loop")
            return self.cfg["step"]["brk"] % self.pack(env)
        if k == "return":
            return self.ret(s[1], env, ctx)
        if k == "for":
            return self.loop(s, env, cont, ctx)
        raise Rs2vError("statement %r" % (s,))

    def ret(self, e, env, ctx):
        """`return e` / a tail value of the function"""
        v = self.result_value(e, env)
        if ctx.get("loop"):
            return self.cfg["step"]["ret"](v)
        return v

    def result_value(self, e, env):
        # Ok(..)/Err(..)/enum values through cfg['ctors']; strings in results are un-reversed by the config
        if e[0] == "call" and e[1][0] == "path":
            name = "::".join(e[1][1])
            rc = self.cfg.get("result_ctors", {})
            if name in rc:
                return rc[name](self, e[2], env)
        if e[0] == "path":
            name = "::".join(e[1])
            rc = self.cfg.get("result_ctors", {})
            if name in rc:
                return rc[name](self, [], env)
        raise Rs2vError("result value %r" % (e,))

    def bind(self, name, e, env, cont, ctx):
        # partial: v[i]
        if e[0] == "index":
            vec, ix = e[1], e[2]
            v = self.newvar(name)
            env2 = dict(env)
            env2[name] = (self.cfg.get("elem_type", Ty.CHAR), v)
            panic = self.cfg["step"]["panic"] if ctx.get("loop") else self.cfg["res"]["panic"]
            return "match nth_error %s %s with\n| None => %s\n| Some %s =>\n%s\nend" % (
                self.ex(vec, env), self.ex(ix, env), panic, v, cont(env2))
        if e[0] in ("if", "match", "iflet"):
            # value-producing conditional bound to a name: only as `let x = if c {a} else {b};` with pure arms
            t = self.pure_cond(e, env)
            env2 = dict(env)
            env2[name] = (t[0], t[1])
            return cont(env2)
        if e[0] == "call" and e[1][0] == "path" and "::".join(e[1][1]) in ("String::new",):
            env2 = dict(env)
            env2[name] = (self.cfg["locals"].get(name, Ty.STR), "[]")
            return cont(env2)
        h = self.cfg.get("let_handlers", {}).get(name)
        if h:
            return h(self, e, env, cont, ctx)
        t = self.cfg["locals"].get(name) or (self.type_of(e, env) if e[0] != "num" else None)
        if t is None:
            raise Rs2vError("type of local %s unknown" % name)
        env2 = dict(env)
        env2[name] = (t, self.num(e, t, env))
        return cont(env2)

    def pure_cond(self, e, env):
        if e[0] == "if":
            c = self.ex(e[1], env)
            a, b = e[2], e[3]
            if a[1] or b is None or b[1]:
                raise Rs2vError("let x = if .. with statements")
            ta, tb = self.type_of(a[2], env), self.type_of(b[2], env)
            return (ta or tb, "(if %s then %s else %s)" % (c, self.ex(a[2], env), self.ex(b[2], env)))
        raise Rs2vError("let x = %s .." % e[0])

    def assign(self, s, env, cont, ctx):
        lhs, op, rhs = s[1], s[2], s[3]
        if lhs[0] != "path" or len(lhs[1]) != 1 or lhs[1][0] not in env:
            raise Rs2vError("assignment to %r" % (lhs,))
        n = lhs[1][0]
        t = env[n][0]
        env2 = dict(env)
        if op == "=":
            if rhs[0] == "bin" and rhs[1] in ("+", "-") and rhs[3] == ("num", 1) and t == Ty.NAT and rhs[1] == "-":
                return self.dec(n, self.ex(rhs[2], env), env, cont, ctx)
            env2[n] = (t, self.num(rhs, t, env))
            return cont(env2)
        if op == "+=" and rhs == ("num", 1) and t in (Ty.NAT, Ty.NUM_N):
            env2[n] = (t, "(S %s)" % env[n][1] if t == Ty.NAT else "(%s + 1)%%N" % env[n][1])
            return cont(env2)
        if op == "-=" and rhs == ("num", 1) and t == Ty.NAT:
            return self.dec(n, env[n][1], env, cont, ctx)
        raise Rs2vError("assignment %s %s on %s" % (n, op, t))

    def dec(self, n, term, env, cont, ctx):
        v = self.newvar(n)
        env2 = dict(env)
        env2[n] = (Ty.NAT, v)
        panic = self.cfg["step"]["panic"] if ctx.get("loop") else self.cfg["res"]["panic"]
        return "match usize_dec %s with\n| None => %s\n| Some %s =>\n%s\nend" % (term, panic, v, cont(env2))

    def effect(self, e, env, cont, ctx):
        k = e[0]
        if k == "if":
            return self.cond(e, env, cont, ctx)
        if k == "iflet":
            return self.iflet(e, env, cont, ctx)
        if k == "match":
            return self.match(e, env, cont, ctx)
        if k == "block":
            return self.run(e[1], e[2], env, lambda env2, _v=None: cont(env2), ctx)
        if k == "mcall" and e[1][0] == "path" and len(e[1][1]) == 1 and e[1][1][0] in env:
            n, m, args = e[1][1][0], e[2], e[3]
            t, cur = env[n]
            env2 = dict(env)
            if t in (Ty.STR, Ty.STR_REV):
                if m == "push" and len(args) == 1:
                    a = self.ex(args[0], env)
                    env2[n] = (t, "(%s ++ [%s])" % (cur, a) if t == Ty.STR else "(%s :: %s)" % (a, cur))
                    return cont(env2)
                if m == "push_str" and len(args) == 1:
                    if args[0][0] == "str" and t == Ty.STR_REV:
                        a = coq_str_lit(args[0][1][::-1])
                    elif t == Ty.STR_REV:
                        a = "(rev %s)" % self.ex(args[0], env)
                    else:
                        a = self.ex(args[0], env)
                    env2[n] = (t, "(%s ++ %s)" % (cur, a) if t == Ty.STR else "(%s ++ %s)" % (a, cur))
                    return cont(env2)
                if m == "clear" and not args:
                    env2[n] = (t, "[]")
                    return cont(env2)
            raise Rs2vError("method %s.%s" % (n, m))
        if k == "call" and e[1][0] == "path":
            h = self.cfg.get("helpers", {}).get(e[1][1][-1])
            if h and h.get("mut") is not None:
                mi = h["mut"]
                tgt = e[2][mi]
                if tgt[0] != "ref" or tgt[1][0] != "path" or tgt[1][1][0] not in env:
                    raise Rs2vError("&mut argument of %s" % h["coq"])
                n = tgt[1][1][0]
                argt = [self.ex(a, env) for a in e[2]]
                env2 = dict(env)
                env2[n] = (env[n][0], "(%s %s)" % (h["coq"], " ".join(argt)))
                return cont(env2)
        raise Rs2vError("effect %r" % (e,))

    def cond(self, e, env, cont, ctx):
        c = self.ex(e[1], env)
        a = self.run(e[2][1], e[2][2], env, lambda env2, _v=None: cont(env2), ctx)
        if e[3] is None:
            b = cont(env)
        else:
            b = self.run(e[3][1], e[3][2], env, lambda env2, _v=None: cont(env2), ctx)
        return "if %s then\n%s\nelse\n%s" % (c, a, b)

    def iflet(self, e, env, cont, ctx):
        pat, scrut, blk, els = e[1], e[2], e[3], e[4]
        if pat[0] != "ctor" or pat[1] != ["Some"] or len(pat[2]) != 1:
            raise Rs2vError("if let pattern %r" % (pat,))
        h = self.cfg.get("iflet_scrutinee")
        if not h:
            raise Rs2vError("if let not configured")
        st, sterm = h(self, scrut, env)
        v = self.newvar(pat[2][0] or "x")
        env2 = dict(env)
        if pat[2][0]:
            env2[pat[2][0]] = (st, v)
        a = self.run(blk[1], blk[2], env2, lambda env3, _v=None: cont({x: env3[x] for x in env}), ctx)
        b = cont(env) if els is None else self.run(els[1], els[2], env, lambda env3, _v=None: cont(env3), ctx)
        return "match %s with\n| Some %s =>\n%s\n| None =>\n%s\nend" % (sterm, v, a, b)

    def match(self, e, env, cont, ctx):
        h = self.cfg.get("match_handler")
        if not h:
            raise Rs2vError("match not configured")
        return h(self, e, env, cont, ctx)

    def tail(self, e, env, k, ctx):
        """a block's tail expression: either control flow whose arms end the block, or a value"""
        if e[0] == "if":
            c = self.ex(e[1], env)
            a = self.run(e[2][1], e[2][2], env, k, ctx)
            if e[3] is None:
                b = k(env, None)
            else:
                b = self.run(e[3][1], e[3][2], env, k, ctx)
            return "if %s then\n%s\nelse\n%s" % (c, a, b)
        if e[0] == "block":
            return self.run(e[1], e[2], env, k, ctx)
        if e[0] in ("iflet", "match"):
            return self.effect(e, env, lambda env2, _v=None: k(env2, None), ctx)
        if self.is_unit_effect(e, env):
            return self.effect(e, env, lambda env2, _v=None: k(env2, None), ctx)
        return k(env, e)

    def is_unit_effect(self, e, env):
        """a unit-valued call written without ';' as the last expression of a block"""
        if e[0] == "mcall" and e[1][0] == "path" and len(e[1][1]) == 1 and e[1][1][0] in env \
                and e[2] in ("push", "push_str", "clear"):
            return True
        if e[0] == "call" and e[1][0] == "path":
            h = self.cfg.get("helpers", {}).get(e[1][1][-1])
            return bool(h and h.get("mut") is not None)
        return False

    # ---- loops
    def loop(self, s, env, cont, ctx):
        if ctx.get("loop"):
            raise Rs2vError("nested loop")
        pat, it, body = s[1], s[2], s[3]
        name = "%s_body" % self.cfg["coq_name"]
        sv = "st"
        benv = self.unpack(env, sv)
        lp = self.cfg["loop"]
        if it[0] == "bin" and it[1] == "..":
            # for _i in a..b : iteration count fixed at loop entry, the item is unused
            if pat in self.used_names(body):
                raise Rs2vError("range loop variable is used")
            item = None
            count = "(%s - %s)%%nat" % (self.ex(it[3], env), self.ex(it[2], env))
            drive = lp["for_n"] % (name_call(name, self.cfg), count, self.pack(env))
        elif it[0] == "mcall" and it[2] == "chars" and not it[3]:
            item = self.newvar(pat)
            benv[pat] = (Ty.CHAR, item)
            drive = lp["for_each"] % (name_call(name, self.cfg), self.ex(it[1], env), self.pack(env))
        elif it[0] == "path" and lp.get("for_each_elem"):
            item = self.newvar(pat)
            benv[pat] = (self.cfg.get("elem_type", Ty.STR), item)
            drive = lp["for_each"] % (name_call(name, self.cfg), self.ex(it, env), self.pack(env))
        else:
            raise Rs2vError("loop iterator %r" % (it,))
        stp = self.cfg["step"]
        body_term = self.run(body[1], body[2], benv,
                             lambda env2, v=None: stp["cont"] % self.pack(env2), {"loop": True})
        params = self.cfg.get("fn_params", "")
        self.loops.append((name, "Definition %s %s (%s : %s)%s : %s :=\n%s.\n" % (
            name, params, sv, self.cfg["state_type"],
            " (%s : %s)" % (item, self.cfg.get("item_type", "char")) if item else "",
            stp["type"], body_term)))
        sv2 = self.newvar("st")
        after = cont(self.unpack(env, sv2))
        return self.cfg["res"]["consume"] % {"drive": drive, "sv": sv2, "after": after}

    def used_names(self, node):
        out = set()

        def walk(n):
            if isinstance(n, tuple):
                if n and n[0] == "path" and len(n) > 1 and isinstance(n[1], list):
                    out.update(n[1])
                for x in n:
                    walk(x)
            elif isinstance(n, list):
                for x in n:
                    walk(x)
        walk(node)
        return out

    # ---- whole function
    def function(self, params, body):
        env = {}
        for pn, _ in params:
            if pn in self.cfg["params"]:
                env[pn] = self.cfg["params"][pn]
        term = self.run(body[1], body[2], env, lambda env2, v: self.final(v, env2), {})
        return term

    def final(self, v, env):
        if v is None:
            f = self.cfg.get("final_state")
            if f:
                return f(self, env)
            raise Rs2vError("function ends without a value")
        return self.result_value(v, env)


def name_call(name, cfg):
    a = cfg.get("fn_args", "")
    return "(%s %s)" % (name, a) if a else name


# ---------------------------------------------------------------------------------------------
# ADDITIVE EXTENSION (builder B9): methods of `impl` blocks working on HashMap / Vec state.
#
#   MethodP / parse_method   parse `fn f(&self | &mut self | self, ..)` inside `impl T { .. }`
#   FnM(Fn)                  executor for such methods:
#     * struct fields `self.f` are components of the state (env keys "self.f"); HashMap operations become
#       gmap terms: contains_key -> map_has, get -> !!, insert -> <[k:=v]>, remove -> delete, and
#       `match m.remove(k) {..}` scrutinises `m !! k` with the map being `delete k m` in both arms;
#     * value-producing blocks: `let x = match OPT { Some(v) => .., None => .. };` / `let x = if ..` with
#       `let`s inside the arms (emitted as a Coq `let x_N := .. in`);
#     * `match` on an Option in statement or tail position, arms are blocks;
#     * `for x in &vec | vec.iter() | vec | map.keys()`: the body becomes a separate definition
#       state -> item -> lstep state result (Rs2vMapLib.for_each_ret); `return e` inside the body is
#       `LRet <function result>`; the state is the mutable receiver OR the one mutable local in scope;
#       every Coq variable in scope (function parameters, pattern / let variables) is a parameter of the body;
#     * block scoping: a `let` inside a block does not leak into the code after the block;
#     * the function result is built by cfg['result'](fn, expr, env) so that a `&mut self` method can return
#       the receiver as it is AT THAT POINT together with the value (an early `return Err(..)` after a
#       mutation is therefore visible in the translation).
#   Everything not understood raises Rs2vError.  Nothing above this line is changed by the extension.
class MethodP(P):
    receiver = None

    def fn(self):
        """fn name([&[mut] self | [mut] self,] params) [-> type] block"""
        while not self.at("id", "fn"):
            if self.at("eof"):
                raise Rs2vError("eof looking for fn")
            self.i += 1
        self.eat("id", "fn")
        name = self.eat("id")
        if self.opt("op", "<"):
            raise Rs2vError("generic fn %s" % name)
        self.eat("op", "(")
        if self.at("op", "&") and (self.peek(1) == ("id", "self") or
                                   (self.peek(1) == ("id", "mut") and self.peek(2) == ("id", "self"))):
            self.i += 1
            self.receiver = "mut" if self.opt("id", "mut") else "ref"
            self.eat("id", "self")
            self.opt("op", ",")
        elif self.at("id", "self") or (self.at("id", "mut") and self.peek(1) == ("id", "self")):
            self.opt("id", "mut")
            self.eat("id", "self")
            self.receiver = "own"
            self.opt("op", ",")
        params = []
        while not self.at("op", ")"):
            self.opt("id", "mut")
            pn = self.eat("id")
            self.eat("op", ":")
            mut_ref = self.at("op", "&") and self.peek(1) == ("id", "mut")
            self.skip_type()
            params.append((pn, mut_ref))
            self.opt("op", ",")
        self.eat("op", ")")
        if self.opt("op", "->"):
            self.skip_type()
        return name, params, self.block()


def impl_block(src, type_name):
    """the text between the braces of the inherent `impl type_name { .. }` (comments and literals respected)"""
    m = re.search(r"^\s*impl\s+%s\s*\{" % re.escape(type_name), src, re.M)
    if not m:
        raise Rs2vError("impl %s not found" % type_name)
    i, depth, n = m.end() - 1, 0, len(src)
    start = i
    while i < n:
        c = src[i]
        if src.startswith("//", i):
            j = src.find("\n", i)
            i = n if j < 0 else j
            continue
        if src.startswith("/*", i):
            j = src.find("*/", i)
            if j < 0:
                raise Rs2vError("unterminated comment")
            i = j + 2
            continue
        if c == '"':
            mm = re.compile(r'"(?:\\.|[^"\\])*"', re.S).match(src, i)
            if not mm:
                raise Rs2vError("unterminated string")
            i = mm.end()
            continue
        if c == "'":
            mm = re.compile(r"'(?:\\.|[^'\\])'").match(src, i)
            if mm:
                i = mm.end()
                continue
        if c == "{":
            depth += 1
        elif c == "}":
            depth -= 1
            if depth == 0:
                return src[start + 1:i]
        i += 1
    raise Rs2vError("impl %s unbalanced" % type_name)


def parse_method(src, type_name, name):
    """-> (receiver in {None,'ref','mut','own'}, [(param, is_mut_ref)], body block) of `fn name` in `impl type_name`"""
    body = impl_block(src, type_name)
    ms = list(re.finditer(r"\bfn\s+%s\s*\(" % re.escape(name), body))
    if len(ms) != 1:
        raise Rs2vError("fn %s: %d definitions in impl %s" % (name, len(ms), type_name))
    p = MethodP(lex(body[ms[0].start():], stop_after_item=True))
    n, params, blk = p.fn()
    return p.receiver, params, blk


META = ("%decl", "%bound")


class FnM(Fn):
    """cfg keys used on top of Fn's (all optional unless noted):
      coq_name      (required) prefix of the generated loop-body definitions
      fn_binders    '(self : reg) (x : name)'  binders of the generated function, repeated on every loop body
      fn_args       'self x'
      result_type   coq type of the function result (the R of lstep S R)
      result        f(fn, expr, env) -> coq term of the function result for the Rust value `expr` (default: ex)
      mut_self      True when the receiver is `&mut self`
      self_state    dict(type='reg', fields={'self.commands': '(cmds %s)', ..}, pack=f(fn, env) -> term)
      maps          {map type: dict(key=type, val=type)}
      lists         {list type: element type}
      coq_types     {type: coq type text}
      locals        {rust name: type} of the `let mut` locals
      helpers       {method name: dict(coq=, ret=)}   other translated `&self` methods callable as self.m(..)
      map_put       f(fn, map type, expr, env) -> stored term           (default: ex)
      map_got       f(fn, map type, key term, coq var) -> (type, term)   what a value read from the map is
      sort          '(merge_sort name_le %s)'   translation of v.sort()
    """

    def __init__(self, cfg):
        super().__init__(cfg)
        self.nloops = 0

    # ---- scoping helpers
    def meta(self, env, key, default):
        return env[key][1] if key in env else default

    def enter(self, env):
        e = dict(env)
        e["%decl"] = ("meta", frozenset())
        return e

    def leave(self, outer, inner):
        """the environment after a block: names the block declared itself are restored"""
        declared = self.meta(inner, "%decl", frozenset())
        out = {}
        for n in outer:
            if n in META:
                out[n] = outer[n]
            elif n in declared:
                out[n] = outer[n]
            else:
                out[n] = inner.get(n, outer[n])
        return out

    def declare(self, env, name, coqvar=None, coqtype=None):
        env["%decl"] = ("meta", self.meta(env, "%decl", frozenset()) | {name})
        if coqvar is not None:
            env["%bound"] = ("meta", self.meta(env, "%bound", ()) + ((coqvar, coqtype),))
        return env

    def coq_type(self, t):
        ct = self.cfg.get("coq_types", {}).get(t)
        if ct is None:
            raise Rs2vError("no coq type for %s" % (t,))
        return ct

    def is_self(self, e):
        return e == ("path", ["self"])

    def self_term(self, env):
        return self.cfg["self_state"]["pack"](self, env)

    # ---- types
    def type_of(self, e, env):
        k = e[0]
        if k == "field" and self.is_self(e[1]):
            key = "self." + e[2]
            if key in env:
                return env[key][0]
            raise Rs2vError("unknown field %s" % key)
        if k == "path" and e[1] == ["None"]:
            return "opt:?"
        if k == "call" and e[1] == ("path", ["Some"]) and len(e[2]) == 1:
            return "opt:%s" % self.type_of(e[2][0], env)
        if k == "mcall":
            recv, m = e[1], e[2]
            if self.is_self(recv) and m in self.cfg.get("helpers", {}):
                return self.cfg["helpers"][m]["ret"]
            if m not in self.cfg.get("method_types", {}):
                if m in ("contains_key", "is_some", "is_none"):
                    return Ty.BOOL
                if m == "get":
                    t = self.type_of(recv, env)
                    if t in self.cfg.get("maps", {}):
                        return "opt:%s" % self.cfg["maps"][t]["val"]
        if k in ("block", "match", "if", "iflet"):
            return self.value_of(e, env)[0]
        return super().type_of(e, env)

    # ---- expressions
    def ex(self, e, env):
        k = e[0]
        if k == "path" and len(e[1]) == 1 and e[1][0] in env and isinstance(env[e[1][0]][1], tuple):
            return "(" + ", ".join(env[e[1][0]][1]) + ")"
        if k == "path" and e[1] == ["None"]:
            return "None"
        if k == "field" and self.is_self(e[1]):
            key = "self." + e[2]
            if key in env:
                return env[key][1]
            raise Rs2vError("unknown field %s" % key)
        if k == "call" and e[1] == ("path", ["Some"]) and len(e[2]) == 1:
            return "(Some %s)" % self.ex(e[2][0], env)
        if k == "bin" and e[1] in ("==", "!="):
            tl, tr = self.type_of(e[2], env), self.type_of(e[3], env)
            if str(tl).startswith("opt:") or str(tr).startswith("opt:"):
                if "opt:?" not in (tl, tr) and tl != tr:
                    raise Rs2vError("== between %s and %s" % (tl, tr))
                s = "(bool_decide (%s = %s))" % (self.ex(e[2], env), self.ex(e[3], env))
                return s if e[1] == "==" else "(negb %s)" % s
        if k == "mcall":
            recv, m, args = e[1], e[2], e[3]
            if self.is_self(recv) and m in self.cfg.get("helpers", {}):
                h = self.cfg["helpers"][m]
                return "(%s %s)" % (h["coq"], " ".join([self.self_term(env)] + [self.ex(a, env) for a in args]))
            if m not in self.cfg.get("methods", {}):
                if m in ("contains_key", "get") and len(args) == 1:
                    t = self.type_of(recv, env)
                    if t in self.cfg.get("maps", {}):
                        kt = self.type_of(args[0], env)
                        if kt != self.cfg["maps"][t]["key"]:
                            raise Rs2vError("%s key of type %s" % (m, kt))
                        f = "(map_has %s %s)" if m == "contains_key" else "(%s !! %s)"
                        return f % (self.ex(recv, env), self.ex(args[0], env))
                if m in ("is_some", "is_none") and not args:
                    t = self.type_of(recv, env)
                    if str(t).startswith("opt:"):
                        s = "(opt_is_some %s)" % self.ex(recv, env)
                        return s if m == "is_some" else "(negb %s)" % s
        if k in ("block", "match", "if", "iflet"):
            return self.value_of(e, env)[1]
        return super().ex(e, env)

    # ---- value-producing blocks / matches / ifs (no effects on the state, no return)
    def value_of(self, e, env):
        """-> (type, coq term) of an expression that may be a block, an `if` or a `match` on an Option"""
        if e[0] == "block":
            got = []

            def k(env2, v):
                if v is None:
                    raise Rs2vError("block used as a value has no tail expression")
                got.append(self.type_of(v, env2))
                if self.state_sig(env2) != self.state_sig(env):
                    raise Rs2vError("state change inside a value block")
                return self.ex(v, env2)
            term = self.run(e[1], e[2], self.enter(env), k, {"value": True})
            if not got or any(g != got[0] for g in got):
                raise Rs2vError("value block of several types %r" % (got,))
            return got[0], term
        if e[0] == "if":
            if e[3] is None:
                raise Rs2vError("`if` without else used as a value")
            c = self.ex(e[1], env)
            ta, a = self.value_of(e[2], env)
            tb, b = self.value_of(e[3], env)
            if ta != tb:
                raise Rs2vError("if arms of types %s / %s" % (ta, tb))
            return ta, "(if %s then %s else %s)" % (c, a, b)
        if e[0] == "iflet":
            e = self.iflet_as_match(e)
        if e[0] == "match":
            types = []

            def arm(body, env2, _env1):
                t, term = self.value_of(body, env2)
                types.append(t)
                return term
            env_after, text = self.option_match(e, env, arm)
            if self.state_sig(env_after) != self.state_sig(env):
                raise Rs2vError("effectful scrutinee in a value match")
            if any(t != types[0] for t in types):
                raise Rs2vError("match arms of types %r" % (types,))
            return types[0], "(" + text + ")"
        return self.type_of(e, env), self.ex(e, env)

    def state_sig(self, env):
        return tuple(sorted((n, str(v[1])) for n, v in env.items() if n.startswith("self.") or n in self.cfg.get("locals", {})))

    def scrutinee(self, e, env):
        """-> (element type, coq term of the Option, env after evaluating it, key term or None)"""
        if e[0] == "mcall" and e[2] in ("get", "remove") and len(e[3]) == 1 and e[1][0] == "field" and self.is_self(e[1][1]):
            key = "self." + e[1][2]
            if key not in env or env[key][0] not in self.cfg.get("maps", {}):
                raise Rs2vError("match on %s of %s" % (e[2], key))
            mt, mterm = env[key]
            kt = self.type_of(e[3][0], env)
            if kt != self.cfg["maps"][mt]["key"]:
                raise Rs2vError("%s key of type %s" % (e[2], kt))
            kterm = self.ex(e[3][0], env)
            env2 = dict(env)
            if e[2] == "remove":
                if not self.cfg.get("mut_self"):
                    raise Rs2vError("remove on an immutable receiver")
                env2[key] = (mt, "(delete %s %s)" % (kterm, mterm))
            return ("mapval", mt), "%s !! %s" % (mterm, kterm), env2, kterm
        t = self.type_of(e, env)
        if str(t).startswith("opt:") and t != "opt:?":
            return t[4:], self.ex(e, env), env, None
        raise Rs2vError("match scrutinee %r" % (e,))

    def option_match(self, e, env, arm):
        """`match OPT { Some(v) => A, None => B }` (either order, `_` for the remaining case);
        arm(body, env in the arm, env after the scrutinee) -> coq text.  -> (env after the scrutinee, text)"""
        et, sterm, env1, kterm = self.scrutinee(e[1], env)
        some = none = None
        for pat, body in e[2]:
            if pat[0] == "ctor" and pat[1] == ["Some"] and len(pat[2]) == 1 and some is None:
                some = (pat[2][0], body)
            elif pat[0] == "ctor" and pat[1] == ["None"] and not pat[2] and none is None:
                none = body
            elif pat[0] == "wild" and (some is None) != (none is None):
                if some is None:
                    some = (None, body)
                else:
                    none = body
            else:
                raise Rs2vError("match pattern %r" % (pat,))
        if some is None or none is None:
            raise Rs2vError("match on an Option needs a Some and a None arm")
        v = self.newvar(some[0] or "w")
        env2 = self.enter(env1)
        if isinstance(et, tuple):
            vt, vterm = self.cfg.get("map_got", lambda fn, mt, k, var: (fn.cfg["maps"][mt]["val"], var))(self, et[1], kterm, v)
            ctype = self.coq_type(("stored", et[1]))
        else:
            vt, vterm = et, v
            ctype = self.coq_type(et)
        if some[0]:
            env2[some[0]] = (vt, vterm)
            self.declare(env2, some[0])
        self.declare(env2, "%var", v, ctype)
        a = arm(some[1], env2, env1)
        b = arm(none, self.enter(env1), env1)
        return env1, "match %s with\n| Some %s =>\n%s\n| None =>\n%s\nend" % (sterm, v, a, b)

    # ---- statements
    def bind(self, name, e, env, cont, ctx):
        if name in self.cfg.get("locals", {}) and name in env:
            raise Rs2vError("mutable local %s declared twice" % name)
        if e[0] in ("match", "if", "block", "iflet"):
            t, term = self.value_of(e, env)
            v = self.newvar(name)
            env2 = dict(env)
            env2[name] = (t, v)
            self.declare(env2, name, v, self.coq_type(t))
            return "let %s := %s in\n%s" % (v, term, cont(env2))
        return super().bind(name, e, env, lambda env2, _v=None: cont(self.declare(dict(env2), name)), ctx)

    def effect(self, e, env, cont, ctx):
        k = e[0]
        if k == "block":
            return self.run(e[1], e[2], self.enter(env), lambda env2, _v=None: cont(self.leave(env, env2)), ctx)
        if k == "mcall" and e[1][0] == "field" and self.is_self(e[1][1]):
            key, m, args = "self." + e[1][2], e[2], e[3]
            if key in env and env[key][0] in self.cfg.get("maps", {}) and m in ("insert", "remove"):
                if ctx.get("value"):
                    raise Rs2vError("state change inside a value block")
                if not self.cfg.get("mut_self"):
                    raise Rs2vError("%s on an immutable receiver" % m)
                mt, mterm = env[key]
                if self.type_of(args[0], env) != self.cfg["maps"][mt]["key"]:
                    raise Rs2vError("%s key type" % m)
                kterm = self.ex(args[0], env)
                env2 = dict(env)
                if m == "insert" and len(args) == 2:
                    if self.type_of(args[1], env) != self.cfg["maps"][mt]["val"]:
                        raise Rs2vError("insert value type")
                    put = self.cfg.get("map_put", lambda fn, mt_, x, env_: fn.ex(x, env_))
                    env2[key] = (mt, "(<[%s := %s]> %s)" % (kterm, put(self, mt, args[1], env), mterm))
                    return cont(env2)
                if m == "remove" and len(args) == 1:
                    env2[key] = (mt, "(delete %s %s)" % (kterm, mterm))
                    return cont(env2)
            raise Rs2vError("effect %s.%s" % (key, m))
        if k == "mcall" and e[1][0] == "path" and len(e[1][1]) == 1 and e[1][1][0] in env \
                and env[e[1][1][0]][0] in self.cfg.get("lists", {}) and e[1][1][0] in self.cfg.get("locals", {}):
            n, m, args = e[1][1][0], e[2], e[3]
            t, cur = env[n]
            env2 = dict(env)
            if m == "push" and len(args) == 1:
                if self.type_of(args[0], env) != self.cfg["lists"][t]:
                    raise Rs2vError("push of a %s" % self.type_of(args[0], env))
                env2[n] = (t, "(%s ++ [%s])" % (cur, self.ex(args[0], env)))
                return cont(env2)
            if m == "sort" and not args and self.cfg.get("sort"):
                env2[n] = (t, self.cfg["sort"] % cur)
                return cont(env2)
            raise Rs2vError("method %s.%s" % (n, m))
        return super().effect(e, env, cont, ctx)

    def cond(self, e, env, cont, ctx):
        c = self.ex(e[1], env)
        a = self.run(e[2][1], e[2][2], self.enter(env), lambda env2, _v=None: cont(self.leave(env, env2)), ctx)
        if e[3] is None:
            b = cont(env)
        else:
            b = self.run(e[3][1], e[3][2], self.enter(env), lambda env2, _v=None: cont(self.leave(env, env2)), ctx)
        return "if %s then\n%s\nelse\n%s" % (c, a, b)

    def iflet_as_match(self, e):
        """`if let Some(v) = OPT { A } [else { B }]` is `match OPT { Some(v) => { A }, _ => { B } }`"""
        pat, scrut, blk, els = e[1], e[2], e[3], e[4]
        if pat[0] != "ctor" or pat[1] != ["Some"] or len(pat[2]) != 1:
            raise Rs2vError("if let pattern %r" % (pat,))
        return ("match", scrut, [(pat, blk), (("wild",), els if els is not None else ("block", [], None))])

    def iflet(self, e, env, cont, ctx):
        return self.match(self.iflet_as_match(e), env, cont, ctx)

    def match(self, e, env, cont, ctx):
        """statement position: the arms' values are dropped"""
        def arm(body, env2, env1):
            return self.tail(body, env2, lambda env3, _v=None: cont(self.leave(env1, env3)), ctx)
        return self.option_match(e, env, arm)[1]

    def tail(self, e, env, k, ctx):
        if e[0] == "iflet":
            e = self.iflet_as_match(e)
        if e[0] == "match":
            return self.option_match(e, env, lambda body, env2, _env1: self.tail(body, env2, k, ctx))[1]
        if e[0] == "mcall" and self.is_unit_effect(e, env):
            return self.effect(e, env, lambda env2, _v=None: k(env2, None), ctx)
        return super().tail(e, env, k, ctx)

    def is_unit_effect(self, e, env):
        if e[0] == "mcall" and e[1][0] == "field" and self.is_self(e[1][1]) and e[2] == "insert":
            return True
        if e[0] == "mcall" and e[1][0] == "path" and len(e[1][1]) == 1 and e[1][1][0] in env \
                and env[e[1][1][0]][0] in self.cfg.get("lists", {}) and e[2] in ("push", "sort"):
            return True
        return super().is_unit_effect(e, env)

    def result(self, e, env):
        f = self.cfg.get("result")
        return f(self, e, env) if f else self.ex(e, env)

    def ret(self, e, env, ctx):
        if ctx.get("value"):
            raise Rs2vError("return inside a value block")
        if e is None:
            raise Rs2vError("return without a value")
        v = self.result(e, env)
        return "LRet %s" % v if ctx.get("loop") else v

    def final(self, v, env):
        if v is None:
            raise Rs2vError("function ends without a value")
        return self.result(v, env)

    # ---- loops over a Vec / the keys of a map, with early return
    def loop_state(self, env):
        """-> (coq type, pack(env) -> term, unpack(env, state var) -> env)"""
        muts = [n for n in self.cfg.get("locals", {}) if n in env]
        if self.cfg.get("mut_self") and muts:
            raise Rs2vError("loop state with several components (receiver and %s)" % muts)
        if len(muts) > 1:
            raise Rs2vError("loop state with several components %s" % muts)
        if self.cfg.get("mut_self"):
            ss = self.cfg["self_state"]

            def unpack(env_, sv):
                env2 = dict(env_)
                for key, proj in ss["fields"].items():
                    env2[key] = (env_[key][0], proj % sv)
                return env2
            return ss["type"], lambda env_: self.self_term(env_), unpack
        if muts:
            n = muts[0]

            def unpack1(env_, sv):
                env2 = dict(env_)
                env2[n] = (env_[n][0], sv)
                return env2
            return self.coq_type(env[n][0]), lambda env_: env_[n][1], unpack1
        return "unit", lambda env_: "tt", lambda env_, sv: dict(env_)

    def loop(self, s, env, cont, ctx):
        if ctx.get("loop"):
            raise Rs2vError("nested loop")
        if ctx.get("value"):
            raise Rs2vError("loop inside a value block")
        pat, it, body = s[1], s[2], s[3]
        src = it[1] if it[0] == "ref" else it
        if src[0] == "mcall" and src[2] == "iter" and not src[3]:
            src = src[1]
        if src[0] == "mcall" and src[2] == "keys" and not src[3] and self.type_of(src[1], env) in self.cfg.get("maps", {}):
            et = self.cfg["maps"][self.type_of(src[1], env)]["key"]
            lterm = "(map_keys %s)" % self.ex(src[1], env)
        else:
            lt = self.type_of(src, env)
            if lt not in self.cfg.get("lists", {}):
                raise Rs2vError("loop iterator %r" % (it,))
            et = self.cfg["lists"][lt]
            lterm = self.ex(src, env)
        self.nloops += 1
        name = "%s_loop%d" % (self.cfg["coq_name"], self.nloops)
        stype, pack, unpack = self.loop_state(env)
        bound = self.meta(env, "%bound", ())
        seen, binders, args = set(), [], []
        for v, ct in bound:            # a later binder of the same name shadows (names are fresh, so none)
            if v in seen:
                raise Rs2vError("coq variable %s bound twice" % v)
            seen.add(v)
            binders.append("(%s : %s)" % (v, ct))
            args.append(v)
        item = self.newvar(pat)
        benv = self.enter(unpack(env, "st"))
        benv[pat] = (et, item)
        self.declare(benv, pat, item, self.coq_type(et))
        self.declare(benv, "%st", "st", stype)
        body_term = self.run(body[1], body[2], benv, lambda env2, v=None: "LCont %s" % pack(env2), {"loop": True})
        rtype = self.cfg["result_type"]
        self.loops.append((name, "Definition %s %s (st : %s) (%s : %s) : lstep (%s) (%s) :=\n%s.\n" % (
            name, " ".join([self.cfg.get("fn_binders", "")] + binders), stype, item, self.coq_type(et), stype, rtype,
            body_term)))
        sv = self.newvar("st")
        env_after = unpack(env, sv)
        self.declare(env_after, "%st", sv, stype)
        env_after["%decl"] = env.get("%decl", ("meta", frozenset()))
        call = "(%s)" % " ".join([name] + ([self.cfg["fn_args"]] if self.cfg.get("fn_args") else []) + args)
        return "match for_each_ret %s %s %s with\n| LRet r => r\n| LCont %s =>\n%s\nend" % (
            call, lterm, pack(env), sv, cont(env_after))

    def function(self, params, body):
        env = {}
        for pn, _ in params:
            if pn in self.cfg["params"]:
                env[pn] = self.cfg["params"][pn]
        for key, (t, term) in self.cfg.get("self_fields", {}).items():
            env[key] = (t, term)
        env["%bound"] = ("meta", ())
        env["%decl"] = ("meta", frozenset())
        return self.run(body[1], body[2], env, lambda env2, v: self.final(v, env2), {})


# =================================================================================================
# Second wave (first client: lib/gen/parser_gen.py, the rest of duckscript/src/parser.rs).  Purely additive:
# P / Fn / parse_fn above are unchanged; the classes below extend them.
#
#   P2    parser:   `loop { .. }`, `let (a, b) = e;`, struct literals `T { f: e, g }`, `&mut e` kept apart from `&e`
#   Fn2   executor: struct-valued locals and `&mut Struct` parameters (fields are separate symbolic values: `s.f = e`,
#                   `s.f.is_none()`), Option values with PATH REFINEMENT (`if x.is_none() {A} else {B}` becomes
#                   `match x with None => A | Some v => B[x := Some v]`, so a later `x.unwrap()` needs no panic arm; an
#                   unwrap / `v[i]` the executor knows nothing about is hoisted into a match with an explicit panic arm),
#                   `match CALL(..) { Ok(v) => .., Err(e) => return Err(e) }` on callees that return a result type
#                   (`ires`: IOk / IErr / IPanic, or any other shape given by the configuration), tuple destructuring,
#                   `Vec::push / append / is_empty`, `loop {}` with explicit fuel, `for x in s.lines()`, and loop bodies
#                   that take the immutable locals of the enclosing function they use as extra parameters.
#                   The SHAPE of every generated function (parameters, loop state tuple, extra body parameters) is
#                   fixed by the configuration and checked against the source: a source that needs another shape
#                   raises Rs2vError, it never changes the type of a generated definition.
POISON = "\0unavailable"
MUTATORS = ("push", "push_str", "clear", "append")
KEYWORDS = ("if", "match", "loop", "for", "while", "let", "return", "break", "true", "false", "mut", "ref", "in", "else")


class P2(P):
    def unary(self, no_struct):
        if self.at("op", "&") and self.peek(1) == ("id", "mut"):
            self.i += 2
            return ("refmut", self.unary(no_struct))
        return super().unary(no_struct)

    def stmt(self):
        if self.at("id", "loop") and self.peek(1) == ("op", "{"):
            self.i += 1
            b = self.block()
            self.opt("op", ";")
            return ("loop", b)
        if self.at("id", "while"):
            raise Rs2vError("while loop")
        if self.at("id", "let") and (self.peek(1) == ("op", "(")):
            self.i += 2
            names = []
            while not self.at("op", ")"):
                self.opt("id", "mut")
                names.append(self.eat("id"))
                if not self.opt("op", ","):
                    break
            self.eat("op", ")")
            if self.opt("op", ":"):
                self.skip_type()
            self.eat("op", "=")
            e = self.expr()
            self.eat("op", ";")
            return ("lettuple", names, e)
        return super().stmt()

    def atom(self, no_struct):
        a = self.peek()
        if a[0] == "id" and not no_struct and a[1] not in KEYWORDS and not a[1].endswith("!"):
            j = self.i + 1
            while self.t[j] == ("op", "::") and self.t[j + 1][0] == "id":
                j += 2
            last = self.t[j - 1][1]
            if self.t[j] == ("op", "{") and last[:1].isupper() and (
                    self.t[j + 1] == ("op", "}") or
                    (self.t[j + 1][0] == "id" and self.t[j + 2] in (("op", ":"), ("op", ","), ("op", "}")))):
                path = [self.t[x][1] for x in range(self.i, j, 2)]
                self.i = j + 1
                fields = []
                while not self.at("op", "}"):
                    fname = self.eat("id")
                    if self.opt("op", ":"):
                        fields.append((fname, self.expr()))
                    else:
                        fields.append((fname, ("path", [fname])))
                    if not self.opt("op", ","):
                        break
                self.eat("op", "}")
                return ("struct", path, fields)
        return super().atom(no_struct)


def parse_fn2(src, name):
    """like parse_fn, with the P2 grammar"""
    m = re.search(r"(?:pub(?:\([a-z]+\))?\s+)?fn\s+%s\s*\(" % re.escape(name), src)
    if not m:
        raise Rs2vError("fn %s not found" % name)
    p = P2(lex(src[m.start():], stop_after_item=True))
    n, params, body = p.fn()
    return params, body


def read_statics(src):
    """`static NAME: char = 'c';` / `static NAME: &str = "..";` at the top level of a file -> {NAME: (Ty, value)}"""
    out = {}
    for m in re.finditer(r"^(?:pub(?:\([a-z]+\))?\s+)?(?:static|const)\s+(\w+)\s*:\s*([^=;]+?)\s*=\s*([^;]+);", src, re.M):
        name, ty, lit = m.group(1), m.group(2).strip(), m.group(3).strip()
        toks = lex(lit)
        if len(toks) != 2:
            continue
        if ty == "char" and toks[0][0] == "char":
            out[name] = (Ty.CHAR, toks[0][1])
        elif ty in ("&str", "&'static str") and toks[0][0] == "str":
            out[name] = (Ty.STR, toks[0][1])
    return out


def read_struct(src, name):
    """field names of `pub struct NAME { pub f: T, .. }`, with the information whether NAME::new() is all-None:
    #[derive(.. Default ..)], every field an Option<..>, and `fn new() -> NAME { Default::default() }`"""
    m = re.search(r"((?:#\[[^\]]*\]\s*)*)pub\s+struct\s+%s\s*\{(.*?)\n\}" % re.escape(name), src, re.S)
    if not m:
        raise Rs2vError("struct %s not found" % name)
    attrs, body = m.group(1), m.group(2)
    body = re.sub(r"//[^\n]*", "", body)
    fields = re.findall(r"(?:pub\s+)?(\w+)\s*:\s*([^,\n]+(?:<[^\n]*>)?)\s*,", body)
    derive_default = re.search(r"derive\([^)]*\bDefault\b", attrs) is not None
    all_opt = all(t.strip().startswith("Option<") for _, t in fields)
    im = re.search(r"impl\s+%s\s*\{(.*?)\n\}" % re.escape(name), src, re.S)
    new_default = bool(im and re.search(r"fn\s+new\s*\(\s*\)\s*->\s*%s\s*\{\s*Default::default\(\)\s*\}" % re.escape(name),
                                        im.group(1)))
    return [f for f, _ in fields], (derive_default and all_opt and new_default)


def some_inner(term):
    """X when term is literally `(Some X)`"""
    if isinstance(term, str) and term.startswith("(Some ") and term.endswith(")"):
        inner, d = term[6:-1], 0
        for ch in inner:
            if ch == "(":
                d += 1
            elif ch == ")":
                d -= 1
                if d < 0:
                    return None
        return inner if d == 0 else None
    return None


def T_opt(t):
    return ("option", t)


def T_list(t):
    return ("list", t)


def T_tuple(*ts):
    return ("tuple", list(ts))


def T_struct(n):
    return ("struct", n)


def is_struct(t):
    return isinstance(t, tuple) and t[0] == "struct"


RES_SHAPES = {
    # result type of a callee: constructor of success, pattern / payload of failure, panic constructor (or None)
    "ires": {"ok": "IOk %s", "err_pat": "IErr e", "err_payload": "e", "panic": "IPanic"},
    "tres": {"ok": "TOk %s", "err_pat": "TErr e l s", "err_payload": "(e, l, s)", "panic": None},
}


class Fn2(Fn):
    """cfg keys in addition to / instead of Fn's:
      params       {rust name: (type, coq term | {field: (type, term)})}
      locals       {rust name: type}                     declared types of `let mut x = None / vec![] / 1`
      statics      {NAME: (Ty, python value)}            from read_statics
      structs      {Name: {"fields": [(f, type)], "coq": coq type, "mk": fmt over the fields, "proj": {f: fmt}, "new_is_none": bool}}
      fn_params / fn_args                                 binder text / argument text of the loop-body definition
      loop         {"state": [dotted names], "body_params": [(dotted rust name, coq name)], "fuel": coq term,
                    "item": (type, coq type)}            shape of the (single) loop
      step / res   spellings (see parser_gen)
      helpers      {rust fn path: {"call": f(fn, args, env) -> term, "res": key of RES_SHAPES, "ret": type,
                                   "ok": f(fn, args, env, var) -> (coq pattern, env2), "err": f(fn, args, env) -> payload,
                                   "tail": bool}}
      ctor_handlers {rust path: f(fn, args, env) -> (type, term)},  struct_handlers {rust path: f(fn, fields, env) -> (type, term)}
      iflet_ctors  {rust path: coq pattern}
      err_kinds    [names of ScriptError variants that have a model constructor E<name>], is_meta f(fn, e, env) -> bool
      ok_wrap      f(fn, term, env) -> term               what Ok(x) carries in the model besides x
    """

    def __init__(self, cfg):
        super().__init__(cfg)
        self.fresh_names = set()
        self._pack = None
        self._h = 0

    def newvar(self, base):
        v = super().newvar(re.sub(r"\W", "_", base))
        self.fresh_names.add(v)
        return v

    # ---- environment with dotted names (struct fields)
    def lvalue(self, e):
        if e[0] == "path" and len(e[1]) == 1:
            return e[1][0]
        if e[0] == "field":
            b = self.lvalue(e[1])
            return None if b is None else b + "." + e[2]
        return None

    def has(self, env, dotted):
        parts = dotted.split(".")
        if parts[0] not in env:
            return False
        v = env[parts[0]]
        for p in parts[1:]:
            if not (is_struct(v[0]) and isinstance(v[1], dict) and p in v[1]):
                return False
            v = v[1][p]
        return True

    def get(self, env, dotted):
        parts = dotted.split(".")
        if parts[0] not in env:
            raise Rs2vError("unknown variable %s" % parts[0])
        v = env[parts[0]]
        for p in parts[1:]:
            if not (is_struct(v[0]) and isinstance(v[1], dict) and p in v[1]):
                raise Rs2vError("no field %s in %s" % (p, dotted))
            v = v[1][p]
        return v

    def set(self, env, dotted, val):
        parts = dotted.split(".")
        env2 = dict(env)
        if len(parts) == 1:
            env2[dotted] = val
            return env2

        def upd(v, ps):
            if not ps:
                return val
            if not (is_struct(v[0]) and isinstance(v[1], dict) and ps[0] in v[1]):
                raise Rs2vError("no field %s in %s" % (ps[0], dotted))
            d = dict(v[1])
            d[ps[0]] = upd(d[ps[0]], ps[1:])
            return (v[0], d)
        if parts[0] not in env:
            raise Rs2vError("unknown variable %s" % parts[0])
        env2[parts[0]] = upd(env[parts[0]], parts[1:])
        return env2

    def struct_term(self, t, fields):
        """a struct value as one Coq term"""
        sc = self.cfg.get("structs", {}).get(t[1])
        if sc and "term" in sc:
            return sc["term"](self, fields)
        if not sc or "mk" not in sc:
            raise Rs2vError("struct %s has no Coq representation here" % t[1])
        terms = []
        for f, _ft in sc["fields"]:
            ft, term = fields[f]
            terms.append(self.struct_term(ft, term) if isinstance(term, dict) else self.plain(term, f))
        return sc["mk"] % tuple(terms)

    def struct_of_term(self, t, term):
        """the symbolic fields of a struct held in the Coq variable `term`"""
        sc = self.cfg["structs"][t[1]]
        return (t, {f: (ft, sc["proj"][f] % term) for f, ft in sc["fields"]})

    def plain(self, term, what="value"):
        if term == POISON or (isinstance(term, str) and POISON in term):
            raise Rs2vError("%s is not available at this point" % what)
        return term

    def value(self, e, env):
        """(type, term | field dict) of an expression that may denote a whole struct"""
        while e[0] in ("ref", "refmut"):
            e = e[1]
        if e[0] == "mcall" and e[2] in ("clone", "to_owned") and not e[3]:
            return self.value(e[1], env)
        lv = self.lvalue(e)
        if lv is not None and self.has(env, lv):
            return self.get(env, lv)
        if e[0] == "call" and e[1][0] == "path" and len(e[1][1]) == 2 and e[1][1][1] == "new" and not e[2]:
            sc = self.cfg.get("structs", {}).get(e[1][1][0])
            if sc:
                if not sc.get("new_is_none"):
                    raise Rs2vError("%s::new() is not known to be all-None" % e[1][1][0])
                return (T_struct(e[1][1][0]), {f: (ft, "None") for f, ft in sc["fields"]})
        return (self.type_of(e, env), self.ex(e, env))

    # ---- types
    def type_of(self, e, env):
        k = e[0]
        lv = self.lvalue(e)
        if lv is not None and self.has(env, lv):
            return self.get(env, lv)[0]
        if k == "path":
            name = "::".join(e[1])
            if name in self.cfg.get("statics", {}):
                return self.cfg["statics"][name][0]
            if name == "None":
                return None
            if name in self.cfg.get("ctor_types", {}):
                return self.cfg["ctor_types"][name]
        if k in ("ref", "refmut"):
            return self.type_of(e[1], env)
        if k == "num":
            return None
        if k == "tuple":
            return T_tuple(*[self.type_of(x, env) for x in e[1]])
        if k == "struct":
            name = "::".join(e[1])
            if name in self.cfg.get("ctor_types", {}):
                return self.cfg["ctor_types"][name]
        if k == "call" and e[1][0] == "path":
            name = "::".join(e[1][1])
            if name == "Some" and len(e[2]) == 1:
                return T_opt(self.type_of(e[2][0], env))
            if name in self.cfg.get("ctor_types", {}):
                return self.cfg["ctor_types"][name]
        if k == "index":
            t = self.type_of(e[1], env)
            if t in (Ty.STR, "vec"):
                return Ty.CHAR
            if isinstance(t, tuple) and t[0] == "list":
                return t[1]
            raise Rs2vError("index into %s" % (t,))
        if k == "mcall":
            m = e[2]
            if m == "unwrap":
                t = self.type_of(e[1], env)
                if isinstance(t, tuple) and t[0] == "option":
                    return t[1]
                raise Rs2vError("unwrap on %s" % (t,))
            if m in ("trim", "trim_start", "trim_end"):
                return Ty.STR
            if m in ("starts_with", "is_some", "is_none", "is_empty"):
                return Ty.BOOL
            if m == "len":
                return Ty.NAT
            if m in ("to_string", "clone", "to_owned"):
                t = self.type_of(e[1], env)
                return Ty.STR if t == Ty.STR_REV else t
        return super().type_of(e, env)

    # ---- pure expressions
    def ex(self, e, env):
        k = e[0]
        lv = self.lvalue(e)
        if lv is not None and self.has(env, lv):
            t, term = self.get(env, lv)
            if isinstance(term, dict):
                return self.struct_term(t, term)
            self.plain(term, lv)
            if t == Ty.STR_REV:
                return "(rev %s)" % term
            return term
        if k == "path":
            name = "::".join(e[1])
            st = self.cfg.get("statics", {}).get(name)
            if st:
                return coq_char(st[1]) if st[0] == Ty.CHAR else coq_str_lit(st[1])
            if name == "None":
                return "None"
            h = self.cfg.get("ctor_handlers", {}).get(name)
            if h:
                return h(self, [], env)[1]
        if k == "refmut":
            return self.ex(e[1], env)
        if k == "struct":
            h = self.cfg.get("struct_handlers", {}).get("::".join(e[1]))
            if not h:
                raise Rs2vError("struct literal %s" % "::".join(e[1]))
            return h(self, e[2], env)[1]
        if k == "call" and e[1][0] == "path":
            name = "::".join(e[1][1])
            if name == "Some" and len(e[2]) == 1:
                return "(Some %s)" % self.ex(e[2][0], env)
            h = self.cfg.get("ctor_handlers", {}).get(name)
            if h:
                return h(self, e[2], env)[1]
            if name == "String::new" and not e[2]:
                return "[]"
        if k == "index":
            raise Rs2vError("v[i] in a position where it cannot be hoisted")
        if k == "mcall":
            recv, m, args = e[1], e[2], e[3]
            if m in ("is_some", "is_none") and not args:
                return "(opt_%s %s)" % (m, self.ex(recv, env))
            if m == "is_empty" and not args:
                rl = self.lvalue(recv)
                if rl is not None and self.has(env, rl) and self.get(env, rl)[0] == Ty.STR_REV:
                    return "(list_is_empty %s)" % self.plain(self.get(env, rl)[1], rl)
                return "(list_is_empty %s)" % self.ex(recv, env)
            if m == "unwrap" and not args:
                inner = some_inner(self.ex(recv, env))
                if inner is None:
                    raise Rs2vError("unwrap in a position where it cannot be hoisted")
                return inner
            if m == "trim" and not args:
                return "(trim %s)" % self.ex(recv, env)
            if m == "starts_with" and len(args) == 1:
                return "(str_starts_with %s %s)" % (self.ex(args[0], env), self.ex(recv, env))
            if m == "len" and not args:
                return "(length %s)" % self.ex(recv, env)
            if m in ("to_string", "clone", "to_owned") and not args:
                return self.ex(recv, env)
        return super().ex(e, env)

    # ---- partial sub-expressions (v[i], x.unwrap()) are bound by an explicit match before the statement that uses them
    def hoist(self, e, env, ctx, k, hint="x"):
        pend = []

        def walk(n, guarded):
            if isinstance(n, list):
                return [walk(x, guarded) for x in n]
            if not isinstance(n, tuple) or not n:
                return n
            if n[0] in ("if", "iflet", "match", "block", "char", "str", "num", "bool"):
                return n
            if n[0] == "path":
                return n
            if n[0] == "index":
                if guarded:
                    raise Rs2vError("v[i] on the right of a short-circuit operator")
                sub = ("index", walk(n[1], guarded), walk(n[2], guarded))
                self._h += 1
                tmp = "%%h%d" % self._h
                pend.append((tmp, "index", sub))
                return ("path", [tmp])
            if n[0] == "mcall" and n[2] == "unwrap" and not n[3]:
                recv = walk(n[1], guarded)
                if guarded:
                    raise Rs2vError("unwrap on the right of a short-circuit operator")
                self._h += 1
                tmp = "%%h%d" % self._h
                pend.append((tmp, "unwrap", recv))
                return ("path", [tmp])
            if n[0] == "bin" and n[1] in ("&&", "||"):
                return ("bin", n[1], walk(n[2], guarded), walk(n[3], True))
            if n[0] == "struct":
                return ("struct", n[1], [(f, walk(x, guarded)) for f, x in n[2]])
            return tuple(walk(x, guarded) if isinstance(x, (tuple, list)) else x for x in n)

        e2 = walk(e, False)

        def bindall(i, env_):
            if i == len(pend):
                return k(e2, env_)
            tmp, kind, sub = pend[i]
            env2 = dict(env_)
            if kind == "index":
                et = self.type_of(sub, env_)
                v = self.newvar(hint)
                env2[tmp] = (et, v)
                return "match nth_error %s %s with\n| None => %s\n| Some %s =>\n%s\nend" % (
                    self.ex(sub[1], env_), self.num(sub[2], Ty.NAT, env_), self.panic_term(ctx), v, bindall(i + 1, env2))
            t = self.type_of(sub, env_)
            if not (isinstance(t, tuple) and t[0] == "option"):
                raise Rs2vError("unwrap on %s" % (t,))
            term = self.ex(sub, env_)
            inner = some_inner(term)
            if inner is not None:
                env2[tmp] = (t[1], inner)
                return bindall(i + 1, env2)
            v = self.newvar(hint)
            env2[tmp] = (t[1], v)
            return "match %s with\n| None => %s\n| Some %s =>\n%s\nend" % (term, self.panic_term(ctx), v, bindall(i + 1, env2))
        return bindall(0, env)

    # ---- outcomes
    def panic_term(self, ctx):
        p = self.cfg["step"]["panic"] if ctx.get("loop") else self.cfg["res"]["panic"]
        if not p:
            raise Rs2vError("a panic is not expressible here")
        return p

    def fail_term(self, payload, ctx):
        if ctx.get("loop"):
            return self.cfg["step"]["fail"] % payload
        return self.cfg["res"]["err"] % payload

    def err_payload(self, x, env):
        """the model's error payload for the Rust error expression x"""
        if x[0] == "path" and len(x[1]) == 1 and x[1][0] in env and env[x[1][0]][0] == "error":
            return env[x[1][0]][1]
        if x[0] == "call" and x[1][0] == "path" and len(x[1][1]) == 2 and x[1][1][0] == "ScriptError" and len(x[2]) == 1:
            kind = x[1][1][1]
            if kind not in self.cfg.get("err_kinds", ()):
                raise Rs2vError("error kind %s has no model constructor" % kind)
            im = self.cfg.get("is_meta")
            if not im or not im(self, x[2][0], env):
                raise Rs2vError("error %s does not carry the function's meta_info" % kind)
            f = self.cfg.get("err_fmt", "%s")
            return f % ("E" + kind)
        raise Rs2vError("error value %r" % (x,))

    def result(self, e, env, ctx):
        """the function's result (`return e` or the tail value) in context ctx"""
        if e[0] == "call" and e[1][0] == "path":
            name = "::".join(e[1][1])
            if name == "Ok" and len(e[2]) == 1:
                if ctx.get("loop"):
                    raise Rs2vError("return Ok(..) inside the loop")

                def fin(x2, env2):
                    term = self.ex(x2, env2)
                    w = self.cfg.get("ok_wrap")
                    if w:
                        term = w(self, term, env2)
                    return self.cfg["res"]["ok"] % term
                return self.hoist(e[2][0], env, ctx, fin)
            if name == "Err" and len(e[2]) == 1:
                return self.fail_term(self.err_payload(e[2][0], env), ctx)
            h = self.helper(e[1][1])
            if h and h.get("tail") and not ctx.get("loop"):
                return h["call"](self, e[2], env)
        raise Rs2vError("result value %r" % (e,))

    def ret(self, e, env, ctx):
        if e is None:
            raise Rs2vError("return without a value")
        return self.result(e, env, ctx)

    def final(self, v, env):
        if v is None:
            raise Rs2vError("function ends without a value")
        return self.result(v, env, {})

    def helper(self, path):
        hs = self.cfg.get("helpers", {})
        return hs.get("::".join(path)) or hs.get(path[-1])

    # ---- scoping of blocks in statement position
    def declared(self, node):
        """names a block declares at its own level (let / let (..))"""
        out = set()
        if isinstance(node, tuple) and node and node[0] == "block":
            for s in node[1]:
                if s[0] == "let":
                    out.add(s[1])
                elif s[0] == "lettuple":
                    out.update(s[1])
        return out

    def restrict(self, env3, env, blocks=(), names=()):
        d = set(names)
        for b in blocks:
            if b is not None:
                d |= self.declared(b)
        sh = sorted(x for x in d if x in env)
        if sh:
            raise Rs2vError("a nested block re-declares %s" % ", ".join(sh))
        return {x: env3[x] for x in env}

    # ---- statements
    def stmt(self, s, env, cont, ctx):
        k = s[0]
        if k == "lettuple":
            return self.bind_tuple(s[1], s[2], env, cont, ctx)
        if k in ("loop", "for"):
            return self.loop2(s, env, cont, ctx)
        if k == "break":
            if not ctx.get("loop"):
                raise Rs2vError("break outside a loop")
            return self.cfg["step"]["brk"] % self._pack(env)
        return super().stmt(s, env, cont, ctx)

    def loop(self, s, env, cont, ctx):
        return self.loop2(s, env, cont, ctx)

    def bind_tuple(self, names, e, env, cont, ctx):
        t = self.type_of(e, env)
        if not (isinstance(t, tuple) and t[0] == "tuple" and len(t[1]) == len(names)):
            raise Rs2vError("let (%s) = a value of type %s" % (", ".join(names), t))
        term = self.ex(e, env)
        env2 = dict(env)
        vs = []
        for n, nt in zip(names, t[1]):
            v = self.newvar(n if n != "_" else "w")
            vs.append(v)
            if n != "_":
                env2[n] = (nt, v)
        return "match %s with\n| (%s) =>\n%s\nend" % (term, ", ".join(vs), cont(env2))

    def bind(self, name, e, env, cont, ctx):
        while e[0] == "block" and not e[1] and e[2] is not None:
            e = e[2]
        declared_t = self.cfg.get("locals", {}).get(name)
        if e[0] == "if":
            t, term = self.pure_cond(e, env)
            env2 = dict(env)
            env2[name] = (declared_t or t, term)
            return cont(env2)
        if e[0] == "match":
            def k(env2, v):
                if v is None:
                    raise Rs2vError("let %s = match .. without a value" % name)
                return self.bind(name, v, env2, lambda env3, _v=None: cont(self.keep(env3, env, name)), ctx)
            return self.match_(e, env, k, ctx)
        if e[0] == "mcall" and e[2] == "collect" and not e[3] and e[1][0] == "mcall" and e[1][2] == "chars" and not e[1][3]:
            return self.bind(name, e[1][1], env, cont, ctx)      # let chars: Vec<char> = s.chars().collect();
        if e[0] == "call" and e[1] == ("path", ["String", "new"]) and not e[2]:
            env2 = dict(env)
            env2[name] = (declared_t or Ty.STR, "[]")
            return cont(env2)
        if e[0] == "macro" and e[1] == "vec" and not e[2]:
            if declared_t is None:
                raise Rs2vError("type of local %s unknown" % name)
            env2 = dict(env)
            env2[name] = (declared_t, "[]")
            return cont(env2)

        def k2(e2, env2):
            if e2[0] == "num":
                if declared_t is None:
                    raise Rs2vError("type of local %s unknown" % name)
                t, val = declared_t, self.num(e2, declared_t, env2)
            else:
                t, val = self.value(e2, env2)
            if isinstance(val, dict):
                env3 = dict(env2)
                env3[name] = (t, val)
                return cont(env3)
            t = declared_t or t
            if t is None:
                raise Rs2vError("type of local %s unknown" % name)
            if t == Ty.STR_REV and val != "[]":
                raise Rs2vError("a reversed string local initialised with a value")
            env3 = dict(env2)
            env3[name] = (t, val)
            return cont(env3)
        return self.hoist(e, env, ctx, k2, hint=name)

    def keep(self, env3, env, name):
        out = {x: env3[x] for x in env}
        out[name] = env3[name]
        return out

    def pure_cond(self, e, env):
        if e[0] == "if":
            a, b = e[2], e[3]
            if a[1] or a[2] is None or b is None or b[1] or b[2] is None:
                raise Rs2vError("let x = if .. with statements")
            c = self.ex(e[1], env)
            ta, tb = self.type_of(a[2], env), self.type_of(b[2], env)
            return (ta or tb, "(if %s then %s else %s)" % (c, self.ex(a[2], env), self.ex(b[2], env)))
        raise Rs2vError("let x = %s .." % e[0])

    def assign(self, s, env, cont, ctx):
        lhs, op, rhs = s[1], s[2], s[3]
        lv = self.lvalue(lhs)
        if lv is None or not self.has(env, lv):
            raise Rs2vError("assignment to %r" % (lhs,))
        t, cur = self.get(env, lv)
        if op == "=" and rhs[0] == "match":
            def k(env2, v):
                if v is None:
                    raise Rs2vError("%s = match .. without a value" % lv)
                return self.assign(("assign", lhs, "=", v), env2, lambda env3, _v=None: cont(self.restrict(env3, env)), ctx)
            return self.match_(rhs, env, k, ctx)
        if op in ("+=", "-=") or (op == "=" and rhs[0] == "bin" and rhs[1] in ("+", "-") and rhs[2] == lhs):
            amount = rhs if op != "=" else rhs[3]
            sign = op[0] if op != "=" else rhs[1]
            if amount != ("num", 1) or isinstance(cur, dict):
                raise Rs2vError("assignment %s %s %r" % (lv, op, rhs))
            self.plain(cur, lv)
            if sign == "+" and t == Ty.NAT:
                return cont(self.set(env, lv, (t, "(S %s)" % cur)))
            if sign == "+" and t == Ty.NUM_N:
                return cont(self.set(env, lv, (t, "(%s + 1)%%N" % cur)))
            if sign == "-" and t == Ty.NAT:
                v = self.newvar(lv)
                return "match usize_dec %s with\n| None => %s\n| Some %s =>\n%s\nend" % (
                    cur, self.panic_term(ctx), v, cont(self.set(env, lv, (t, v))))
            raise Rs2vError("assignment %s %s on %s" % (lv, op, t))
        if op != "=":
            raise Rs2vError("assignment operator %s" % op)

        def k2(e2, env2):
            vt, val = (t, self.num(e2, t, env2)) if e2[0] == "num" else self.value(e2, env2)
            if isinstance(val, dict) != isinstance(cur, dict):
                raise Rs2vError("assignment of a struct to a non-struct (%s)" % lv)
            if not isinstance(val, dict):
                if t == Ty.STR_REV:
                    raise Rs2vError("assignment to the reversed string %s" % lv)
            return cont(self.set(env2, lv, (t, val)))
        return self.hoist(rhs, env, ctx, k2, hint=lv)

    def is_unit_effect(self, e, env):
        if e[0] == "mcall" and e[2] in MUTATORS:
            lv = self.lvalue(e[1])
            return lv is not None and self.has(env, lv)
        return False

    def effect(self, e, env, cont, ctx):
        k = e[0]
        if k == "if":
            return self.if_(e, env, lambda env2, _v=None: cont(self.restrict(env2, env, (e[2], e[3]))), ctx)
        if k == "iflet":
            return self.iflet2(e, env, lambda env2, _v=None: cont(self.restrict(env2, env, (e[3], e[4]), [x for x in e[1][2] if x])),
                               ctx)
        if k == "match":
            names = [x for pat, _b in e[2] if pat[0] == "ctor" for x in pat[2] if x]
            return self.match_(e, env, lambda env2, _v=None: cont(self.restrict(env2, env, [b for _p, b in e[2]], names)), ctx)
        if k == "block":
            return self.run(e[1], e[2], env, lambda env2, _v=None: cont(self.restrict(env2, env, (e,))), ctx)
        if k == "mcall" and e[2] in MUTATORS:
            lv = self.lvalue(e[1])
            if lv is None or not self.has(env, lv):
                raise Rs2vError("method %s on %r" % (e[2], e[1]))
            t, cur = self.get(env, lv)
            m, args = e[2], e[3]
            if isinstance(cur, dict):
                raise Rs2vError("method %s on the struct %s" % (m, lv))
            self.plain(cur, lv)

            def k2(a2, env2):
                if isinstance(t, tuple) and t[0] == "list":
                    if m == "push" and len(a2) == 1:
                        at, av = self.value(a2[0], env2)
                        a = self.struct_term(at, av) if isinstance(av, dict) else av
                        return cont(self.set(env2, lv, (t, "(%s ++ [%s])" % (cur, a))))
                    if m == "append" and len(a2) == 1 and a2[0][0] == "refmut":
                        src = self.lvalue(a2[0][1])
                        if src is None or not self.has(env2, src) or self.get(env2, src)[0] != t:
                            raise Rs2vError("append of %r" % (a2[0],))
                        env3 = self.set(env2, lv, (t, "(%s ++ %s)" % (cur, self.plain(self.get(env2, src)[1], src))))
                        return cont(self.set(env3, src, (t, "[]")))
                    if m == "clear" and not a2:
                        return cont(self.set(env2, lv, (t, "[]")))
                if t in (Ty.STR, Ty.STR_REV):
                    if m == "push" and len(a2) == 1:
                        a = self.ex(a2[0], env2)
                        return cont(self.set(env2, lv, (t, "(%s ++ [%s])" % (cur, a) if t == Ty.STR else "(%s :: %s)" % (a, cur))))
                    if m == "push_str" and len(a2) == 1:
                        lit = a2[0]
                        while lit[0] == "ref":
                            lit = lit[1]
                        if t == Ty.STR_REV:
                            a = coq_str_lit(lit[1][::-1]) if lit[0] == "str" else "(rev %s)" % self.ex(lit, env2)
                            return cont(self.set(env2, lv, (t, "(%s ++ %s)" % (a, cur))))
                        return cont(self.set(env2, lv, (t, "(%s ++ %s)" % (cur, self.ex(lit, env2)))))
                    if m == "clear" and not a2:
                        return cont(self.set(env2, lv, (t, "[]")))
                raise Rs2vError("method %s.%s on %s" % (lv, m, t))
            return self.hoist(args, env, ctx, k2, hint="x")
        raise Rs2vError("effect %r" % (e,))

    def cond(self, e, env, cont, ctx):
        return self.effect(e, env, cont, ctx)

    def opt_test(self, c, env):
        """(dotted name, True for is_some) when c is `[!]x.is_some()` / `[!]x.is_none()` on an Option-typed variable / field"""
        pos = True
        while c[0] == "not":
            pos = not pos
            c = c[1]
        if c[0] == "mcall" and c[2] in ("is_some", "is_none") and not c[3]:
            lv = self.lvalue(c[1])
            if lv is not None and self.has(env, lv):
                t, term = self.get(env, lv)
                if isinstance(t, tuple) and t[0] == "option" and not isinstance(term, dict):
                    return lv, (pos if c[2] == "is_some" else not pos)
        return None

    def runblk(self, blk, env, k, ctx):
        if blk is None:
            return k(env, None)
        return self.run(blk[1], blk[2], env, k, ctx)

    def if_(self, e, env, k, ctx):
        c, a, b = e[1], e[2], e[3]
        ot = self.opt_test(c, env)
        if ot:
            lv, positive = ot
            t, term = self.get(env, lv)
            self.plain(term, lv)
            inner = some_inner(term)
            if inner is not None or term == "None":
                return self.runblk(a if (inner is not None) == positive else b, env, k, ctx)
            v = self.newvar(lv)
            some_blk, none_blk = (a, b) if positive else (b, a)
            return "match %s with\n| Some %s =>\n%s\n| None =>\n%s\nend" % (
                term, v, self.runblk(some_blk, self.set(env, lv, (t, "(Some %s)" % v)), k, ctx),
                self.runblk(none_blk, self.set(env, lv, (t, "None")), k, ctx))
        return self.hoist(c, env, ctx, lambda c2, env2: "if %s then\n%s\nelse\n%s" % (
            self.ex(c2, env2), self.runblk(a, env2, k, ctx), self.runblk(b, env2, k, ctx)), hint="x")

    def iflet(self, e, env, cont, ctx):
        return self.effect(e, env, cont, ctx)

    def iflet2(self, e, env, k, ctx):
        pat, scrut, blk, els = e[1], e[2], e[3], e[4]
        if pat[0] != "ctor":
            raise Rs2vError("if let pattern %r" % (pat,))
        name = "::".join(pat[1])
        if name == "Some" and len(pat[2]) == 1:
            return self.opt_match(scrut, pat[2][0], blk, els, env, k, ctx)
        cp = self.cfg.get("iflet_ctors", {}).get(name)
        if cp and all(x is None for x in pat[2]):
            term = self.ex(scrut, env)
            return "match %s with\n| %s =>\n%s\n| _ =>\n%s\nend" % (term, cp, self.runblk(blk, env, k, ctx),
                                                                  self.runblk(els, env, k, ctx))
        raise Rs2vError("if let pattern %s" % name)

    def opt_match(self, scrut, var, some_blk, none_blk, env, k, ctx):
        """match scrut { Some(var) => some_blk, None => none_blk } on an Option value, with refinement of a variable"""
        while scrut[0] in ("ref", "refmut"):
            scrut = scrut[1]
        lv = self.lvalue(scrut)
        t = self.type_of(scrut, env)
        if not (isinstance(t, tuple) and t[0] == "option"):
            raise Rs2vError("Some(..) pattern on %s" % (t,))
        term = self.ex(scrut, env)
        inner = some_inner(term)
        if inner is not None:
            env2 = dict(env)
            if var:
                env2[var] = (t[1], inner)
            return self.runblk(some_blk, env2, k, ctx)
        if term == "None":
            return self.runblk(none_blk, env, k, ctx)
        v = self.newvar(var or "x")
        refinable = lv is not None and self.has(env, lv)
        env_s = self.set(env, lv, (t, "(Some %s)" % v)) if refinable else dict(env)
        if var:
            env_s[var] = (t[1], v)
        env_n = self.set(env, lv, (t, "None")) if refinable else env
        return "match %s with\n| Some %s =>\n%s\n| None =>\n%s\nend" % (
            term, v, self.runblk(some_blk, env_s, k, ctx), self.runblk(none_blk, env_n, k, ctx))

    def match(self, e, env, cont, ctx):
        return self.effect(e, env, cont, ctx)

    def arm(self, body, env, k, ctx):
        if body[0] == "block":
            return self.run(body[1], body[2], env, k, ctx)
        return self.tail(body, env, k, ctx)

    def match_(self, e, env, k, ctx):
        scrut, arms = e[1], e[2]
        byc = {}
        for pat, body in arms:
            if pat[0] != "ctor" or len(pat[1]) != 1 or pat[1][0] in byc:
                raise Rs2vError("match pattern %r" % (pat,))
            byc[pat[1][0]] = (pat[2], body)
        if scrut[0] == "call" and scrut[1][0] == "path":
            h = self.helper(scrut[1][1])
            if not h or not h.get("res"):
                raise Rs2vError("match on a call of %s" % "::".join(scrut[1][1]))
            if set(byc) != {"Ok", "Err"} or len(byc["Ok"][0]) != 1 or len(byc["Err"][0]) != 1:
                raise Rs2vError("match arms %s on a Result" % sorted(byc))
            shape = RES_SHAPES[h["res"]]
            call = h["call"](self, scrut[2], env)
            okvar, okbody = byc["Ok"][0][0], byc["Ok"][1]
            if h.get("ok"):
                okpat, env_ok = h["ok"](self, scrut[2], env, okvar)
            else:
                v = self.newvar(okvar or "r")
                okpat, env_ok = v, dict(env)
                if okvar:
                    env_ok[okvar] = (h["ret"], v)
            errvar, errbody = byc["Err"][0][0], byc["Err"][1]
            env_err = dict(env)
            if errvar:
                env_err[errvar] = ("error", h["err"](self, scrut[2], env) if h.get("err") else shape["err_payload"])
            out = ["match %s with" % call,
                   "| %s =>" % (shape["ok"] % okpat), self.arm(okbody, env_ok, k, ctx),
                   "| %s =>" % shape["err_pat"], self.arm(errbody, env_err, k, ctx)]
            if shape["panic"]:
                out += ["| %s => %s" % (shape["panic"], self.panic_term(ctx))]
            out.append("end")
            return "\n".join(out)
        if set(byc) == {"Some", "None"} and len(byc["Some"][0]) == 1 and not byc["None"][0]:
            sb, nb = byc["Some"][1], byc["None"][1]
            wrap = lambda b: b if b[0] == "block" else ("block", [], b)  # noqa: E731
            return self.opt_match(scrut, byc["Some"][0][0], wrap(sb), wrap(nb), env, k, ctx)
        raise Rs2vError("match scrutinee %r" % (scrut,))

    def tail(self, e, env, k, ctx):
        if e[0] == "if":
            return self.if_(e, env, k, ctx)
        if e[0] == "match":
            return self.match_(e, env, k, ctx)
        if e[0] == "iflet":
            return self.iflet2(e, env, k, ctx)
        if e[0] == "block":
            return self.run(e[1], e[2], env, k, ctx)
        if self.is_unit_effect(e, env):
            return self.effect(e, env, lambda env2, _v=None: k(env2, None), ctx)
        return k(env, e)

    # ---- the loop
    def assigned_names(self, node):
        out = set()

        def walk(n):
            if isinstance(n, list):
                for x in n:
                    walk(x)
                return
            if not isinstance(n, tuple) or not n:
                return
            if n[0] == "assign":
                lv = self.lvalue(n[1])
                out.add(lv if lv is not None else "?")
            elif n[0] == "mcall" and n[2] in MUTATORS:
                lv = self.lvalue(n[1])
                out.add(lv if lv is not None else "?")
            elif n[0] == "refmut":
                lv = self.lvalue(n[1])
                out.add(lv if lv is not None else "?")
            for x in n:
                if isinstance(x, (tuple, list)):
                    walk(x)
        walk(node)
        return out

    def is_closed(self, term):
        return not (set(re.findall(r"[A-Za-z_][A-Za-z0-9_']*", term)) & self.fresh_names)

    def loop2(self, s, env, cont, ctx):
        if ctx.get("loop"):
            raise Rs2vError("nested loop")
        if self.loops:
            raise Rs2vError("more than one loop")
        lc = self.cfg.get("loop")
        if not lc:
            raise Rs2vError("a loop, but no loop is configured for this function")
        if s[0] == "loop":
            pat, it, body = None, None, s[1]
        else:
            pat, it, body = s[1], s[2], s[3]
        state = lc["state"]
        for n in state:
            if not self.has(env, n) or isinstance(self.get(env, n)[1], dict):
                raise Rs2vError("loop state variable %s is not in scope" % n)
        for a in sorted(self.assigned_names(body)):
            root = a.split(".")[0]
            if a == "?":
                raise Rs2vError("the loop assigns to something that is not a variable")
            if root in env and not any(a == n or a.startswith(n + ".") for n in state):
                raise Rs2vError("the loop assigns %s, which is not part of the configured state (%s)" % (a, ", ".join(state)))
        bparams = lc.get("body_params", [])
        bp = dict(bparams)

        def close(dotted, tv):
            t, term = tv
            if isinstance(term, dict):
                return (t, {f: close(dotted + "." + f, x) for f, x in term.items()})
            if dotted in bp:
                return (t, bp[dotted])
            return (t, term if (term != POISON and self.is_closed(term)) else POISON)
        benv = {n: close(n, tv) for n, tv in env.items()}
        svars = []
        for n in state:
            v = self.newvar(n)
            svars.append(v)
            benv = self.set(benv, n, (self.get(env, n)[0], v))
        name = "%s_body" % self.cfg["coq_name"]
        call = "(%s%s%s)" % (name, (" " + self.cfg["fn_args"]) if self.cfg.get("fn_args") else "",
                             "".join(" " + self.plain(self.ex(self.field_path(n), env), n) for n, _c in bparams))

        def pack(env_):
            ts = [self.plain(self.get(env_, n)[1], n) for n in state]
            return ts[0] if len(ts) == 1 else "(" + ", ".join(ts) + ")"
        init = pack(env)
        item_decl = ""
        if s[0] == "loop":
            if not lc.get("fuel"):
                raise Rs2vError("`loop` without a configured fuel expression")
            drive = "loop_fuel %s %s %s" % (call, lc["fuel"], init)
        elif it[0] == "bin" and it[1] == "..":
            if pat in self.used_names(body):
                raise Rs2vError("range loop variable is used")
            drive = "for_n %s (%s - %s)%%nat %s" % (call, self.ex(it[3], env), self.ex(it[2], env), init)
        elif it[0] == "mcall" and it[2] == "lines" and not it[3] and lc.get("item"):
            item = self.newvar(pat)
            benv[pat] = (lc["item"][0], item)
            item_decl = " (%s : %s)" % (item, lc["item"][1])
            drive = "%s %s (lines %s) %s" % (lc.get("for_each", "for_each_x"), call, self.ex(it[1], env), init)
        else:
            raise Rs2vError("loop iterator %r" % (it,))
        stp = self.cfg["step"]
        self._pack = pack
        body_term = self.run(body[1], body[2], benv, lambda env2, v=None: stp["cont"] % pack(env2), {"loop": True})
        self._pack = None
        if POISON in body_term:
            raise Rs2vError("the loop body uses a local of the enclosing function that is not one of its parameters")
        spat = svars[0] if len(svars) == 1 else "(" + ", ".join(svars) + ")"
        self.loops.append((name, "Definition %s%s%s (st : %s)%s : %s :=\nmatch st with\n| %s =>\n%s\nend.\n" % (
            name, (" " + self.cfg["fn_params"]) if self.cfg.get("fn_params") else "",
            "".join(" (%s : %s)" % (c, lc["body_param_types"][c]) for _n, c in bparams),
            lc["state_type"], item_decl, stp["type"], spat, body_term)))
        avars = [self.newvar(n) for n in state]
        env_after = env
        for n, v in zip(state, avars):
            env_after = self.set(env_after, n, (self.get(env, n)[0], v))
        apat = avars[0] if len(avars) == 1 else "(" + ", ".join(avars) + ")"
        return self.cfg["res"]["consume"] % {"drive": drive, "pat": apat, "after": cont(env_after)}

    def field_path(self, dotted):
        parts = dotted.split(".")
        e = ("path", [parts[0]])
        for p in parts[1:]:
            e = ("field", e, p)
        return e

    # ---- whole function
    def function(self, params, body):
        env = {}
        for pn, _ in params:
            if pn in self.cfg["params"]:
                env[pn] = self.cfg["params"][pn]
        return self.run(body[1], body[2], env, lambda env2, v: self.final(v, env2), {})
