(* RunnerBindGenTie.v — the runner WITH argument binding (RunnerBind.v, the second model C03 reasons about) against
   the same mechanical translation of duckscript/src/runner.rs (coq/generated/GenRunnerFn.v; see RunnerGenTie.v for
   the conventions):

     gen_bind_command_arguments = Expansion.bind_command_arguments    (bind_command_arguments: every written
                                   argument expanded by expand_by_wrapper, Single / Multi / None appended in order)
     gen_run_instruction bnd    = RunnerBind.run_instruction_b bnd    (for EVERY binder bnd)
     gen_run_on_error           = RunnerBind.run_on_error_b           (the direct invocation, arguments not bound)
     gen_step_with (run_instruction_b bnd) run_on_error_b = RunnerBind.step_b bnd

   In the translation of run_instruction the call `bind_command_arguments(variables, script_instruction, meta)` is the
   binder parameter applied to the current variables and the instruction's argument list; [bind_vars] (what
   run_bound instantiates it with) is bind_command_arguments on that list, tied below. *)
From stdpp Require Import gmap.
Require Import DS.Base DS.Parser DS.Expansion DS.Runner DS.RunnerBind DS.Rs2vLib3.
Require Import DSG.GenRunnerFn.
Require Import DS.RunnerGenTie.
Local Open Scope nat_scope.

(* ---- bind_command_arguments --------------------------------------------------------------------------- *)
Theorem gen_bind_command_arguments_eq : gen_bind_command_arguments_understood = true ->
  forall variables arguments,
    gen_bind_command_arguments variables arguments = Expansion.bind_command_arguments variables arguments.
Proof.
  unfold gen_bind_command_arguments_understood; intros U; try discriminate U.
  all: clear U.
  all: intros variables arguments; unfold gen_bind_command_arguments, Expansion.bind_command_arguments.
  all: destruct arguments as [args|]; [|reflexivity].
  all: cbn beta iota zeta.
  all: match goal with |- context [foldl ?b _ _] =>
         assert (L : forall l acc, foldl b acc l = acc ++ bind_args variables l)
           by (induction l as [|a l IH]; intros acc; cbn [foldl bind_args]; [now rewrite app_nil_r|];
               rewrite IH; tie_unfold_head b; unfold bound_of; cbn beta iota zeta;
               destruct (expand_by_wrapper a variables); rewrite <- ?app_assoc; reflexivity)
       end.
  all: rewrite L; reflexivity.
Qed.

(* what run_bound binds with *)
Corollary gen_bind_vars_eq : gen_bind_command_arguments_understood = true ->
  forall v args, gen_bind_command_arguments (env_of v) (Some args) = bind_vars v args.
Proof. intros U v args. rewrite (gen_bind_command_arguments_eq U). reflexivity. Qed.


Theorem gen_run_instruction_b_eq : gen_run_instruction_understood = true ->
  forall (cstate : Type) (exists_cmd : cstate -> str -> bool) (cmd : str -> inv -> world cstate -> result * world cstate) (bnd : vmap -> list str -> list str) w i line,
    gen_run_instruction cstate exists_cmd cmd bnd w i line = run_instruction_b cstate exists_cmd cmd bnd w i line.
Proof.
  unfold gen_run_instruction_understood; intros U; try discriminate U.
  all: clear U.
  all: intros cstate exists_cmd cmd bnd w i line; unfold gen_run_instruction, run_instruction_b; tie_tree.
Qed.

Theorem gen_run_on_error_b_eq : gen_run_on_error_understood = true ->
  forall (cstate : Type) (exists_cmd : cstate -> str -> bool) (cmd : str -> inv -> world cstate -> result * world cstate) w msg m,
    gen_run_on_error cstate exists_cmd cmd w msg m = run_on_error_b cstate exists_cmd cmd w msg m.
Proof.
  unfold gen_run_on_error_understood; intros U; try discriminate U.
  all: clear U.
  all: intros cstate exists_cmd cmd w msg m; unfold gen_run_on_error, run_on_error_b, on_error_inv, on_error_name; tie_tree.
Qed.

Theorem gen_step_b_eq : gen_runner_step_understood = true ->
  forall (cstate : Type) (exists_cmd : cstate -> str -> bool) (cmd : str -> inv -> world cstate -> result * world cstate) (ext : nat -> bool) (bnd : vmap -> list str -> list str) prog lt c,
    gen_step_with cstate ext (run_instruction_b cstate exists_cmd cmd bnd) (run_on_error_b cstate exists_cmd cmd) prog lt c
    = step_b cstate exists_cmd cmd ext bnd prog lt c.
Proof.
  unfold gen_runner_step_understood; intros U; try discriminate U.
  all: clear U.
  all: intros cstate exists_cmd cmd ext bnd prog lt c; unfold gen_step_with, step_b, exec_b, exit_code, false_str.
  all: rewrite ?Nat.add_1_r; tie_tree.
Qed.

Theorem gen_run_loop_b_eq : gen_runner_step_understood = true ->
  forall (cstate : Type) (exists_cmd : cstate -> str -> bool) (cmd : str -> inv -> world cstate -> result * world cstate) (ext : nat -> bool) (bnd : vmap -> list str -> list str) prog lt fuel start w,
    gen_run_loop_with cstate ext (run_instruction_b cstate exists_cmd cmd bnd) (run_on_error_b cstate exists_cmd cmd)
                      prog lt fuel start w
    = loop_b cstate exists_cmd cmd ext bnd prog lt fuel (Config start w 0 []).
Proof.
  intros U cstate exists_cmd cmd ext bnd prog lt. pose proof (gen_step_b_eq U cstate exists_cmd cmd ext bnd prog lt) as S1. revert U S1.
  unfold gen_runner_step_understood; intros U; try discriminate U.
  all: clear U.
  all: intros S1 fuel start w; unfold gen_run_loop_with.
  all: generalize (Config start w 0 []).
  all: induction fuel as [|f IH]; intros c0; cbn [step_fuel loop_b]; [reflexivity|].
  all: rewrite S1; destruct (step_b cstate exists_cmd cmd ext bnd prog lt c0) as [c'|[fin t]]; [apply IH|reflexivity].
Qed.
