(* RunnerBind.v — the runner of Runner.v WITH argument binding (definitions only; the abstract
   machine is RunnerBindSpec.v, the proofs are RunnerBindProof.v).

   runner.rs::run_instruction hands the command `bind_command_arguments(variables, instruction)`,
   i.e. every written argument expanded by expansion::expand_by_wrapper against the variables AS
   THEY ARE WHEN THE INSTRUCTION STARTS (Expansion.bind_args).  Nothing else is expanded: not the
   command name, not the output variable name, not a label, not the label / value a command
   answers with, and — since the `fix:` "the error message given to on_error is no longer expanded a
   second time" — not the three values handed to the on_error command, which
   run_on_error_instruction now passes to the command directly.

   The binder is a Section variable [bnd] so that the two instances can be compared:
     bnd := fun _ a => a      is Runner.v            (RunnerBindProof.run_b_id)
     bnd := bind_vars         is the real runner     ([run_bound], what is extracted and run against
                                                      the implementation). *)
From stdpp Require Import gmap.
Require Import DS.Base DS.Parser DS.Expansion.
Require Import DS.Runner.
Local Open Scope nat_scope.

(* &HashMap<String, String> seen as Expansion.env *)
Definition env_of (v : vmap) : env := fun k => v !! k.
(* runner.rs::bind_command_arguments on the instruction's argument list *)
Definition bind_vars (v : vmap) (args : list str) : list str := bind_args (env_of v) args.

(* the invocation run_on_error_instruction makes: (message, line or 0, source or ""), no output
   variable, line 0 *)
Definition on_error_inv (msg : str) (m : meta) : inv :=
  Inv [msg; nat_str (default 0 (m_line m)); default [] (m_src m)] None 0.

Section RunnerBind.
Variable cstate : Type.
Variable exists_cmd : cstate -> str -> bool.
Variable cmd : str -> inv -> world cstate -> result * world cstate.
Variable ext : nat -> bool.
Variable bnd : vmap -> list str -> list str.

Notation world := (world cstate).
Notation config := (config cstate).
Notation final := (final cstate).
Notation outcome := (outcome cstate).

(* run_instruction *)
Definition run_instruction_b (w : world) (i : instr) (line : nat) : ri_out cstate :=
  match i_type i with
  | IEmpty => RI (Continue None) None w []
  | IPre => RI (Continue None) None w []
  | IScript s =>
    match s_cmd s with
    | Some c =>
      if exists_cmd (cst w) c then
        let a := Inv (bnd (vars w) (s_args s)) (s_out s) line in
        let rw := cmd c a w in
        RI (fst rw) (s_out s) (snd rw) [Call c a]
      else RI (Crash (NotFound c)) (s_out s) w []
    | None => RI (Continue None) (s_out s) w []
    end
  end.

(* run_on_error_instruction: the command is invoked directly, its arguments are not bound *)
Definition run_on_error_b (w : world) (msg : str) (m : meta) : oe_out cstate :=
  if exists_cmd (cst w) on_error_name then
    let a := on_error_inv msg m in
    let rw := cmd on_error_name a w in
    match fst rw with
    | Exit out => OE (Some RHandlerExit) (update_output (snd rw) None out) [Call on_error_name a]
    | Crash e => OE (Some (RHandlerCrash e)) (snd rw) [Call on_error_name a]
    | _ => OE None (snd rw) [Call on_error_name a]
    end
  else OE None w [].

Section Prog.
Variable prog : program.
Variable lt : gmap str nat.

(* run_instructions, one iteration after the halt poll (Runner.exec with the two functions above) *)
Definition exec_b (c : config) : config + final * list event :=
  match prog !! pc c with
  | None => inr (FOk ReachedEnd (wd c), trace c)
  | Some i =>
    let m := i_meta i in
    let o := run_instruction_b (wd c) i (pc c) in
    let tr calls := trace c ++ [Event (pc c) calls] in
    match ri_res o with
    | Exit out =>
      let w1 := update_output (ri_w o) (ri_ov o) out in
      match exit_code out with
      | Some z => inr (FErr (RExitCode z) m, tr (ri_calls o))
      | None => inr (FOk ExitCalled w1, tr (ri_calls o))
      end
    | Error e =>
      let w1 := update_output (ri_w o) (ri_ov o) (Some false_str) in
      let h := run_on_error_b w1 e m in
      match oe_err h with
      | Some err => inr (FErr err m, tr (ri_calls o ++ oe_calls h))
      | None => inl (Config (S (pc c)) (oe_w h) (S (polls c)) (tr (ri_calls o ++ oe_calls h)))
      end
    | Crash e => inr (FErr (RCrash e) m, tr (ri_calls o))
    | Continue out =>
      inl (Config (S (pc c)) (update_output (ri_w o) (ri_ov o) out) (S (polls c)) (tr (ri_calls o)))
    | GoTo out g =>
      let w1 := update_output (ri_w o) (ri_ov o) out in
      match g with
      | GLabel l =>
        match lt !! l with
        | Some n => inl (Config n w1 (S (polls c)) (tr (ri_calls o)))
        | None => inr (FErr (RLabel l) m, tr (ri_calls o))
        end
      | GLine n => inl (Config n w1 (S (polls c)) (tr (ri_calls o)))
      end
    end
  end.

Definition step_b (c : config) : config + final * list event :=
  if flag_seen cstate ext c then inr (FOk Halted (wd c), trace c) else exec_b c.

Fixpoint loop_b (fuel : nat) (c : config) : outcome :=
  match fuel with
  | O => OutOfFuel
  | S f => match step_b c with
           | inl c' => loop_b f c'
           | inr (fin, t) => Done fin t
           end
  end.
End Prog.

Definition run_b (fuel : nat) (p : program) (w : world) : outcome :=
  loop_b p (label_table p) fuel (init w).

(* ---- the command function under which Runner.v behaves like this runner ------------------------
   Runner.v invokes every command through one function; the handler invocation (not bound) can be
   told from a script invocation (bound) by its shape — on_error, three arguments, no output
   variable, line 0 — except when instruction 0 of the program itself has that shape. *)
Definition handler_shape (c : str) (a : inv) : bool :=
  str_eqb c on_error_name && (length (a_args a) =? 3) &&
  (match a_out a with None => true | Some _ => false end) && (a_line a =? 0).

Definition bound_cmd (c : str) (a : inv) (w : world) : result * world :=
  if handler_shape c a then cmd c a w
  else cmd c (Inv (bnd (vars w) (a_args a)) (a_out a) (a_line a)) w.

Definition first_is_handler_call (p : program) : bool :=
  match p with
  | i :: _ =>
    match i_type i with
    | IScript s => match s_cmd s with
                   | Some c => handler_shape c (Inv (s_args s) (s_out s) 0)
                   | None => false
                   end
    | _ => false
    end
  | [] => false
  end.

(* what [bound_cmd] cannot reproduce is the LOG: Runner.v records the written arguments of an
   invocation, this runner the bound ones.  The shape of an outcome forgets the logged arguments. *)
Definition call_shape (k : call) : str * option str * nat := (c_name k, a_out (c_inv k), a_line (c_inv k)).
Definition event_shape (e : event) : nat * list (str * option str * nat) := (e_pc e, map call_shape (e_calls e)).
Definition outcome_shape (o : outcome) : option (final * list (nat * list (str * option str * nat))) :=
  match o with
  | Done f t => Some (f, map event_shape t)
  | OutOfFuel => None
  end.

End RunnerBind.

(* ---- the real runner: arguments bound by Expansion.bind_args against the current variables ------ *)
Definition run_bound (cstate : Type) (exists_cmd : cstate -> str -> bool)
    (cmd : str -> inv -> world cstate -> result * world cstate) (ext : nat -> bool)
    (fuel : nat) (p : program) (w : world cstate) : outcome cstate :=
  run_b cstate exists_cmd cmd ext bind_vars fuel p w.
