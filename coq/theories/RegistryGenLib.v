(* RegistryGenLib.v — result types of the functions generated from `impl Commands`
   (coq/generated/GenRegistryFn.v, lib/gen/registry_gen.py) and their relation to the hand model's.
   DEFINITIONS ONLY.

   The translation of a `&mut self` method returns the receiver as it is when the function returns, also on
   the error path.  The hand model's [set_res] carries a registry only in [SetOk]: a refused registration
   leaves the registry as it was ([Registry.step]).  [set_outcome r res] spells that out so that the
   equality with the translation covers the state on the error path too. *)
From stdpp Require Import gmap list.
Require Import DS.Registry.

(* the two `Err(ScriptError::Initialization(..))` of Commands::set, by message *)
Inductive set_err := ESetName | ESetAlias (a : name).

(* what `set` leaves behind and returns, read off the hand model's result for the call on [r] *)
Definition set_outcome (r : reg) (res : set_res) : reg * option set_err :=
  match res with
  | SetOk r' => (r', None)
  | SetErrName => (r, Some ESetName)
  | SetErrAlias a => (r, Some (ESetAlias a))
  end.

(* and back: the hand model's result type from what the translation returns *)
Definition set_res_of (o : reg * option set_err) : set_res :=
  match o with
  | (r', None) => SetOk r'
  | (_, Some ESetName) => SetErrName
  | (_, Some (ESetAlias a)) => SetErrAlias a
  end.
