(* FsTree.v — C18: the file-system commands of duckscript_sdk/src/sdk/std/fs as operations on a
   file tree.  DEFINITIONS ONLY (proofs: FsProof.v, FsLaws.v) so that extraction survives a broken
   proof.  std++ gmap style.

   State      tree = gmap key node, key = list of path components below the working root,
              node = File bytes | Dir.  The root (key []) is an implicit directory.
   Paths      a path argument is its component list plus "written with a trailing separator".
   Three layers, in this order in the file:
     1. PRIMITIVES  p_* (std::fs / the OS), f_* (fsio 0.4), x_* (fs_extra 1.3): what each does to
        the tree, specified ONCE.  These are ASSUMPTIONS; the correspondence run validates them.
        Whatever the property excludes (directory sources of cp / mv) is a Section variable with
        no assumed fact at all.
     2. M  one function per command, transcribed from fs/*/mod.rs: the command's own decision
        logic (tests, order of calls, which failures become "false" and which an error) over 1.
     3. S  the reference model written from the property text: one total function per command
        on the tree, no primitives.
   then the history runner, the property's domain and the classes of known findings. *)
From Coq Require Import NArith List.
From stdpp Require Import gmap list.

Notation str := (list N).       (* text: Unicode scalar values *)
Notation bytes := (list N).     (* file contents: 0..255 *)
Notation key := (list (list N)).
Inductive node := File (b : bytes) | Dir.
Notation tree := (gmap key node).
Global Instance node_eq_dec : EqDecision node.
Proof. solve_decision. Defined.

Record path := P { pk : key; ptr : bool }.

Inductive out :=
  | OVal (s : str)          (* Continue(Some(s)) *)
  | ONone                   (* Continue(None): the output variable is unset *)
  | OErr                    (* CommandResult::Error(_): reported through on_error *)
  | OBytes (b : bytes)      (* a handle to a byte array with this content *)
  | OList (l : list str)    (* a handle to an array with these elements (order not compared) *)
  | ONum (n : N).           (* a number printed in decimal *)

Definition s_true : str := [116;114;117;101]%N.
Definition s_false : str := [102;97;108;115;101]%N.
Definition obool (b : bool) : out := OVal (if b then s_true else s_false).
Definition oerr (b : bool) : out := if b then OVal s_true else OErr.

(* ---- keys ------------------------------------------------------------------------------- *)
Fixpoint parent (k : key) : key :=
  match k with [] => [] | [_] => [] | x :: r => x :: parent r end.
(* all non-empty prefixes, shortest first *)
Fixpoint prefixes (k : key) : list key :=
  match k with [] => [] | x :: r => [x] :: map (cons x) (prefixes r) end.
Fixpoint str_eqb (a b : str) : bool :=
  match a, b with
  | [], [] => true
  | x :: a', y :: b' => N.eqb x y && str_eqb a' b'
  | _, _ => false
  end.
Fixpoint is_prefix (a b : key) : bool :=
  match a, b with
  | [], _ => true
  | x :: a', y :: b' => str_eqb x y && is_prefix a' b'
  | _ :: _, [] => false
  end.
Definition strict_prefix (a b : key) : bool := is_prefix a b && negb (length a =? length b)%nat.

Definition is_file_at (t : tree) (k : key) : bool :=
  match t !! k with Some (File _) => true | _ => false end.
(* the root is a directory *)
Definition is_dir_at (t : tree) (k : key) : bool :=
  match k with [] => true | _ => match t !! k with Some Dir => true | _ => false end end.

(* create the directories k and all its ancestors; impossible iff one of them is a file *)
Definition mkdirs (k : key) (t : tree) : option tree :=
  if existsb (is_file_at t) (prefixes k) then None
  else Some (foldr (fun p m => <[p := Dir]> m) t (prefixes k)).

Definition dir_empty (t : tree) (k : key) : bool :=
  forallb (fun kv => negb (strict_prefix k kv.1)) (map_to_list t).
Definition remove_subtree (k : key) (t : tree) : tree :=
  filter (fun kv => is_prefix k kv.1 = false) t.
Definition children (t : tree) (k : key) : list str :=
  omap (fun kv => if decide (parent kv.1 = k) then last kv.1 else None) (map_to_list t).

Definition pjoin (d : path) (name : str) : path := P (pk d ++ [name]) false.

(* ---- UTF-8 (String::as_bytes / String::from_utf8) ----------------------------------------- *)
Definition utf8_enc1 (c : N) : bytes :=
  (if c <? 128 then [c]
   else if c <? 2048 then [192 + c / 64; 128 + c mod 64]
   else if c <? 65536 then [224 + c / 4096; 128 + (c / 64) mod 64; 128 + c mod 64]
   else [240 + c / 262144; 128 + (c / 4096) mod 64; 128 + (c / 64) mod 64; 128 + c mod 64])%N.
Definition utf8_encode (s : str) : bytes := flat_map utf8_enc1 s.
Definition cont (b : N) : bool := ((128 <=? b) && (b <? 192))%N.
Definition scalar (c : N) : bool := ((c <? 55296) || ((57343 <? c) && (c <? 1114112)))%N.
Definition ocons (c : N) (o : option str) : option str :=
  match o with Some s => Some (c :: s) | None => None end.
Fixpoint utf8_decode (l : bytes) : option str :=
  match l with
  | [] => Some []
  | b0 :: r =>
    if (b0 <? 128)%N then ocons b0 (utf8_decode r)
    else if ((194 <=? b0) && (b0 <? 224))%N then
      match r with
      | b1 :: r' => if cont b1 then ocons ((b0 - 192) * 64 + (b1 - 128))%N (utf8_decode r') else None
      | _ => None
      end
    else if ((224 <=? b0) && (b0 <? 240))%N then
      match r with
      | b1 :: b2 :: r' =>
        let c := ((b0 - 224) * 4096 + (b1 - 128) * 64 + (b2 - 128))%N in
        if cont b1 && cont b2 && (2048 <=? c)%N && scalar c then ocons c (utf8_decode r') else None
      | _ => None
      end
    else if ((240 <=? b0) && (b0 <? 245))%N then
      match r with
      | b1 :: b2 :: b3 :: r' =>
        let c := ((b0 - 240) * 262144 + (b1 - 128) * 4096 + (b2 - 128) * 64 + (b3 - 128))%N in
        if cont b1 && cont b2 && cont b3 && (65536 <=? c)%N && (c <? 1114112)%N
        then ocons c (utf8_decode r') else None
      | _ => None
      end
    else None
  end.

(* ---- path text (std::path::Path on the last component, utils::io, utils::flags) ----------- *)
Definition c_slash : N := 47%N.  Definition c_bslash : N := 92%N.  Definition c_dot : N := 46%N.
Definition c_minus : N := 45%N.
(* io::ends_with_separator on the argument text: "/" or "\" *)
Definition ends_sep (p : path) : bool :=
  ptr p || match last (pk p) with
           | Some name => match last name with Some c => (c =? c_bslash)%N | None => false end
           | None => false
           end.
(* Path::extension().is_some() of a file name: there is a '.', and the text before the LAST '.'
   is not empty; ".." has none *)
Fixpoint after_first_dot (r : str) : option str :=
  match r with [] => None | c :: r' => if (c =? c_dot)%N then Some r' else after_first_dot r' end.
Definition name_has_ext (name : str) : bool :=
  if str_eqb name [c_dot; c_dot] then false
  else match after_first_dot (rev name) with Some (_ :: _) => true | _ => false end.
Definition has_ext (p : path) : bool :=
  match last (pk p) with Some name => name_has_ext name | None => false end.
(* flags::is_unix_flags_argument / is_unix_flag_exists('r', _) *)
Definition ascii_alpha (c : N) : bool :=
  (((65 <=? c) && (c <=? 90)) || ((97 <=? c) && (c <=? 122)))%N.
Definition is_unix_flags (a : str) : bool :=
  match a with
  | c :: r => match r with [] => false | _ => (c =? c_minus)%N && forallb ascii_alpha r end
  | [] => false
  end.
Definition flag_r (a : str) : bool :=
  is_unix_flags a && existsb (fun c => (c =? 114)%N || (c =? 82)%N) (tl a).

(* ========================================================================================== *)
(* 1. PRIMITIVES (assumed specifications)                                                      *)
(* ========================================================================================== *)
(* stat(2) as Path::exists / is_file / is_dir / fs::metadata see it.  A name written with a
   trailing separator resolves only if it is a directory. *)
Definition stat (p : path) (t : tree) : option node :=
  match t !! pk p with
  | Some (File b) => if ptr p then None else Some (File b)
  | Some Dir => Some Dir
  | None => None
  end.
Definition p_exists (p : path) (t : tree) : bool :=
  match stat p t with Some _ => true | None => false end.
Definition p_is_file (p : path) (t : tree) : bool :=
  match stat p t with Some (File _) => true | _ => false end.
Definition p_is_dir (p : path) (t : tree) : bool :=
  match stat p t with Some Dir => true | _ => false end.

Definition pres := (bool * tree)%type.      (* success?, tree afterwards *)

(* std::fs::create_dir_all: all or nothing (the first mkdir fails with ENOTDIR / EEXIST when a
   file is in the way, before anything is created) *)
Definition p_create_dir_all (k : key) (t : tree) : pres :=
  match mkdirs k t with Some t' => (true, t') | None => (false, t) end.
(* File::create + write_all: O_CREAT|O_TRUNC.  Needs an existing parent directory, the name must
   not be a directory and must not be written with a trailing separator. *)
Definition p_open_trunc (p : path) (b : bytes) (t : tree) : pres :=
  if ptr p then (false, t)
  else match pk p with
       | [] => (false, t)
       | k => if is_dir_at t (parent k) && negb (is_dir_at t k)
              then (true, <[k := File b]> t) else (false, t)
       end.
(* OpenOptions::append (no create) + write_all *)
Definition p_open_append (p : path) (b : bytes) (t : tree) : pres :=
  match stat p t with
  | Some (File c) => (true, <[pk p := File (c ++ b)]> t)
  | _ => (false, t)
  end.
(* fs::read *)
Definition p_read (p : path) (t : tree) : option bytes :=
  match stat p t with Some (File b) => Some b | _ => None end.
(* std::fs::copy: the source must be a regular file; the target is opened with O_TRUNC FIRST and
   the bytes are then streamed from the source — when both are the same file it is empty by then *)
Definition p_copy (src dst : path) (t : tree) : pres :=
  match p_read src t with
  | None => (false, t)
  | Some _ =>
    let '(ok1, t1) := p_open_trunc dst [] t in
    if ok1 then match p_read src t1 with
                | Some b' => p_open_trunc dst b' t1
                | None => (false, t1)
                end
    else (false, t)
  end.
(* fs::canonicalize: fails unless the path resolves; two paths are the same file when both resolve
   to the same entry *)
Definition p_canonicalize (p : path) (t : tree) : option (list (list N)) :=
  match stat p t with Some _ => Some (pk p) | None => None end.
Definition p_same_file (a b : path) (t : tree) : bool :=
  match p_canonicalize a t, p_canonicalize b t with
  | Some ka, Some kb => bool_decide (ka = kb)
  | _, _ => false
  end.
(* unlink / rmdir / remove_dir_all *)
Definition p_remove_file (p : path) (t : tree) : pres :=
  match stat p t with Some (File _) => (true, delete (pk p) t) | _ => (false, t) end.
Definition p_remove_dir (p : path) (t : tree) : pres :=
  match stat p t with
  | Some Dir => if dir_empty t (pk p) then (true, delete (pk p) t) else (false, t)
  | _ => (false, t)
  end.
Definition p_remove_dir_all (p : path) (t : tree) : pres :=
  match stat p t with Some Dir => (true, remove_subtree (pk p) t) | _ => (false, t) end.
(* glob of <dir>/STAR : the entries of the directory *)
Definition p_glob_children (p : path) (t : tree) : list str :=
  match t !! pk p with Some Dir => children t (pk p) | _ => [] end.

(* fsio::directory::create / create_parent, fsio::file::modify_file / ensure_exists *)
Definition f_dir_create (k : key) (t : tree) : pres :=
  if is_dir_at t k then (true, t) else p_create_dir_all k t.
Definition f_create_parent (p : path) (t : tree) : pres :=
  match parent (pk p) with
  | [] => (true, t)                 (* get_parent_directory: None / the working root itself *)
  | d => f_dir_create d t
  end.
Definition f_modify_file (p : path) (b : bytes) (append : bool) (t : tree) : pres :=
  let '(ok, t1) := f_create_parent p t in
  if ok then
    if append && p_exists p t1 then p_open_append p b t1 else p_open_trunc p b t1
  else (false, t1).
Definition f_ensure_exists (p : path) (t : tree) : pres :=
  if p_exists p t then (if p_is_file p t then (true, t) else (false, t))
  else let '(ok, t1) := f_create_parent p t in
       if ok then p_open_trunc p [] t1 else (false, t1).

Section Model.
(* Behaviour the property excludes (directory sources): no assumption at all. *)
Variable p_rename : path -> path -> tree -> pres.       (* std::fs::rename of a directory *)
Variable x_dir_copy : path -> path -> tree -> pres.     (* fs_extra::dir::copy *)
Variable x_move_dir : path -> path -> tree -> pres.     (* fs_extra::dir::move_dir *)

(* fs_extra::file::copy / move_file *)
Definition x_file_copy (src dst : path) (overwrite : bool) (t : tree) : pres :=
  if negb (p_exists src t) then (false, t)
  else if negb (p_is_file src t) then (false, t)
  else if negb overwrite && p_exists dst t then (false, t)
  else p_copy src dst t.
Definition x_move_file (src dst : path) (overwrite : bool) (t : tree) : pres :=
  let '(ok, t1) := x_file_copy src dst overwrite t in
  if ok then p_remove_file src t1 else (false, t1).
(* fs_extra::move_items with one item and dir::CopyOptions::new() (overwrite = false) *)
Definition x_move_items (src dst : path) (t : tree) : pres :=
  if negb (p_exists src t) then (false, t)
  else if p_is_dir src t then x_move_dir src dst t
  else match last (pk src) with
       | None => (false, t)
       | Some name => x_move_file src (pjoin dst name) false t
       end.

(* ========================================================================================== *)
(* 2. M — the commands (fs/*/mod.rs)                                                           *)
(* ========================================================================================== *)
Definition M_write (p : path) (b : bytes) (t : tree) : out * tree :=
  let '(ok, t') := f_modify_file p b false t in (obool ok, t').
Definition M_append (p : path) (b : bytes) (t : tree) : out * tree :=
  let '(ok, t') := f_modify_file p b true t in (obool ok, t').
Definition M_read (p : path) (t : tree) : out * tree :=
  match p_read p t with
  | Some b => match utf8_decode b with Some s => (OVal s, t) | None => (OErr, t) end
  | None => (OErr, t)
  end.
Definition M_readb (p : path) (t : tree) : out * tree :=
  match p_read p t with Some b => (OBytes b, t) | None => (OErr, t) end.
Definition M_touch (p : path) (t : tree) : out * tree :=
  let '(ok, t') := f_ensure_exists p t in (obool ok, t').
Definition M_mkdir (p : path) (t : tree) : out * tree :=
  let '(ok, t') := f_dir_create (pk p) t in (oerr ok, t').

Definition M_cp (src dst : path) (t : tree) : out * tree :=
  if negb (p_exists src t) then (OErr, t)
  else if p_is_file src t then
    if p_same_file src dst t then (OErr, t)            (* "Source and target are the same file." *)
    else
      let '(ok, t1) := f_create_parent dst t in
      if ok then let '(ok2, t2) := p_copy src dst t1 in (oerr ok2, t2) else (OErr, t1)
  else
    let '(ok, t1) := f_dir_create (pk dst) t in
    if ok then let '(ok2, t2) := x_dir_copy src dst t1 in (oerr ok2, t2) else (OErr, t1).

Definition M_mv (src dst : path) (t : tree) : out * tree :=
  if negb (p_exists src t) then (OErr, t)
  else
    let source_ends_with_separator := ends_sep src in
    let source_file := p_is_file src t in
    let target_exists := p_exists dst t in
    let target_ends_with_separator := ends_sep dst in
    let target_file := if target_exists then p_is_file dst t
                       else negb target_ends_with_separator && has_ext dst in
    if source_file && target_file then
      if p_same_file src dst t then (OErr, t)          (* "Source and target are the same file." *)
      else
        let '(ok, t1) := f_create_parent dst t in
        if ok then let '(ok2, t2) := x_move_file src dst true t1 in (oerr ok2, t2) else (OErr, t1)
    else if negb source_file && negb target_file && negb source_ends_with_separator
            && negb target_ends_with_separator then
      let '(ok, t1) := p_rename src dst t in (oerr ok, t1)
    else
      let '(ok, t1) := f_dir_create (pk dst) t in
      if ok then let '(ok2, t2) := x_move_items src dst t1 in (oerr ok2, t2) else (OErr, t1).

(* rm: [flags] is the first argument when it is not a path of the working directory; the other
   arguments are absolute paths, never flag-like *)
Definition M_rm_one (recursive : bool) (p : path) (t : tree) : pres :=
  if negb (p_exists p t) then (true, t)
  else if p_is_file p t then p_remove_file p t
  else if recursive then p_remove_dir_all p t
  else p_remove_dir p t.
Fixpoint M_rm_loop (recursive : bool) (ps : list path) (t : tree) : out * tree :=
  match ps with
  | [] => (OVal s_true, t)
  | p :: r => let '(ok, t1) := M_rm_one recursive p t in
              if ok then M_rm_loop recursive r t1 else (OErr, t1)
  end.
Definition M_rm (flags : option str) (ps : list path) (t : tree) : out * tree :=
  let nargs := (length ps + match flags with Some _ => 1 | None => 0 end)%nat in
  let first_is_flags := match flags with Some f => is_unix_flags f | None => false end in
  if (nargs =? 0)%nat || ((nargs =? 1)%nat && first_is_flags) then (OErr, t)
  else
    let recursive :=
      if (nargs =? 1)%nat then false
      else if first_is_flags then match flags with Some f => flag_r f | None => false end
      else false in
    M_rm_loop recursive ps t.
Definition M_rmdir (p : path) (t : tree) : out * tree :=
  if negb (p_exists p t) then (OVal s_true, t)
  else let '(ok, t') := p_remove_dir p t in (obool ok, t').
Definition M_size (p : path) (t : tree) : out * tree :=
  match stat p t with Some (File b) => (ONum (N.of_nat (length b)), t) | _ => (OErr, t) end.
Definition M_ls (p : path) (t : tree) : out * tree := (OList (p_glob_children p t), t).
End Model.

(* ---- basename / dirname (Path::file_name, Path::parent as text) and join_path (script.ds) --- *)
Fixpoint drop_while_rev (f : N -> bool) (r : str) : str :=
  match r with c :: r' => if f c then drop_while_rev f r' else r | [] => [] end.
Definition is_slash (c : N) : bool := (c =? c_slash)%N.
Definition rstrip_slash (s : str) : str := rev (drop_while_rev is_slash (rev s)).
Definition rstrip_name (s : str) : str := rev (drop_while_rev (fun c => negb (is_slash c)) (rev s)).
Fixpoint take_while (f : N -> bool) (s : str) : str :=
  match s with c :: s' => if f c then c :: take_while f s' else [] | [] => [] end.
(* file_name(): the last component, trailing separators ignored *)
Definition path_basename (s : str) : option str :=
  match rev (take_while (fun c => negb (is_slash c)) (drop_while_rev is_slash (rev s))) with
  | [] => None
  | n => Some n
  end.
(* fsio get_parent_directory: Path::parent() as text, None when there is none or it is empty *)
Definition path_dirname (s : str) : option str :=
  match rstrip_slash s with
  | [] => None
  | s1 => match rstrip_name s1 with
          | [] => None
          | s2 => match rstrip_slash s2 with [] => Some [c_slash] | s3 => Some s3 end
          end
  end.

(* join_path/script.ds: the arguments joined with "/", then `replace // /` while it contains "//" *)
Fixpoint jp_concat (added : bool) (acc : str) (args : list str) : str :=
  match args with
  | [] => acc
  | a :: r => if added then jp_concat true (acc ++ c_slash :: a) r else jp_concat true a r
  end.
Fixpoint has_dslash (s : str) : bool :=
  match s with
  | c :: (d :: _) as r => (is_slash c && is_slash d) || has_dslash r
  | _ => false
  end.
(* str::replace("//", "/"): non-overlapping matches, left to right *)
Fixpoint replace_dslash (s : str) : str :=
  match s with
  | c :: r => match r with
              | d :: r' => if is_slash c && is_slash d then c_slash :: replace_dslash r'
                           else c :: replace_dslash r
              | [] => [c]
              end
  | [] => []
  end.
Fixpoint jp_loop (fuel : nat) (s : str) : option str :=
  match fuel with
  | O => None                                        (* out of fuel: excluded by a theorem *)
  | S f => if has_dslash s then jp_loop f (replace_dslash s) else Some s
  end.
Definition M_join (args : list str) : option str :=
  let s := jp_concat false [] args in jp_loop (S (length s)) s.
(* S: join with "/" and collapse every run of separators *)
Fixpoint squeeze (s : str) : str :=
  match s with
  | c :: r => match r with
              | d :: _ => if is_slash c && is_slash d then squeeze r else c :: squeeze r
              | [] => [c]
              end
  | [] => []
  end.
Fixpoint join_with_slash (args : list str) : str :=
  match args with [] => [] | [a] => a | a :: r => a ++ c_slash :: join_with_slash r end.
Definition S_join (args : list str) : str := squeeze (join_with_slash args).

(* ========================================================================================== *)
(* 3. S — the reference file tree                                                              *)
(* ========================================================================================== *)
(* make [p] a file with content [b], creating missing parent directories; impossible when the
   name is written as a directory, is a directory, or something above it is a file *)
Definition put_file (p : path) (b : bytes) (t : tree) : option tree :=
  if ptr p then None
  else match pk p with
       | [] => None
       | k => match mkdirs (parent k) t with
              | None => None
              | Some t1 => if is_dir_at t1 k then None else Some (<[k := File b]> t1)
              end
       end.
Definition S_write (p : path) (b : bytes) (t : tree) : out * tree :=
  match put_file p b t with Some t' => (OVal s_true, t') | None => (OVal s_false, t) end.
Definition S_append (p : path) (b : bytes) (t : tree) : out * tree :=
  match stat p t with
  | Some (File c) => (OVal s_true, <[pk p := File (c ++ b)]> t)
  | Some Dir => (OVal s_false, t)
  | None => S_write p b t
  end.
Definition S_read (p : path) (t : tree) : out * tree :=
  match stat p t with
  | Some (File b) => match utf8_decode b with Some s => (OVal s, t) | None => (OErr, t) end
  | _ => (OErr, t)
  end.
Definition S_readb (p : path) (t : tree) : out * tree :=
  match stat p t with Some (File b) => (OBytes b, t) | _ => (OErr, t) end.
Definition S_touch (p : path) (t : tree) : out * tree :=
  match stat p t with
  | Some (File _) => (OVal s_true, t)
  | Some Dir => (OVal s_false, t)
  | None => S_write p [] t
  end.
Definition S_mkdir (p : path) (t : tree) : out * tree :=
  match mkdirs (pk p) t with Some t' => (OVal s_true, t') | None => (OErr, t) end.
(* copy a FILE: the source stays, the target becomes an equal file, parents are created; copying a
   file onto itself is a failing operation *)
Definition same_entry (src dst : path) : bool := negb (ptr dst) && bool_decide (pk src = pk dst).
Definition S_cp (src dst : path) (t : tree) : out * tree :=
  match stat src t with
  | Some (File b) =>
    if same_entry src dst then (OErr, t)
    else match put_file dst b t with Some t' => (OVal s_true, t') | None => (OErr, t) end
  | _ => (OErr, t)                                  (* missing; a directory source is off-domain *)
  end.
(* delete exactly the named path; a non-empty directory only recursively; a missing path is not
   an error (the property leaves that output free: "true" is chosen) *)
Definition S_rm_one (recursive : bool) (p : path) (t : tree) : pres :=
  match stat p t with
  | None => (true, t)
  | Some (File _) => (true, delete (pk p) t)
  | Some Dir => if recursive then (true, remove_subtree (pk p) t)
                else if dir_empty t (pk p) then (true, delete (pk p) t) else (false, t)
  end.
Fixpoint S_rm_list (recursive : bool) (ps : list path) (t : tree) : out * tree :=
  match ps with
  | [] => (OVal s_true, t)
  | p :: r => let '(ok, t1) := S_rm_one recursive p t in
              if ok then S_rm_list recursive r t1 else (OErr, t1)
  end.
Definition S_rm (flags : option str) (ps : list path) (t : tree) : out * tree :=
  match ps with
  | [] => (OErr, t)
  | _ => S_rm_list (match flags with Some f => flag_r f | None => false end) ps t
  end.
Definition S_rmdir (p : path) (t : tree) : out * tree :=
  match stat p t with
  | None => (OVal s_true, t)
  | Some Dir => if dir_empty t (pk p) then (OVal s_true, delete (pk p) t) else (OVal s_false, t)
  | Some (File _) => (OVal s_false, t)
  end.
(* move a FILE = copy, then delete the source; the target is inside [dst] when that is an existing
   directory or is written as a directory *)
Definition mv_target (src dst : path) (t : tree) : path :=
  if p_is_dir dst t || ends_sep dst
  then match last (pk src) with Some name => pjoin dst name | None => dst end
  else dst.
Definition S_mv (src dst : path) (t : tree) : out * tree :=
  match stat src t with
  | Some (File _) =>
    match S_cp src (mv_target src dst t) t with
    | (OVal _, t1) => let '(ok, t2) := S_rm_one false src t1 in (oerr ok, t2)
    | _ => (OErr, t)                                (* a failing copy makes the move fail *)
    end
  | _ => (OErr, t)
  end.
Definition S_size (p : path) (t : tree) : out * tree :=
  match stat p t with Some (File b) => (ONum (N.of_nat (length b)), t) | _ => (OErr, t) end.
Definition S_ls (p : path) (t : tree) : out * tree :=
  (OList (match stat p t with Some Dir => children t (pk p) | _ => [] end), t).

(* ========================================================================================== *)
(* histories                                                                                   *)
(* ========================================================================================== *)
Inductive op :=
  | Write (p : path) (s : str) | Append (p : path) (s : str) | Read (p : path)
  | WriteB (p : path) (b : bytes) | ReadB (p : path)
  | Touch (p : path) | Mkdir (p : path) | Cp (a b : path) | Mv (a b : path)
  | Rm (flags : option str) (ps : list path) | Rmdir (p : path)
  | Exists (p : path) | IsFile (p : path) | IsDir (p : path) | Size (p : path) | Ls (p : path)
  | Basename (s : str) | Dirname (s : str) | JoinPath (l : list str).

Definition oopt (o : option str) : out := match o with Some s => OVal s | None => ONone end.

Section Run.
Variable p_rename x_dir_copy x_move_dir : path -> path -> tree -> pres.

Definition M_step (o : op) (t : tree) : out * tree :=
  match o with
  | Write p s => M_write p (utf8_encode s) t
  | Append p s => M_append p (utf8_encode s) t
  | Read p => M_read p t
  | WriteB p b => M_write p b t
  | ReadB p => M_readb p t
  | Touch p => M_touch p t
  | Mkdir p => M_mkdir p t
  | Cp a b => M_cp x_dir_copy a b t
  | Mv a b => M_mv p_rename x_move_dir a b t
  | Rm f ps => M_rm f ps t
  | Rmdir p => M_rmdir p t
  | Exists p => (obool (p_exists p t), t)
  | IsFile p => (obool (p_is_file p t), t)
  | IsDir p => (obool (p_is_dir p t), t)
  | Size p => M_size p t
  | Ls p => M_ls p t
  | Basename s => (oopt (path_basename s), t)
  | Dirname s => (oopt (path_dirname s), t)
  | JoinPath l => (match M_join l with Some s => OVal s | None => OErr end, t)
  end.
End Run.

Definition S_step (o : op) (t : tree) : out * tree :=
  match o with
  | Write p s => S_write p (utf8_encode s) t
  | Append p s => S_append p (utf8_encode s) t
  | Read p => S_read p t
  | WriteB p b => S_write p b t
  | ReadB p => S_readb p t
  | Touch p => S_touch p t
  | Mkdir p => S_mkdir p t
  | Cp a b => S_cp a b t
  | Mv a b => S_mv a b t
  | Rm f ps => S_rm f ps t
  | Rmdir p => S_rmdir p t
  | Exists p => (obool (match stat p t with Some _ => true | None => false end), t)
  | IsFile p => (obool (match stat p t with Some (File _) => true | _ => false end), t)
  | IsDir p => (obool (match stat p t with Some Dir => true | _ => false end), t)
  | Size p => S_size p t
  | Ls p => S_ls p t
  | Basename s => (oopt (path_basename s), t)
  | Dirname s => (oopt (path_dirname s), t)
  | JoinPath l => (OVal (S_join l), t)
  end.

(* the trace of a history: output and tree after every step *)
Fixpoint run (step : op -> tree -> out * tree) (ops : list op) (t : tree) : list (out * tree) :=
  match ops with
  | [] => []
  | o :: r => let ot := step o t in ot :: run step r ot.2
  end.

(* ---- the property's domain ------------------------------------------------------------------ *)
(* a path component: not empty, not "." or "..", no separator, no NUL *)
Definition name_ok (n : str) : bool :=
  match n with [] => false | _ => true end
  && negb (str_eqb n [c_dot]) && negb (str_eqb n [c_dot; c_dot])
  && forallb (fun c => negb ((c =? c_slash) || (c =? c_bslash) || (c =? 0))%N) n.
Definition path_ok (p : path) : bool :=
  match pk p with [] => false | _ => true end && forallb name_ok (pk p).
(* text that survives the script-implemented join_path (F7 / F8 belong to C09): no dollar, percent, backslash, double quote, hash,
   no control characters, not empty; and for basename / dirname: no "." / ".." components *)
Definition jp_char_ok (c : N) : bool :=
  negb ((c <? 32) || (c =? 36) || (c =? 37) || (c =? 92) || (c =? 34) || (c =? 35) || (c =? 127))%N.
Definition jp_arg_ok (a : str) : bool :=
  match a with [] => false | _ => true end && forallb jp_char_ok a.
Definition glob_meta (c : N) : bool := ((c =? 42) || (c =? 63) || (c =? 91) || (c =? 93))%N.   (* * ? [ ] *)
Definition dom_step (o : op) (t : tree) : bool :=
  match o with
  | Write p s | Append p s => path_ok p && forallb scalar s
  | WriteB p b => path_ok p && forallb (fun x => (x <? 256)%N) b
  | Read p | ReadB p | Touch p | Mkdir p | Rmdir p | Exists p | IsFile p | IsDir p | Size p =>
      path_ok p
  | Ls p => path_ok p && forallb (forallb (fun c => negb (glob_meta c))) (pk p)   (* a literal pattern *)
  | Cp a b | Mv a b => path_ok a && path_ok b && negb (p_is_dir a t)    (* no directory sources *)
  | Rm f ps => forallb path_ok ps && match f with Some fl => is_unix_flags fl | None => true end
  | Basename s | Dirname s => true
  | JoinPath l => match l with [] => false | _ => true end && forallb jp_arg_ok l
  end.

(* ---- classes of known findings: where the real commands (M) leave the tree specification ----- *)
(* 1 = F15   mv FILE to a missing name without extension and without trailing separator: the name
             is taken for a directory, created, and the file lands inside it
   (2        cp FILE onto itself emptied it — repaired in /repo: now an error that changes nothing)
   3         write / append / touch / cp to a name written with a trailing separator fails, but the
             missing parent directories it created stay
   4         mv FILE into a directory that already has ANOTHER file of that name is refused,
             although mv FILE onto an existing file overwrites it *)
Definition trailing_partial (p : path) (t : tree) : bool :=
  ptr p && negb (is_dir_at t (parent (pk p)))
  && match mkdirs (parent (pk p)) t with Some _ => true | None => false end.
Definition known_step (o : op) (t : tree) : N :=
  match o with
  | Mv a b =>
    if p_is_file a t then
      if negb (p_exists b t) && negb (ends_sep b) && negb (has_ext b)
         && match mkdirs (pk b) t with Some _ => true | None => false end then 1%N
      else if (p_is_dir b t || ends_sep b) && is_file_at t (pk (mv_target a b t))
              && negb (bool_decide (pk a = pk (mv_target a b t))) then 4%N
      else 0%N
    else 0%N
  | Cp a b =>
    match stat a t with
    | Some (File c) =>
      if same_entry a b then 0%N else if trailing_partial b t then 3%N else 0%N
    | _ => 0%N
    end
  | Write p _ | Append p _ | WriteB p _ => if trailing_partial p t then 3%N else 0%N
  | Touch p => if negb (p_exists p t) && trailing_partial p t then 3%N else 0%N
  | _ => 0%N
  end.

Fixpoint in_domain (ops : list op) (t : tree) : Prop :=
  match ops with
  | [] => True
  | o :: r => dom_step o t = true /\ in_domain r (S_step o t).2
  end.
(* some step of the history (states taken along S) is in a class selected by [P] *)
Fixpoint known_at (P : N -> Prop) (ops : list op) (t : tree) : Prop :=
  match ops with
  | [] => False
  | o :: r => P (known_step o t) \/ known_at P r (S_step o t).2
  end.
Definition Known : list op -> tree -> Prop := known_at (fun c => c <> 0%N).
Definition KnownF15 : list op -> tree -> Prop := known_at (eq 1%N).
Definition KnownPartialParents : list op -> tree -> Prop := known_at (eq 3%N).
Definition KnownMvNoClobber : list op -> tree -> Prop := known_at (eq 4%N).

(* a file tree: the root is not an entry, and everything above an entry is a directory *)
Definition wf (t : tree) : Prop :=
  t !! [] = None /\
  forall k n, t !! k = Some n -> forall p, p `prefix_of` k -> p <> [] -> p <> k -> t !! p = Some Dir.

(* ---- what the correspondence run executes (directory sources never reach the dummies) -------- *)
Definition no_dir_prim (a b : path) (t : tree) : pres := (false, t).
Definition M_run (ops : list op) : list (out * tree) := run (M_step no_dir_prim no_dir_prim no_dir_prim) ops ∅.
Definition S_run (ops : list op) : list (out * tree) := run S_step ops ∅.
(* per step: in the domain? which known class? — along M's own states *)
Fixpoint flags_run (ops : list op) (t : tree) : list (bool * N) :=
  match ops with
  | [] => []
  | o :: r => (dom_step o t, known_step o t)
              :: flags_run r (M_step no_dir_prim no_dir_prim no_dir_prim o t).2
  end.
Definition tree_list (t : tree) : list (key * node) := map_to_list t.
Definition F_run (ops : list op) : list (bool * N) := flags_run ops ∅.
