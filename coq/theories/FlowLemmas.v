(* FlowLemmas.v — infrastructure of the C04 simulation proof: placement of compiled code in a
   program, composition of machine steps, classification of spellings, the meta-info lemmas
   (cache = recomputation), the frame relation and one lemma per command step. *)
Require Import DS.Base DS.FlowTables DS.FlowTablesWf DS.FlowScan DS.Flow DS.FlowTree DS.FlowScanProof.
Require Import DSG.GenFlowNames.
Open Scope nat_scope.

(* ---- association lists --------------------------------------------------------------------- *)
Lemma aget_aset_same {B} k (v : B) l : aget Nat.eqb k (aset Nat.eqb k v l) = Some v.
Proof.
  induction l as [|[k' v'] l IH]; cbn.
  - now rewrite Nat.eqb_refl.
  - destruct (Nat.eqb k k') eqn:E; cbn; rewrite ?Nat.eqb_refl, ?E; auto.
Qed.
Lemma aget_aset_other {B} k k' (v : B) l : k <> k' ->
  aget Nat.eqb k (aset Nat.eqb k' v l) = aget Nat.eqb k l.
Proof.
  intros Hne. induction l as [|[k2 v2] l IH]; cbn.
  - destruct (Nat.eqb_spec k k'); congruence.
  - destruct (Nat.eqb_spec k' k2); cbn.
    + subst. destruct (Nat.eqb_spec k k2); congruence.
    + destruct (Nat.eqb_spec k k2); auto.
Qed.

(* ---- steps ----------------------------------------------------------------------------------- *)
Lemma steps_trans P a b c c' c'' :
  steps a P c = Some c' -> steps b P c' = Some c'' -> steps (a + b) P c = Some c''.
Proof.
  revert c. induction a as [|a IH]; intros c H1 H2; cbn in *.
  - inversion H1; subst. exact H2.
  - destruct (step1 P c) as [c1|]; [|discriminate]. eauto.
Qed.
Lemma steps_one P c c' : step1 P c = Some c' -> steps 1 P c = Some c'.
Proof. intros H. cbn. now rewrite H. Qed.

Lemma step1_continue P l i s s' :
  nth_error P l = Some i -> step P l i s = (RContinue, s') -> step1 P (l, s) = Some (S l, s').
Proof. intros H1 H2. unfold step1. now rewrite H1, H2. Qed.
Lemma step1_goto P l i s s' l' :
  nth_error P l = Some i -> step P l i s = (RGoto l', s') -> step1 P (l, s) = Some (l', s').
Proof. intros H1 H2. unfold step1. now rewrite H1, H2. Qed.

(* the flat machine is a function: runs are unique *)
Lemma steps_det P n c c1 c2 : steps n P c = Some c1 -> steps n P c = Some c2 -> c1 = c2.
Proof. congruence. Qed.

(* ---- placement of code in the program -------------------------------------------------------- *)
Section Placed.
Variable P : list instr.
Definition placed (l : nat) (code : list instr) : Prop :=
  exists pre post, P = pre ++ code ++ post /\ length pre = l.

Lemma placed_app_l l a b : placed l (a ++ b) -> placed l a.
Proof. intros (pre & post & E & L). exists pre, (b ++ post). now rewrite E, <- app_assoc. Qed.
Lemma placed_app_r l a b : placed l (a ++ b) -> placed (l + length a) b.
Proof.
  intros (pre & post & E & L). exists (pre ++ a), post. split.
  - now rewrite E, <- !app_assoc.
  - rewrite app_length. lia.
Qed.
Lemma placed_cons l i r : placed l (i :: r) -> nth_error P l = Some i /\ placed (S l) r.
Proof.
  intros (pre & post & E & L). split.
  - rewrite E, nth_error_app2 by lia. replace (l - length pre) with 0 by lia. reflexivity.
  - exists (pre ++ [i]), post. split.
    + rewrite E, <- app_assoc. reflexivity.
    + rewrite app_length. cbn. lia.
Qed.
Lemma placed_nth l i r : placed l (i :: r) -> nth_error P l = Some i.
Proof. intros H. now apply placed_cons in H. Qed.
Lemma placed_tail l i r : placed l (i :: r) -> placed (S l) r.
Proof. intros H. now apply placed_cons in H. Qed.

(* the scanner result at an opener placed in the program *)
Lemma own_meta k sp a b els e p :
  facts k -> placed p (kw sp a :: cb b ++ ce els ++ [kw e ANone]) ->
  wfb b -> wfe els -> In e (closers k) ->
  find_commands (table_of k) (cmds P) (S p)
  = SOk (mids k els (S p + length (cb b))) (S p + length (cb b) + length (ce els)).
Proof.
  intros F (pre & post & E & L) Hb He Hc.
  assert (EP : cmds P = (cmds pre ++ [Some sp]) ++ cmds (cb b) ++ cmds (ce els) ++ Some e :: cmds post).
  { rewrite E. unfold cmds. rewrite !map_app. cbn [map i_cmd kw]. rewrite !map_app. cbn [map i_cmd kw].
    rewrite <- !app_assoc. cbn [app]. rewrite <- !app_assoc. cbn [app]. reflexivity. }
  rewrite EP.
  replace (S p) with (length (cmds pre ++ [Some sp])) by (rewrite app_length, cmds_length; cbn; lia).
  now apply find_own_end.
Qed.
End Placed.

(* ---- classification of spellings ------------------------------------------------------------- *)
Lemma kind_eqb_eq a b : kind_eqb a b = true -> a = b.
Proof. destruct a, b; cbn; congruence. Qed.

Section Classify.
Hypothesis TW : tables_wf = true.

Lemma tw_parts : table_ok CkIf = true /\ table_ok CkWhile = true /\ table_ok CkFor = true /\
                 classify_ok = true.
Proof.
  unfold tables_wf in TW.
  apply andb_prop in TW. destruct TW as [H _].
  apply andb_prop in H. destruct H as [H H4].
  apply andb_prop in H. destruct H as [H H3].
  apply andb_prop in H. destruct H as [H1 H2]. auto.
Qed.
Lemma facts_of k : facts k.
Proof. destruct tw_parts as (H1 & H2 & H3 & _). apply table_ok_facts. destruct k; assumption. Qed.

Lemma classify_parts :
  (forall c, In c n_if -> classify c = KIf) /\
  (forall c, In c n_elseif -> classify c = KElseIf) /\
  (forall c, In c n_else -> classify c = KElse) /\
  (forall c, In c n_endif -> classify c = KEndIf) /\
  (forall c, In c n_while -> classify c = KWhile) /\
  (forall c, In c n_endwhile -> classify c = KEndWhile) /\
  (forall c, In c n_for -> classify c = KFor) /\
  (forall c, In c n_endfor -> classify c = KEndFor) /\
  classify gen_end_name = KEnd /\
  (forall c, In c prim_names -> classify c = KOther).
Proof.
  destruct tw_parts as (_ & _ & _ & H). unfold classify_ok in H.
  do 9 (apply andb_prop in H; let X := fresh "X" in destruct H as [H X]).
  repeat match goal with X : forallb _ _ = true |- _ => rewrite forallb_forall in X end.
  repeat split; try (intros c Hc; apply kind_eqb_eq; auto); apply kind_eqb_eq; auto.
Qed.

Lemma cl_if c : In c n_if -> classify c = KIf. Proof. apply classify_parts. Qed.
Lemma cl_elseif c : In c n_elseif -> classify c = KElseIf. Proof. apply classify_parts. Qed.
Lemma cl_else c : In c n_else -> classify c = KElse. Proof. apply classify_parts. Qed.
Lemma cl_endif c : In c n_endif -> classify c = KEndIf. Proof. apply classify_parts. Qed.
Lemma cl_while c : In c n_while -> classify c = KWhile. Proof. apply classify_parts. Qed.
Lemma cl_endwhile c : In c n_endwhile -> classify c = KEndWhile. Proof. apply classify_parts. Qed.
Lemma cl_for c : In c n_for -> classify c = KFor. Proof. apply classify_parts. Qed.
Lemma cl_endfor c : In c n_endfor -> classify c = KEndFor. Proof. apply classify_parts. Qed.
Lemma cl_end : classify gen_end_name = KEnd. Proof. apply classify_parts. Qed.
Lemma cl_prim c : In c prim_names -> classify c = KOther. Proof. apply classify_parts. Qed.

Lemma name_in_names (n : str) (al : list str) : In n (al ++ [n]).
Proof. apply in_or_app. right. now left. Qed.
Lemma cl_endif_name : classify gen_endif_name = KEndIf.
Proof. apply cl_endif, name_in_names. Qed.
Lemma cl_endwhile_name : classify gen_endwhile_name = KEndWhile.
Proof. apply cl_endwhile, name_in_names. Qed.
Lemma cl_endfor_name : classify gen_endfor_name = KEndFor.
Proof. apply cl_endfor, name_in_names. Qed.
End Classify.
