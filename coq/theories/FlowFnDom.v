(* FlowFnDom.v — decidable side conditions of the C05 development (definitions only):
   the computed facts about the function tables, [free_name], "no return inside a for-in body",
   and [ordered_prog], the domain of the proved part of the simulation. *)
Require Import DS.Base DS.FlowTables DS.FlowScan DS.Flow DS.FlowFn DS.FlowFnTree.
Require Import DSG.GenFlowNames DSG.GenFnNames.
Open Scope nat_scope.

(* ---- what C05 needs of the tables in addition to [tables_wf] (computed) ------------------------ *)
Definition free_name (f : str) : bool :=
  forallb (fun T => inert T f) [gen_if_tables; gen_while_tables; gen_for_tables; gen_function_tables] &&
  match classify_fn f with FKBase KOther => true | _ => false end &&
  negb (str_in f prim_names).

Definition fn_close_ok (T : tables) (c : str) : bool :=
  negb (str_in c (sblocks T)) && negb (str_in c (middles T)) && str_in c (ends T).
Definition fkind_eqb (a b : fkind) : bool :=
  match a, b with
  | FKBase x, FKBase y => kind_eqb x y
  | FKFunction, FKFunction | FKEndFunction, FKEndFunction | FKReturn, FKReturn => true
  | _, _ => false
  end.
Definition fn_tables_ok : bool :=
  let Tf := gen_function_tables in
  forallb (fun k => forallb (inert (table_of k)) n_return) all_ckinds &&
  forallb (fun k => forallb (other_open Tf) (openers k) && forallb (other_close Tf) (closers k)) all_ckinds &&
  forallb (inert Tf) (n_elseif ++ n_else ++ prim_names ++ n_return) &&
  forallb (fn_close_ok Tf) fn_closers &&
  negb (match starts Tf with [] => true | _ => false end) &&
  negb (match ends Tf with [] => true | _ => false end) &&
  negb gen_function_allow_recursive &&
  forallb (fun c => fkind_eqb (classify_fn c) FKFunction) n_function &&
  forallb (fun c => fkind_eqb (classify_fn c) FKEndFunction) n_endfunction &&
  forallb (fun c => fkind_eqb (classify_fn c) FKReturn) n_return &&
  forallb (fun c => match classify_fn c with FKBase _ => true | _ => false end)
          (n_if ++ n_elseif ++ n_else ++ n_endif ++ n_while ++ n_endwhile ++ n_for ++ n_endfor ++
           [gen_end_name] ++ prim_names).

(* ---- no return inside a for-in body -------------------------------------------------------------- *)
Fixpoint nfr_s (s : fstmt) : bool :=
  match s with
  | GCmd _ | GCall _ _ _ | GReturn _ _ => true
  | GIf _ _ b els _ => nfr_b b && nfr_e els
  | GWhile _ _ b _ => nfr_b b
  | GFor _ _ _ b _ => negb (has_return_b b) && nfr_b b
  end
with nfr_b (b : fblock) : bool :=
  match b with GNil => true | GCons s b' => nfr_s s && nfr_b b' end
with nfr_e (els : felses) : bool :=
  match els with
  | HNil => true
  | HElseIf _ _ b r => nfr_b b && nfr_e r
  | HElse _ b => nfr_b b
  end.


(* ---- the decidable domain of the simulation theorem ---------------------------------------------- *)
Fixpoint ogs (names : list str) (infn : bool) (s : fstmt) : bool :=
  match s with
  | GCmd _ => true
  | GIf sp _ b els e => str_in sp (openers CkIf) && str_in e (closers CkIf) && ogb names infn b && oge names infn els
  | GWhile sp _ b e => str_in sp (openers CkWhile) && str_in e (closers CkWhile) && ogb names infn b
  | GFor sp _ _ b e => str_in sp (openers CkFor) && str_in e (closers CkFor) && ogb names infn b
  | GCall _ f args => str_in f names && free_name f && (length args <=? 9)
  | GReturn sp _ => infn && str_in sp n_return
  end
with ogb (names : list str) (infn : bool) (b : fblock) : bool :=
  match b with GNil => true | GCons s b' => ogs names infn s && ogb names infn b' end
with oge (names : list str) (infn : bool) (els : felses) : bool :=
  match els with
  | HNil => true
  | HElseIf sp _ b r => str_in sp n_elseif && ogb names infn b && oge names infn r
  | HElse sp b => str_in sp n_else && ogb names infn b
  end.
(* every function calls only functions defined after it *)
Fixpoint ordered_defs (ds : list fndef) : bool :=
  match ds with
  | [] => true
  | d :: r =>
    str_in (fd_sp d) n_function && str_in (fd_end d) fn_closers && free_name (fd_name d) &&
    negb (str_in (fd_name d) (map fd_name r)) &&
    ogb (map fd_name r) true (fd_body d) && nfr_b (fd_body d) && ordered_defs r
  end.
Definition ordered_prog (p : prog) : bool :=
  ordered_defs (p_defs p) && ogb (map fd_name (p_defs p)) false (p_main p) && nfr_b (p_main p).


(* every string occurring in one of the four keyword tables is the name of a flow-control command
   (so a name that is no command name is inert for every scanner) *)
Definition tables_closed : bool :=
  forallb (fun T => forallb (fun c => match classify_fn c with FKBase KOther => false | _ => true end)
                            (starts T ++ middles T ++ ends T ++ sblocks T ++ eblocks T))
          [gen_if_tables; gen_while_tables; gen_for_tables; gen_function_tables].
