(* FlowfnGenLib.v — what the translation of duckscript_sdk/src/sdk/std/flowcontrol/function/mod.rs
   (coq/generated/GenFlowfnFn.v, written on every run by lib/gen/flowfn_gen.py) is stated over, and the
   functions of the hand model FlowFn.v (C05) it is proved equal to (FlowfnGenTie.v).  Definitions and the
   small lemmas that relate them to FlowFn.v; stdlib lists only, as FlowFn.v.

   1. The state of the translation.  The Rust `CallInfo` carries `line_context_name`, which FlowFn.v (as
      Flow.v, see its header) omits: the name of the running script-implemented command, the constant ""
      in programs of the C05 domain.  The translation keeps it: [xcall] is the Rust struct field by field,
      [xfnst] is FlowFn.fnst with a stack of [xcall].  [xlift lcn g] is the translation's view of a model
      state g in which every frame was pushed under the context name lcn (the model's own assumption: all
      line_context_name fields are equal to the current one); every tie theorem is

          gen_<fn> lcn .. (w, f, xlift lcn g)  =  xlift_r lcn (<model function> .. (w, f, g))       for all lcn

   2. FlowFn.v folds Rust functions into the step functions of the machine (run_call + the runner's
      update_output into step_call, argument expansion into step_return, the decoding of `fn <scope> name`
      into the instruction syntax).  The [*_m] / [*_v] / [*_c] functions below are the Rust functions on the
      model state; the [*_eq] lemmas say how FlowFn.v's step functions are built from them. *)
Require Import DS.Base DS.Cond DS.FlowTables DS.FlowScan DS.Flow DS.FlowFn.
Require Import DSG.GenFlowNames DSG.GenFnNames.
Local Open Scope nat_scope.

(* ---- the state of the translation ------------------------------------------------------------------ *)
Record xcall := mkXC {                                           (* function::CallInfo, every field *)
  xc_call_line : nat; xc_start_line : nat; xc_end_line : nat; xc_line_context_name : str;
  xc_output_variable : option str; xc_scoped : bool }.
Record xfnst := mkXS {
  xs_meta : list (str * fmeta);            (* function::meta_info *)
  xs_stk : list xcall;                     (* function::call_stack, head = the entry pushed last *)
  xs_scopes : list (list (str * str)) }.   (* scope_stack, head = the map pushed last *)
Definition xstate := (world * flow * xfnst)%type.

Definition xs_set_meta (m : list (str * fmeta)) (g : xfnst) : xfnst := mkXS m (xs_stk g) (xs_scopes g).
Definition xs_set_stk (k : list xcall) (g : xfnst) : xfnst := mkXS (xs_meta g) k (xs_scopes g).
Definition xs_set_scopes (c : list (list (str * str))) (g : xfnst) : xfnst := mkXS (xs_meta g) (xs_stk g) c.

(* push_to_call_stack / pop_from_call_stack on the typed stack *)
Definition x_push (ci : xcall) (g : xfnst) : xfnst := xs_set_stk (ci :: xs_stk g) g.
Definition x_pop (g : xfnst) : option xcall * xfnst :=
  match xs_stk g with
  | [] => (None, g)
  | c :: r => (Some c, xs_set_stk r g)
  end.

Definition xl (lcn : str) (c : fncall) : xcall :=
  mkXC (fn_call c) (fn_start c) (fn_end c) lcn (fn_out c) (fn_scoped c).
Definition xlift (lcn : str) (g : fnst) : xfnst := mkXS (fs_meta g) (map (xl lcn) (fs_stk g)) (fs_scopes g).
Definition xlift_s (lcn : str) (s : fstate) : xstate := let '(w, f, g) := s in (w, f, xlift lcn g).
Definition xlift_r (lcn : str) (r : cres * fstate) : cres * xstate := (fst r, xlift_s lcn (snd r)).

(* ---- std ------------------------------------------------------------------------------------------- *)
Definition vec_is_empty {A : Type} (l : list A) : bool := match l with [] => true | _ => false end.

(* usize / i32 to_string: decimal *)
Fixpoint uint_str (u : Decimal.uint) : str :=
  match u with
  | Decimal.Nil => []
  | Decimal.D0 u => 48%N :: uint_str u | Decimal.D1 u => 49%N :: uint_str u
  | Decimal.D2 u => 50%N :: uint_str u | Decimal.D3 u => 51%N :: uint_str u
  | Decimal.D4 u => 52%N :: uint_str u | Decimal.D5 u => 53%N :: uint_str u
  | Decimal.D6 u => 54%N :: uint_str u | Decimal.D7 u => 55%N :: uint_str u
  | Decimal.D8 u => 56%N :: uint_str u | Decimal.D9 u => 57%N :: uint_str u
  end.
Definition dec_nat (n : nat) : str := uint_str (Nat.to_uint n).

(* FlowFn.idx_name is the decimal rendering on the model's domain (at most nine arguments) *)
Lemma dec_nat_idx : forall k, 1 <= k -> k <= 9 -> dec_nat k = idx_name k.
Proof.
  intros k H1 H9.
  destruct k as [|[|[|[|[|[|[|[|[|[|k]]]]]]]]]]; try reflexivity; exfalso; lia.
Qed.

(* ---- utils/scope.rs push / pop on association lists (FlowFn.v's representation of the variables) ---- *)
Definition fl_copy_step (vars : list (str * str)) (acc : list (str * str)) (k : str) : list (str * str) :=
  match aget str_eqb k vars with Some v => aset str_eqb k v acc | None => acc end.
(* the variables named in [copy], taken from [vars], written over [base] *)
Definition fl_overlay (base : list (str * str)) (copy : list str) (vars : list (str * str)) : list (str * str) :=
  fold_left (fl_copy_step vars) copy base.
Definition fl_scope_push (copy : list str) (vars : list (str * str)) (scopes : list (list (str * str)))
  : list (str * str) * list (list (str * str)) :=
  (fl_overlay [] copy vars, vars :: scopes).
Definition fl_scope_pop (copy : list str) (vars : list (str * str)) (scopes : list (list (str * str)))
  : option (list (str * str) * list (list (str * str))) :=
  match scopes with
  | [] => None                                        (* Reached end of scope stack. *)
  | saved :: rest => Some (fl_overlay saved copy vars, rest)
  end.

Lemma fl_overlay_one : forall saved o w,
  fl_overlay saved [o] (w_vars w) = overlay saved (Some o) w.
Proof. intros; reflexivity. Qed.
Lemma fl_overlay_none : forall saved w, fl_overlay saved [] (w_vars w) = overlay saved None w.
Proof. intros; reflexivity. Qed.

(* ---- argument binding on the variable list --------------------------------------------------------- *)
Fixpoint bind_vars (k : nat) (vals : list str) (vars : list (str * str)) : list (str * str) :=
  match vals with
  | [] => vars
  | v :: r => bind_vars (S k) r (aset str_eqb (idx_name k) v vars)
  end.
Lemma bind_args_vars : forall vals k w, bind_args k vals w = set_vars (bind_vars k vals (w_vars w)) w.
Proof.
  induction vals as [|v r IH]; intros k w; cbn [bind_args bind_vars].
  - destruct w; reflexivity.
  - rewrite IH. destruct w; reflexivity.
Qed.

(* the loop of run_call: `index = index + 1; variables.insert(index.to_string(), argument.to_string())` *)
Lemma bind_fold : forall (step : list (str * str) * nat -> str -> list (str * str) * nat) vals vars k,
  (forall v i a, step (v, i) a = (aset str_eqb (dec_nat (S i)) a v, S i)) ->
  k + length vals <= 9 ->
  fold_left step vals (vars, k) = (bind_vars (S k) vals vars, k + length vals).
Proof.
  intros step vals. induction vals as [|a r IH]; intros vars k Hs Hl; cbn [fold_left bind_vars length] in *.
  - rewrite Nat.add_0_r. reflexivity.
  - rewrite Hs. rewrite IH by (assumption || lia).
    rewrite dec_nat_idx by lia. f_equal. lia.
Qed.

(* ---- the Rust functions on the model state ---------------------------------------------------------- *)
(* run_call(function_name, arguments, state, variables, output_variable, line): the command a `fn` registers.
   [vals] are the argument VALUES (the runner expands the arguments before the command runs). *)
Definition run_call_m (name : str) (vals : list str) (out : option str) (line : nat) (s : fstate)
  : cres * fstate :=
  let '(w, f, g) := s in
  match aget str_eqb name (fs_meta g) with
  | None => (RError 23, s)                          (* Function: name not found. *)
  | Some m =>
    let w1 := if fm_scoped m then set_vars [] w else w in
    let scopes1 := if fm_scoped m then w_vars w :: fs_scopes g else fs_scopes g in
    (RGoto (S (fm_start m)),
     (bind_args 1 vals w1, f,
      mkFS (fs_meta g) (mkFNC line (fm_start m) (fm_end m) out (fm_scoped m) :: fs_stk g) scopes1))
  end.
(* runner::update_output(variables, output_variable, None) for the GoTo(None, _) the call returns *)
Definition call_post (out : option str) (r : cres * fstate) : cres * fstate :=
  match r with
  | (RGoto l, (w, f, g)) => (RGoto l, (clear_out out w, f, g))
  | _ => r
  end.
(* FlowFn.step_call = is the command registered? then run_call, then the runner's update_output *)
Lemma step_call_eq : forall line out name args w f g,
  step_call line out name args (w, f, g) =
  match aget str_eqb name (fs_meta g) with
  | None => (RCrash 3, (w, f, g))
  | Some _ => call_post out (run_call_m name (map (fun a => arg_val a w) args) out line (w, f, g))
  end.
Proof.
  intros. unfold step_call, run_call_m, call_post.
  destruct (aget str_eqb name (fs_meta g)); reflexivity.
Qed.

(* ReturnCommand::run on the VALUE of its first argument (None: no argument) *)
Definition step_return_v (line : nat) (v : option str) (s : fstate) : cres * fstate :=
  let '(w, f, g) := s in
  match fs_stk g with
  | [] => (RContinue, s)
  | ci :: r =>
    if (fn_start ci <? line) && (line <? fn_end ci) then
      let w1 := match fn_out ci with
                | Some o => match v with Some x => vset o x w | None => vunset o w end
                | None => w
                end in
      if fn_scoped ci then
        match fs_scopes g with
        | saved :: rest =>
          (RGoto (S (fn_call ci)), (set_vars (overlay saved (fn_out ci) w1) w1, f, mkFS (fs_meta g) r rest))
        | [] => (RError 21, (w1, f, mkFS (fs_meta g) r []))
        end
      else (RGoto (S (fn_call ci)), (w1, f, mkFS (fs_meta g) r (fs_scopes g)))
    else (RContinue, s)
  end.
Lemma step_return_eq : forall line a w f g,
  step_return line a (w, f, g) = step_return_v line (option_map (fun x => arg_val x w) a) (w, f, g).
Proof. intros; reflexivity. Qed.

(* FunctionCommand::run on the command names of the instruction list and the DECODED arguments *)
Definition step_function_c (cmds : list (option str)) (line : nat) (scoped : bool) (name : str) (s : fstate)
  : cres * fstate :=
  let '(w, f, g) := s in
  match aget str_eqb name (fs_meta g) with
  | Some m => if Nat.eqb (fm_start m) line then (RGoto (S (fm_end m)), s) else (RError 20, s)
  | None =>
    match (if gen_function_allow_recursive
           then find_commands gen_function_tables cmds (S line)
           else find_commands_nr gen_function_tables cmds (S line)) with
    | SOk _ e =>
      (RGoto (S e), (w, end_set e gen_endfunction_name f,
                     mkFS (aset str_eqb name (mkFM line e scoped) (fs_meta g)) (fs_stk g) (fs_scopes g)))
    | _ => (RCrash 2, s)
    end
  end.
Lemma step_function_eq : forall P line scoped name s,
  step_function P line scoped name s = step_function_c (fcmds P) line scoped name s.
Proof. intros P line scoped name [[w f] g]; reflexivity. Qed.

(* which function definition an argument vector denotes: `fn name`, `fn <annotations> name ..`;
   [ann] is utils::annotation::parse *)
Definition s_scope : str := [115; 99; 111; 112; 101]%N.          (* scope *)
Definition fn_decode (ann : str -> option (list str)) (args : list str) : option (str * bool) :=
  match args with
  | [] => None
  | [a] => Some (a, false)
  | a :: b :: _ => match ann a with
                   | Some l => Some (b, str_in s_scope l)
                   | None => Some (a, false)
                   end
  end.
Definition function_model (ann : str -> option (list str)) (cmds : list (option str)) (line : nat)
  (args : list str) (s : fstate) : cres * fstate :=
  match fn_decode ann args with
  | None => (RError 22, s)                                       (* Missing function name. *)
  | Some (name, scoped) => step_function_c cmds line scoped name s
  end.
