(* RunnerGenTie.v — the hand-written model of the fetch/execute loop (Runner.v, the model C03 / C10 / C13 reason
   about) is EQUAL, for every command behaviour, program, label table and configuration, to the mechanical
   translation of the CURRENT Rust source of duckscript/src/runner.rs (coq/generated/GenRunnerFn.v, rewritten on
   every run by lib/rs2v.py — classes P3 / FnR — through lib/gen/runner_gen.py):

     gen_update_output   = Runner.update_output          (update_output)
     gen_labels_from     = Runner.labels_from            (the `for` loop of create_runtime, from any state)
     gen_label_table     = Runner.label_table            (create_runtime: the label table of the runtime it returns)
     gen_run_on_error    = Runner.run_on_error           (run_on_error_instruction: the DIRECT invocation of the
                                                          on_error command in the source equals the model's detour
                                                          through run_instruction on a synthetic instruction)
     gen_run_instruction (identity binder) = Runner.run_instruction      (run_instruction)
     gen_step            = Runner.step                   (ONE iteration of the `loop` of run_instructions, with what
                                                          follows the loop on every `break`)
     gen_run_loop_with   = Runner.loop                   (the loop, with fuel)

   Every theorem is stated under its own flag [gen_<fn>_understood = true]: when the translator does not understand
   a function any more the generated file holds [false] and a stub for it and the theorem holds vacuously (the
   check reports that tie as inactive).

   Proof style: both sides are decision trees over the same atoms (the halt flag, the fetched instruction, the
   result of the command, the parsed exit code, the label lookup ..); [tie_tree] destructs the innermost scrutinee
   that occurs and closes the leaves by reflexivity, so the proofs do not depend on the order of independent tests,
   on generated variable names or on how the source spells a test (`if !c {A} else {B}`, `match` / `if let`, a
   hoisted `let`).  After the first sentence of a proof (which closes the goal when the generated file is the
   stub) every sentence is prefixed with [all:], no bullets. *)
From stdpp Require Import gmap.
Require Import DS.Base DS.Runner DS.Rs2vLib3.
Require Import DSG.GenRunnerFn.
Local Open Scope nat_scope.

Ltac tie_head_of t := match t with ?f _ => tie_head_of f | _ => t end.
Ltac tie_unfold_head t := let h := tie_head_of t in try unfold h.
Ltac tie_atom x :=
  lazymatch x with
  | context [match ?y with _ => _ end] => tie_atom y
  | negb ?y => tie_atom y
  | andb ?y _ => tie_atom y
  | orb ?y _ => tie_atom y
  | _ => x
  end.
Ltac tie_red :=
  cbn beta iota zeta delta [ri_res ri_ov ri_w ri_calls oe_err oe_w oe_calls i_type i_meta s_cmd s_args s_out s_label
                            m_line m_src fst snd negb andb orb opt_is_some opt_is_none list_is_empty] in *.
Ltac tie_case :=
  match goal with
  | |- context [match ?x with _ => _ end] => let a := tie_atom x in destruct a eqn:?
  end.
Ltac tie_tree := unfold str, char in *; tie_red; repeat (tie_case; tie_red; try discriminate; try congruence); try reflexivity.

(* ---- update_output ------------------------------------------------------------------------------------ *)
Theorem gen_update_output_eq : gen_update_output_understood = true ->
  forall (cstate : Type) (w : world cstate) ov o, gen_update_output cstate w ov o = update_output w ov o.
Proof.
  unfold gen_update_output_understood; intros U; try discriminate U.
  all: clear U.
  all: intros cstate w ov o; unfold gen_update_output, update_output; tie_tree.
Qed.

(* ---- create_runtime ----------------------------------------------------------------------------------- *)
Theorem gen_labels_from_eq : gen_labels_from_understood = true ->
  forall p line t, gen_labels_from p line t = labels_from p line t.
Proof.
  unfold gen_labels_from_understood; intros U; try discriminate U.
  all: clear U.
  all: unfold gen_labels_from.
  all: match goal with |- context [foldl ?b _ _] =>
         assert (B : forall t line i, b (t, line) i =
                       (match label_of i with Some l => <[l := line]> t | None => t end, S line))
           by (intros t line i; tie_unfold_head b; unfold label_of; tie_tree)
       end.
  all: intros p; induction p as [|i p IH]; intros line t; cbn [foldl labels_from]; [reflexivity|].
  all: rewrite B; apply IH.
Qed.

Theorem gen_label_table_eq : gen_labels_from_understood = true ->
  forall p, gen_label_table p = label_table p.
Proof.
  intros U p. pose proof (gen_labels_from_eq U p 0 ∅) as H. revert U H.
  unfold gen_labels_from_understood; intros U; try discriminate U.
  all: clear U.
  all: unfold gen_labels_from, gen_label_table, label_table; intros H; rewrite <- H.
  all: match goal with |- context [foldl ?b ?s ?l] => destruct (foldl b s l) end; reflexivity.
Qed.

(* ---- run_on_error_instruction ------------------------------------------------------------------------- *)

Theorem gen_run_on_error_eq : gen_run_on_error_understood = true ->
  forall (cstate : Type) (exists_cmd : cstate -> str -> bool) (cmd : str -> inv -> world cstate -> result * world cstate) w msg m,
    gen_run_on_error cstate exists_cmd cmd w msg m = run_on_error cstate exists_cmd cmd w msg m.
Proof.
  unfold gen_run_on_error_understood; intros U; try discriminate U.
  all: clear U.
  all: intros cstate exists_cmd cmd w msg m; unfold gen_run_on_error, run_on_error, run_instruction, on_error_instr, on_error_name; tie_tree.
Qed.

(* ---- run_instruction (arguments handed to the command as written: the identity binder of Runner.v) ---- *)
Theorem gen_run_instruction_eq : gen_run_instruction_understood = true ->
  forall (cstate : Type) (exists_cmd : cstate -> str -> bool) (cmd : str -> inv -> world cstate -> result * world cstate) w i line,
    gen_run_instruction cstate exists_cmd cmd (fun _ a => a) w i line = run_instruction cstate exists_cmd cmd w i line.
Proof.
  unfold gen_run_instruction_understood; intros U; try discriminate U.
  all: clear U.
  all: intros cstate exists_cmd cmd w i line; unfold gen_run_instruction, run_instruction; tie_tree.
Qed.

(* ---- one iteration of the loop of run_instructions ----------------------------------------------------- *)
Theorem gen_step_eq : gen_runner_step_understood = true ->
  forall (cstate : Type) (exists_cmd : cstate -> str -> bool) (cmd : str -> inv -> world cstate -> result * world cstate) (ext : nat -> bool) prog lt c,
    gen_step cstate exists_cmd cmd ext prog lt c = step cstate exists_cmd cmd ext prog lt c.
Proof.
  unfold gen_runner_step_understood; intros U; try discriminate U.
  all: clear U.
  all: intros cstate exists_cmd cmd ext prog lt c; unfold gen_step, gen_step_with, step, exec, exit_code, false_str.
  all: rewrite ?Nat.add_1_r; tie_tree.
Qed.

(* ---- the loop ----------------------------------------------------------------------------------------- *)
Theorem gen_run_loop_eq : gen_runner_step_understood = true ->
  forall (cstate : Type) (exists_cmd : cstate -> str -> bool) (cmd : str -> inv -> world cstate -> result * world cstate) (ext : nat -> bool) prog lt fuel start w,
    gen_run_loop_with cstate ext (run_instruction cstate exists_cmd cmd) (run_on_error cstate exists_cmd cmd)
                      prog lt fuel start w
    = loop cstate exists_cmd cmd ext prog lt fuel (Config start w 0 []).
Proof.
  intros U cstate exists_cmd cmd ext prog lt. pose proof (gen_step_eq U cstate exists_cmd cmd ext prog lt) as S1. revert U S1.
  unfold gen_runner_step_understood; intros U; try discriminate U.
  all: clear U.
  all: unfold gen_step; intros S1 fuel start w; unfold gen_run_loop_with.
  all: generalize (Config start w 0 []).
  all: induction fuel as [|f IH]; intros c0; cbn [step_fuel loop]; [reflexivity|].
  all: rewrite S1; destruct (step cstate exists_cmd cmd ext prog lt c0) as [c'|[fin t]]; [apply IH|reflexivity].
Qed.

(* run (runner.rs `run`): create_runtime, then the loop from line 0 *)
Corollary gen_run_eq : gen_runner_step_understood = true -> gen_labels_from_understood = true ->
  forall (cstate : Type) (exists_cmd : cstate -> str -> bool) (cmd : str -> inv -> world cstate -> result * world cstate) (ext : nat -> bool) fuel p w,
    gen_run_loop_with cstate ext (run_instruction cstate exists_cmd cmd) (run_on_error cstate exists_cmd cmd)
                      p (gen_label_table p) fuel 0 w
    = run cstate exists_cmd cmd ext fuel p w.
Proof.
  intros U1 U2 cstate exists_cmd cmd ext fuel p w. rewrite (gen_run_loop_eq U1), (gen_label_table_eq U2). reflexivity.
Qed.
