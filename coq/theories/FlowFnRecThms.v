(* FlowFnRecThms.v — whole-program simulation for well-formed programs outside KnownF6, recursion
   included ([rec_sim]), from the frame lemma of FlowFnRec.v; the hypotheses are first stated as
   propositions ([NoF6]: reachability in the call graph as an inductive relation) and then derived
   from the boolean checks [wf_prog] / [known_f6]. *)
Require Import DS.Base DS.FlowTables DS.FlowTablesWf DS.FlowScan DS.Flow DS.FlowTree DS.FlowScanProof
  DS.FlowLemmas DS.FlowFrame DS.FlowFn DS.FlowFnTree DS.FlowFnDom DS.FlowFnScan DS.FlowFnLemmas DS.FlowFnSim
  DS.FlowFnSites DS.FlowFnThms DS.FlowFnRec.
Require Import DSG.GenFlowNames DSG.GenFnNames.
Open Scope nat_scope.

(* no return inside a for-in body, as a statement about the for-in bodies *)
Lemma nfr_bodies :
  (forall s, nfr_s s = true -> forall B, In B (for_bodies_s s) -> has_return_b B = false) /\
  (forall b, nfr_b b = true -> forall B, In B (for_bodies_b b) -> has_return_b B = false) /\
  (forall els, nfr_e els = true -> forall B, In B (for_bodies_e els) -> has_return_b B = false).
Proof.
  apply fsyntax_ind; cbn [nfr_s nfr_b nfr_e for_bodies_s for_bodies_b for_bodies_e]; try (intros; contradiction).
  - intros sp c b IHb els IHe e H B HB. apply andb_prop in H. destruct H as [H1 H2].
    apply in_app_or in HB. destruct HB; auto.
  - intros sp c b IHb e H B HB. auto.
  - intros sp x hv b IHb e H B HB. apply andb_prop in H. destruct H as [H1 H2].
    destruct HB as [<-|HB]; [now apply negb_true_iff in H1|auto].
  - intros s IHs b IHb H B HB. apply andb_prop in H. destruct H as [H1 H2].
    apply in_app_or in HB. destruct HB; auto.
  - intros sp c b IHb r IHr H B HB. apply andb_prop in H. destruct H as [H1 H2].
    apply in_app_or in HB. destruct HB; auto.
  - intros sp b IHb H B HB. auto.
Qed.

(* the end table after the definitions ran *)
Lemma reg_end_only : forall todo s0 f g L n,
  aget Nat.eqb L (f_end (fst (reg todo s0 f g))) = Some n ->
  aget Nat.eqb L (f_end f) = Some n \/
  exists d s, In (d, s) (layout todo s0) /\ L = d_end d s /\ n = gen_endfunction_name.
Proof.
  induction todo as [|d r IH]; intros s0 f g L n H; cbn [reg layout] in *; [now left|].
  apply IH in H. destruct H as [H|(d' & s' & A & B & C)].
  - cbn [end_set set_end f_end] in H. destruct (Nat.eq_dec L (d_end d s0)) as [->|Hne].
    + rewrite aget_aset_same in H. inversion H; subst. right. exists d, s0. split; [now left|auto].
    + rewrite aget_aset_other in H by exact Hne. now left.
  - right. exists d', s'. split; [now right|auto].
Qed.

Section RecMain.
Variable pr : prog.
Hypothesis TW : tables_wf = true.
Let ds := p_defs pr.
Let P := compile_prog pr.
Let M := length (gdefs ds).
Notation DefAt := (DefAt pr).

Hypothesis Hdist : distinct (map fd_name ds) = true.
Hypothesis Hwf : forall d s, DefAt d s ->
  In (fd_sp d) n_function /\ In (fd_end d) fn_closers /\
  pgb (callable pr) true (fd_body d) /\ nfr_b (fd_body d) = true /\ find_def (fd_name d) ds = Some d.
Hypothesis HnoF6 : forall d s, DefAt d s -> forall B, In B (for_bodies_b (fd_body d)) ->
  has_return_b B = false /\ forall f', In f' (calls_b B) -> ~ Reach pr f' (fd_name d).
Hypothesis Hmain : pgb (callable pr) false (p_main pr) /\ nfr_b (p_main pr) = true.

Lemma fn_step2 d s w f g : DefAt d s -> aget str_eqb (fd_name d) (fs_meta g) = None ->
  fstep1 P (s, (w, f, g))
  = Some (s + length (gdef d),
          (w, end_set (d_end d s) gen_endfunction_name f,
           mkFS (aset str_eqb (fd_name d) (mkFM s (d_end d s) (fd_scoped d)) (fs_meta g)) (fs_stk g) (fs_scopes g))).
Proof.
  intros Hd Hnone. destruct (Hwf d s Hd) as (Hsp & Hend & Hbody & _ & _).
  destruct (DefAt_placed pr d s Hd) as (Hp & _). fold P in Hp. unfold gdef in Hp.
  eapply fstep1_goto; [eapply fplaced_nth; exact Hp|].
  unfold fstep. cbn [fi_cmd fi_arg fkw].
  destruct (fcl_parts) as (Hf & _ & _). rewrite (Hf _ Hsp).
  unfold step_function. rewrite Hnone.
  rewrite (gfn_meta_placed P (callable pr) s (fd_sp d) (fd_scoped d) (fd_name d)
             (fd_body d) (fd_end d) Hp Hbody Hend).
  fold (d_end d s). rewrite gdef_length. unfold d_end. do 2 f_equal. lia.
Qed.

Lemma prelude_runs2 : forall todo s0 w f g,
  (forall d s, In (d, s) (layout todo s0) -> DefAt d s) ->
  distinct (map fd_name todo) = true ->
  (forall name, In name (map fd_name todo) -> aget str_eqb name (fs_meta g) = None) ->
  fruns P (s0, (w, f, g)) (s0 + length (gdefs todo), (w, fst (reg todo s0 f g), snd (reg todo s0 f g))).
Proof.
  induction todo as [|d r IH]; intros s0 w f g Hall Hd Hnone; cbn [gdefs reg length].
  - rewrite Nat.add_0_r. apply fruns_refl.
  - cbn [map distinct] in Hd. apply andb_prop in Hd. destruct Hd as [Hfresh Hd]. apply negb_true_iff in Hfresh.
    rewrite app_length, Nat.add_assoc.
    eapply fruns_step_then.
    + apply fn_step2; [apply Hall; now left|apply Hnone; now left].
    + apply IH; auto.
      * intros d' s' Hin. apply Hall. now right.
      * intros name Hin. cbn [fs_meta]. rewrite aget_aset_str_other.
        -- apply Hnone. now right.
        -- intros ->. apply str_in_spec in Hin. congruence.
Qed.

Theorem rec_sim_prop : forall n w w', prog_run n pr w = FOk w' ->
  exists fuel f' g', (forall k, fuel <= k -> frun_program k P w = FDone (w', f', g')) /\
                     f_forstk f' = [] /\ fs_stk g' = [] /\ fs_scopes g' = [].
Proof.
  intros n w w' Hrun. destruct Hmain as (Hwm & Hnfr).
  set (r := reg ds 0 flow0 fnst0).
  assert (Rpre : fruns P (0, (w, flow0, fnst0)) (M, (w, fst r, snd r))).
  { apply (prelude_runs2 ds 0 w flow0 fnst0); auto. }
  destruct (reg_props ds 0 flow0 fnst0) as (A1 & A2 & A3 & A4 & A5 & A6 & A7 & A8 & _ & _).
  fold r in A1, A2, A3, A4, A5, A6, A7, A8.
  assert (HG : Good pr (fst r)).
  { split; [unfold Inv; rewrite A1, A2, A3; apply Inv_flow0|]. rewrite A4, A5. split; [constructor|]. split; [constructor|].
    split.
    - intros L nm HL. apply (reg_end_only ds 0 flow0 fnst0) in HL. destruct HL as [HL|(d & s & Hd & -> & ->)]; [discriminate|].
      exists (mkSite None s (d_end d s) []). split; [apply (def_site_in pr d s Hd); now left|]. auto.
    - intros d s Hd. unfold r. rewrite (proj2 (reg_defs ds 0 flow0 fnst0 Hdist d s Hd)). discriminate. }
  assert (HF : FnInv pr (snd r)).
  { intros d s Hd. apply (reg_defs ds 0 flow0 fnst0 Hdist d s Hd). }
  destruct (rsim_all pr TW Hwf HnoF6 n) as (_ & Hb & _ & _).
  assert (Hpm : fplaced P M (gb (p_main pr))).
  { exists (gdefs ds), []. split; [unfold P, compile_prog; now rewrite app_nil_r|reflexivity]. }
  assert (Hready : ready pr (OMain) false (calls_b (p_main pr)) (for_bodies_b (p_main pr))
                         (sites_b (p_main pr) M) M (M + length (gb (p_main pr))) (fst r) (snd r)).
  { split; [exact HG|]. split; [exact HF|]. split; [intros Hc; discriminate|].
    split; [unfold prog_sites; apply incl_appr; apply incl_refl|]. split; [exact I|]. split.
    - intros l Hl. cbn. fold ds. fold M. lia.
    - exists [], []. split; [rewrite A6; reflexivity|]. split; [constructor|]. split; [constructor|].
      split; [congruence|]. split; [|exact I].
      intros B HB. split; [eapply (proj1 (proj2 nfr_bodies)); eauto|]. intros f' _ []. }
  pose proof (Hb OMain false (p_main pr) w M (fst r) (snd r) Hwm Hnfr Hpm Hready) as Hpost.
  unfold prog_run in Hrun. rewrite Hrun in Hpost. cbn [post] in Hpost.
  destruct Hpost as (f' & R' & G' & F').
  destruct (fruns_trans P _ _ _ Rpre R') as (m & Hm).
  exists (S m), f', (snd r). split; [|split; [|split]].
  - intros k Hk. unfold frun_program. eapply frun_mono; [|exact Hk].
    apply (frun_steps P m (0, (w, flow0, fnst0)) _ _ Hm).
    apply nth_error_None. unfold P, compile_prog. rewrite app_length. fold ds. fold M. lia.
  - rewrite (hf_for _ _ F'). exact A6.
  - exact A7.
  - exact A8.
Qed.
End RecMain.
