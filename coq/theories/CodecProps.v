(* CodecProps.v — C17: the java-properties writer and reader (crate java-properties 2.0.0) and the duckscript
   glue of map_to_properties / map_load_properties (definitions only; proofs in CodecPropsProof.v).

   Texts are code-point lists ([Base.str]); a byte is an [N] below 256.

   Rust functions mirrored (one Coq function each):
     encoding_rs WINDOWS_1252 (single_byte.rs)                    w1252_decode_byte / w1252_encode_char
     Encoder::encode_from_utf8_to_vec_without_replacement         pp_encode   (d = spare capacity of the Vec)
     Vec::reserve                                                 vec_reserve
     EncodingWriter::write  (the `while !data.is_empty()` loop)   pp_ew_loop / pp_ew_write
     PropertiesWriter::write_escaped                              pp_escape_char / pp_write_escaped
     PropertiesWriter::write(key, value), java_properties::write  pp_write_pair / pp_write_all / pp_write
     map_to_properties::run  (prefix, from_utf8, trim_end_matches) cmd_map_to_properties
     DecodeIter (windows-1252 decoding of text.as_bytes())        pp_decode_text
     NaturalLines / LogicalLines / count_ending_backslashes       pp_natural_lines / pp_logical_go / pp_ceb
     parse_line (LINE_RE), unescape                               pp_parse_line / pp_unescape
     PropertiesIter::read_into + java_properties::read            pp_read_lines / pp_read
     map_load_properties::run                                     cmd_map_load_properties

   What the writer really does (and the model reproduces):
     * every `write(&str)` of the PropertiesWriter goes through a windows-1252 encoder into a Vec<u8> of initial
       capacity 256 that is cleared (capacity kept) after each call and tripled when full;
     * a character that windows-1252 cannot encode is written as format!("\\u{:x}") — NOT padded to four digits
       (known finding F18), and when fewer bytes than the escape needs are left in the Vec the rest of the
       escape is dropped (the OutputFull arm reserves but does not retry: candidate finding, see
       [C17_properties_truncation_refuted]);
     * the windows-1252 bytes are then read as UTF-8 by map_to_properties (str::from_utf8), which fails
       for most texts holding U+00A0..U+00FF or one of the 27 specials (second half of F18);
     * the reader sniffs a byte order mark: a text that starts with U+FEFF is decoded as UTF-8, not as
       windows-1252, and loses the mark (candidate finding, see [C17_properties_bom_refuted]). *)
Require Import DS.Base DS.Utf8 DS.Strings DS.Codec.

Definition nlen {A} (l : list A) : N := N.of_nat (length l).

(* outcome of the commands: a value, an error (kind, 1-based line number; 0 when there is none), out of fuel *)
Inductive pres (A : Type) := POk (a : A) | PErr (kind line : N) | PFuel.
Arguments POk {A} _. Arguments PErr {A} _ _. Arguments PFuel {A}.

Definition pe_digits : N := 1.    (* "Malformed \uxxxx encoding: not enough digits." *)
Definition pe_hex : N := 2.       (* "Malformed \uxxxx encoding: not hex." *)
Definition pe_char : N := 3.      (* "Malformed \uxxxx encoding: invalid character." *)
Definition pe_utf8 : N := 10.     (* map_to_properties: str::from_utf8 of the written bytes failed *)
Definition pe_enc : N := 11.      (* "Encoding error: unable to write UTF-8 escaping" (unreachable: the escape is ASCII) *)

(* ------------------------------------------------------------------------------------------- *)
(* windows-1252 as encoding_rs implements it (the WHATWG index: 0x80..0x9F hold 27 specials and
   the five C1 controls 81 8D 8F 90 9D; everything else is Latin-1)                              *)

Definition w1252_hi : list N :=
  [8364; 129; 8218; 402; 8222; 8230; 8224; 8225; 710; 8240; 352; 8249; 338; 141; 381; 143;
   144; 8216; 8217; 8220; 8221; 8226; 8211; 8212; 732; 8482; 353; 8250; 339; 157; 382; 376].

Definition w1252_decode_byte (b : N) : char :=
  if b <? 128 then b else if b <? 160 then nth (N.to_nat (b - 128)) w1252_hi 0 else b.

Fixpoint index_of (c : N) (l : list N) (i : N) : option N :=
  match l with
  | [] => None
  | x :: r => if x =? c then Some i else index_of c r (i + 1)
  end.

Definition w1252_encode_char (c : char) : option N :=
  if c <? 128 then Some c
  else if (160 <=? c) && (c <? 256) then Some c
  else match index_of c w1252_hi 0 with Some i => Some (128 + i) | None => None end.

(* ------------------------------------------------------------------------------------------- *)
(* the writer                                                                                   *)

(* format!("\\u{:x}", c): lower-case hexadecimal WITHOUT padding *)
Definition pp_uesc (c : N) : str := 92 :: 117 :: hex_digits c.

(* PropertiesWriter::write_escaped, one character *)
Definition pp_escape_char (c : char) : str :=
  if c =? 92 then [92; 92]
  else if c =? 32 then [92; 32]
  else if c =? 9 then [92; 116]
  else if c =? 13 then [92; 114]
  else if c =? 10 then [92; 110]
  else if c =? 12 then [92; 102]
  else if c =? 58 then [92; 58]
  else if c =? 61 then [92; 61]
  else if c =? 33 then [92; 33]
  else if c =? 35 then [92; 35]
  else if c <? 32 then pp_uesc c
  else [c].
Definition pp_write_escaped (s : str) : str := flat_map pp_escape_char s.

(* Encoder::encode_from_utf8_to_vec_without_replacement(src, vec, false) with d bytes of spare capacity:
   (result, unread rest of src, bytes appended).  InputEmpty is tested before the space. *)
Inductive enc_result := EInputEmpty | EOutputFull | EUnmappable (c : char).
Fixpoint pp_encode (src : str) (d : N) : enc_result * str * list N :=
  match src with
  | [] => (EInputEmpty, [], [])
  | c :: r =>
      if d =? 0 then (EOutputFull, src, [])
      else match w1252_encode_char c with
           | Some b => let '(res, rest, out) := pp_encode r (d - 1) in (res, rest, b :: out)
           | None => (EUnmappable c, r, [])
           end
  end.

(* Vec::reserve(additional) on a vector of length len and capacity cap: the new capacity
   (RawVec::grow_amortized: max(2 * cap, len + additional)) *)
Definition vec_reserve (len cap add : N) : N :=
  if add <=? cap - len then cap else N.max (2 * cap) (len + add).

(* EncodingWriter::write(data): the loop.  [len] is the length of the buffer, the result is the bytes
   appended to it and the final capacity.  The buffer is flushed and cleared by the caller. *)
Fixpoint pp_ew_loop (fuel : nat) (data : str) (len cap : N) {struct fuel} : pres (list N * N) :=
  match data with
  | [] => POk ([], cap)
  | _ :: _ =>
      match fuel with
      | O => PFuel
      | S f =>
          let '(res, rest, out) := pp_encode data (cap - len) in
          let len1 := len + nlen out in
          let continue (extra : list N) (len2 cap2 : N) :=
            match pp_ew_loop f rest len2 cap2 with
            | POk (o, c) => POk (out ++ extra ++ o, c)
            | PErr k l => PErr k l
            | PFuel => PFuel
            end in
          match res with
          | EInputEmpty => continue [] len1 cap
          | EOutputFull => continue [] len1 (vec_reserve len1 cap (2 * cap))
          | EUnmappable c =>
              let '(res2, _, out2) := pp_encode (pp_uesc c) (cap - len1) in
              let len2 := len1 + nlen out2 in
              match res2 with
              | EInputEmpty => continue out2 len2 cap
              | EOutputFull => continue out2 len2 (vec_reserve len2 cap (2 * cap))    (* the rest of the escape is lost *)
              | EUnmappable _ => PErr pe_enc 0
              end
          end
      end
  end.
Definition pp_ew_write (data : str) (cap : N) : pres (list N * N) :=
  pp_ew_loop (2 * length data + 2) data 0 cap.

Definition pres_bind {A B} (x : pres A) (f : A -> pres B) : pres B :=
  match x with POk a => f a | PErr k l => PErr k l | PFuel => PFuel end.

(* PropertiesWriter::write(key, value): four EncodingWriter::write calls (kv_separator "=", LineEnding::LF) *)
Definition pp_write_pair (k v : str) (cap : N) : pres (list N * N) :=
  pres_bind (pp_ew_write (pp_write_escaped k) cap) (fun r1 =>
  pres_bind (pp_ew_write [61] (snd r1)) (fun r2 =>
  pres_bind (pp_ew_write (pp_write_escaped v) (snd r2)) (fun r3 =>
  pres_bind (pp_ew_write [10] (snd r3)) (fun r4 =>
  POk (fst r1 ++ fst r2 ++ fst r3 ++ fst r4, snd r4))))).

(* java_properties::write: the entries in the HashMap's iteration order (= the order of the list) *)
Fixpoint pp_write_all (m : list (str * str)) (cap : N) : pres (list N) :=
  match m with
  | [] => POk []
  | (k, v) :: r =>
      pres_bind (pp_write_pair k v cap) (fun r1 =>
      pres_bind (pp_write_all r (snd r1)) (fun o => POk (fst r1 ++ o)))
  end.
Definition pp_write (m : list (str * str)) : pres (list N) := pp_write_all m 256.

(* the glue: `var_key.insert(0, '.'); var_key.insert_str(0, &prefix)` unless the prefix is empty *)
Definition pp_prefix_key (prefix k : str) : str :=
  match prefix with [] => k | _ :: _ => prefix ++ 46 :: k end.
Definition pp_prefix_map (prefix : str) (m : list (str * str)) : list (str * str) :=
  map (fun kv => (pp_prefix_key prefix (fst kv), snd kv)) m.

(* str::trim_end_matches(|c| c == '\n' || c == '\r') *)
Definition is_nl (c : N) : bool := (c =? 10) || (c =? 13).
Fixpoint trim_end_nl (s : list N) : list N :=
  match s with
  | [] => []
  | c :: r => match trim_end_nl r with
              | [] => if is_nl c then [] else [c]
              | r' => c :: r'
              end
  end.

(* map_to_properties [--prefix p] handle, on a map whose values are strings, in iteration order m *)
Definition cmd_map_to_properties (prefix : str) (m : list (str * str)) : pres str :=
  pres_bind (pp_write (pp_prefix_map prefix m)) (fun bytes =>
  match utf8_decode bytes with
  | Some text => POk (trim_end_nl text)
  | None => PErr pe_utf8 0
  end).

(* ------------------------------------------------------------------------------------------- *)
(* the reader                                                                                   *)

(* read(text.as_bytes()): every byte of the UTF-8 text is one windows-1252 character — unless the text starts with
   U+FEFF: PropertiesIter uses Encoding::new_decoder(), which sniffs the byte order mark; after the UTF-8 mark
   EF BB BF it drops the mark and decodes the rest as UTF-8, i.e. delivers the characters of the text themselves.
   (The UTF-16 marks FF FE / FE FF cannot start a Rust string.) *)
Definition c_bom : char := 65279.
Definition pp_decode_text (text : str) : str :=
  match text with
  | c :: rest => if c =? c_bom then rest else map w1252_decode_byte (utf8_encode text)
  | [] => []
  end.

(* NaturalLines: split at CR, LF or CR LF; the last line is always delivered, even when empty *)
Fixpoint pp_natural_lines (s : str) : list str :=
  match s with
  | [] => [[]]
  | c :: r =>
      if c =? 10 then [] :: pp_natural_lines r
      else if c =? 13 then
        [] :: match r with
              | c2 :: r2 => if c2 =? 10 then pp_natural_lines r2 else pp_natural_lines r
              | [] => pp_natural_lines r
              end
      else match pp_natural_lines r with
           | l :: ls => (c :: l) :: ls
           | [] => [[c]]
           end
  end.

Fixpoint pp_ceb_go (s : str) (n : N) : N :=
  match s with
  | [] => n
  | c :: r => pp_ceb_go r (if c =? 92 then n + 1 else 0)
  end.
Definition pp_ceb (s : str) : N := pp_ceb_go s 0.       (* count_ending_backslashes *)

(* the white space of the format: [ \t\r\n\x0c] *)
Definition is_pws (c : char) : bool := (c =? 32) || (c =? 9) || (c =? 13) || (c =? 10) || (c =? 12).
Fixpoint drop_pws (s : str) : str :=
  match s with
  | c :: r => if is_pws c then drop_pws r else s
  | [] => []
  end.
Fixpoint trim_end_pws (s : str) : str :=
  match s with
  | [] => []
  | c :: r => match trim_end_pws r with
              | [] => if is_pws c then [] else [c]
              | r' => c :: r'
              end
  end.

(* COMMENT_RE = ^[ \t\r\n\x0c]*[#!] *)
Definition pp_is_comment (line : str) : bool :=
  match drop_pws line with
  | c :: _ => (c =? 35) || (c =? 33)
  | [] => false
  end.

(* LogicalLines: [n] is the number of the next natural line; inside a continuation [first] is false, [ln] is the
   number of the first natural line and [buf] what has been joined so far.  A continuation that runs into the
   end of the input is dropped (the iterator returns None). *)
Fixpoint pp_logical_go (lines : list str) (n : N) (first : bool) (ln : N) (buf : str) : list (N * str) :=
  match lines with
  | [] => []
  | line :: rest =>
      let ln1 := if first then n else ln in
      let buf1 := buf ++ (if first then line else trim_start line) in
      if first && pp_is_comment line then (ln1, buf1) :: pp_logical_go rest (n + 1) true 0 []
      else if N.odd (pp_ceb line) then pp_logical_go rest (n + 1) false ln1 (removelast buf1)
      else (ln1, buf1) :: pp_logical_go rest (n + 1) true 0 []
  end.
Definition pp_logical_lines (lines : list str) : list (N * str) := pp_logical_go lines 1 true 0 [].

(* parse_line: LINE_RE (leftmost-first) on a logical line, which holds neither CR nor LF (proved for every input text:
   CodecPropsProof.logical_lines_no_nl), so that '.' matches every character and '$' only the end.  With greedy
   leading white space the first alternative that can match is: a comment if the first other character is # or !;
   otherwise the key is the longest run of (plain character | backslash + any character) [+ a dangling backslash],
   followed by nothing, or by a separator (blanks, optionally one of : = and more blanks) and the rest as the value. *)
Inductive parsed := PNone | PComment (c : str) | PKV (k v : str).

(* (?:[^\\:=\x20\t\r\n\x0c]|\\.)*(?:\\$)?  — greedy; returns the key and what follows it *)
Fixpoint pp_scan_key (s : str) : str * str :=
  match s with
  | [] => ([], [])
  | c :: r =>
      if c =? 92 then
        match r with
        | x :: r' => let '(k, rest) := pp_scan_key r' in (92 :: x :: k, rest)
        | [] => ([92], [])
        end
      else if is_pws c || (c =? 58) || (c =? 61) then ([], s)
      else let '(k, rest) := pp_scan_key r in (c :: k, rest)
  end.

Definition pp_parse_kv (s : str) : parsed :=
  let '(k, rest) := pp_scan_key s in
  match rest with
  | [] => match k with [] => PNone | _ :: _ => PKV k [] end
  | _ :: _ =>
      let r1 := drop_pws rest in
      match r1 with
      | c :: r2 => if (c =? 58) || (c =? 61) then PKV k (drop_pws r2) else PKV k r1
      | [] => PKV k []
      end
  end.

Definition pp_parse_line (line : str) : parsed :=
  let s := drop_pws line in
  match s with
  | c :: r => if (c =? 35) || (c =? 33) then PComment (trim_end_pws (drop_pws r)) else pp_parse_kv s
  | [] => PNone
  end.

(* u16::from_str_radix(&tmp, 16) on exactly four characters: one leading '+' is accepted *)
Definition pp_hex4 (a b c d : char) : option N :=
  if a =? 43 then hex_val_acc [b; c; d] 0 else hex_val_acc [a; b; c; d] 0.

(* unescape: inl text | inr error kind *)
Fixpoint pp_unescape (s : str) : str + N :=
  match s with
  | [] => inl []
  | c :: r =>
      if c =? 92 then
        match r with
        | [] => inl [0]                  (* a dangling backslash becomes NUL *)
        | x :: r' =>
            let lit (y : char) := match pp_unescape r' with inl t => inl (y :: t) | inr e => inr e end in
            if x =? 116 then lit 9
            else if x =? 110 then lit 10
            else if x =? 102 then lit 12
            else if x =? 114 then lit 13
            else if x =? 117 then
              match r' with
              | a :: b :: c2 :: d :: r'' =>
                  match pp_hex4 a b c2 d with
                  | None => inr pe_hex
                  | Some v =>
                      if (55296 <=? v) && (v <=? 57343) then inr pe_char        (* char::from_u32: a surrogate *)
                      else match pp_unescape r'' with inl t => inl (v :: t) | inr e => inr e end
                  end
              | _ => inr pe_digits
              end
            else lit x
        end
      else match pp_unescape r with inl t => inl (c :: t) | inr e => inr e end
  end.

(* HashMap::insert on an association list: the value of an existing key is replaced, a new key goes last *)
Fixpoint map_insert (k v : str) (m : list (str * str)) : list (str * str) :=
  match m with
  | [] => [(k, v)]
  | (k', v') :: r => if str_eqb k' k then (k, v) :: r else (k', v') :: map_insert k v r
  end.

(* PropertiesIter::next + read_into: comments are unescaped too (and may fail), then dropped *)
Fixpoint pp_read_lines (ls : list (N * str)) (acc : list (str * str)) : pres (list (str * str)) :=
  match ls with
  | [] => POk acc
  | (n, line) :: rest =>
      match pp_parse_line line with
      | PNone => pp_read_lines rest acc
      | PComment c =>
          match pp_unescape c with
          | inl _ => pp_read_lines rest acc
          | inr e => PErr e n
          end
      | PKV k v =>
          match pp_unescape k with
          | inr e => PErr e n
          | inl k' =>
              match pp_unescape v with
              | inr e => PErr e n
              | inl v' => pp_read_lines rest (map_insert k' v' acc)
              end
          end
      end
  end.

(* java_properties::read on the decoded characters *)
Definition pp_read (chars : str) : pres (list (str * str)) :=
  pp_read_lines (pp_logical_lines (pp_natural_lines chars)) [].

(* map_load_properties [--prefix p] handle text, on a map [old]: all pairs are inserted under the prefix;
   nothing is inserted when the text is rejected *)
Definition cmd_map_load_properties (prefix : str) (old : list (str * str)) (text : str) : pres (list (str * str)) :=
  pres_bind (pp_read (pp_decode_text text)) (fun data =>
  POk (fold_left (fun acc kv => map_insert (pp_prefix_key prefix (fst kv)) (snd kv) acc) data old)).

(* map_to_properties --prefix p, then map_load_properties --prefix q into an empty map *)
Definition pp_roundtrip (p q : str) (m : list (str * str)) : pres (list (str * str)) :=
  pres_bind (cmd_map_to_properties p m) (fun text => cmd_map_load_properties q [] text).

(* ------------------------------------------------------------------------------------------- *)
(* the domain of the round trip                                                                 *)

Definition w1252_mappable (c : char) : bool :=
  match w1252_encode_char c with Some _ => true | None => false end.

(* a character that comes back: not one of the control characters written as an unpadded \u escape, and either
   encodable in windows-1252 or written as \u with exactly four digits *)
Definition char_ok (c : char) : bool :=
  ((c =? 9) || (c =? 10) || (c =? 12) || (c =? 13) || (32 <=? c)) &&
  (w1252_mappable c || ((4096 <=? c) && (c <? 65536) && scalar c)).

(* what a written character looks like on the wire / to the reader *)
Definition wire_bytes_char (c : char) : list N :=
  match w1252_encode_char c with Some b => [b] | None => pp_uesc c end.
Definition wire_bytes (e : str) : list N := flat_map wire_bytes_char e.
Definition wire_chars_char (c : char) : str :=
  match w1252_encode_char c with Some _ => [c] | None => pp_uesc c end.
Definition wire_chars (e : str) : str := flat_map wire_chars_char e.

(* the character-level view of EncodingWriter::write into a buffer of length len and capacity cap: does every
   escape fit completely, and the capacity afterwards *)
Fixpoint ew_clean (data : str) (len cap : N) : bool * N :=
  match data with
  | [] => (true, cap)
  | c :: r =>
      let cap1 := if cap - len =? 0 then vec_reserve len cap (2 * cap) else cap in
      match w1252_encode_char c with
      | Some _ => ew_clean r (len + 1) cap1
      | None =>
          let l := nlen (pp_uesc c) in
          if l <=? cap1 - len then ew_clean r (len + l) cap1 else (false, cap1)
      end
  end.

(* no escape of the key or of the value is cut when the pair is the first one written (capacity 256, the value
   starts with the capacity the key left behind); by [ew_clean_mono] this then holds after any other pairs *)
Definition pair_clean (k v : str) : bool :=
  let '(ok1, c1) := ew_clean (pp_write_escaped k) 0 256 in
  let '(ok2, _) := ew_clean (pp_write_escaped v) 0 c1 in
  ok1 && ok2.

Definition utf8_ok (bs : list N) : bool := match utf8_decode bs with Some _ => true | None => false end.

(* the written bytes start with EF BB BF (the key starts with the three characters U+00EF U+00BB U+00BF): if this
   key is the first one written, the text starts with U+FEFF and is read back as UTF-8, without the mark *)
Definition starts_with_bom (bs : list N) : bool :=
  match bs with
  | a :: b :: c :: _ => (a =? 239) && (b =? 187) && (c =? 191)
  | _ => false
  end.

(* the written key k (prefix included) and value v come back *)
Definition representable (kv : str * str) : bool :=
  let '(k, v) := kv in
  forallb char_ok k && forallb char_ok v &&
  utf8_ok (wire_bytes (pp_write_escaped k)) && utf8_ok (wire_bytes (pp_write_escaped v)) &&
  pair_clean k v && negb (starts_with_bom (wire_bytes (pp_write_escaped k))).

Fixpoint str_nodup (l : list str) : bool :=
  match l with
  | [] => true
  | x :: r => negb (str_in x r) && str_nodup r
  end.
