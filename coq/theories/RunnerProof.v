(* RunnerProof.v — the model of runner.rs refines the abstract machine of RunnerSpec.v and is
   complete for it; determinism; corollaries about error positions and output variables. *)
From stdpp Require Import gmap.
Require Import DS.Base DS.Runner DS.RunnerSpec.
Local Open Scope nat_scope.

Section Proof.
Variable cstate : Type.
Variable exists_cmd : cstate -> str -> bool.
Variable cmd : str -> inv -> world cstate -> result * world cstate.
Variable ext : nat -> bool.

Notation world := (world cstate).
Notation config := (config cstate).
Notation final := (final cstate).
Notation step := (step cstate exists_cmd cmd ext).
Notation exec := (exec cstate exists_cmd cmd).
Notation loop := (loop cstate exists_cmd cmd ext).
Notation run := (run cstate exists_cmd cmd ext).
Notation run_instruction := (run_instruction cstate exists_cmd cmd).
Notation run_on_error := (run_on_error cstate exists_cmd cmd).
Notation spec_step := (spec_step cstate exists_cmd cmd ext).
Notation spec_run := (spec_run cstate exists_cmd cmd ext).
Notation handled := (handled cstate exists_cmd cmd).
Notation invokes := (invokes cstate exists_cmd cmd ext).
Notation at_instr := (at_instr cstate ext).

(* ---- the label table ------------------------------------------------------------------- *)
Lemma labels_from_spec (p : program) : forall line t l,
  labels_from p line t !! l =
  match list_find (fun i => label_of i = Some l) (reverse p) with
  | Some (j, _) => Some (line + (length p - S j))
  | None => t !! l
  end.
Proof.
  induction p as [|i p IH]; intros line t l; [reflexivity|].
  cbn [labels_from]. rewrite IH. rewrite reverse_cons.
  destruct (list_find _ (reverse p)) as [[j x]|] eqn:E.
  - erewrite list_find_app_l by exact E. cbn [length].
    apply list_find_Some in E. destruct E as (Hj & _ & _).
    apply lookup_lt_Some in Hj. rewrite reverse_length in Hj. f_equal. lia.
  - rewrite list_find_app_r by exact E. cbn [list_find].
    rewrite reverse_length. cbn [length].
    destruct (decide (label_of i = Some l)) as [El|El]; cbn.
    + rewrite El. rewrite lookup_insert. f_equal. lia.
    + destruct (label_of i) as [l'|]; [|reflexivity].
      rewrite lookup_insert_ne by congruence. reflexivity.
Qed.

Lemma carries_lt prog k l : carries prog k l -> k < length prog.
Proof. intros (i & Hi & _). eapply lookup_lt_Some; eauto. Qed.

Lemma find_none_no_label prog l :
  list_find (fun i => label_of i = Some l) (reverse prog) = None -> no_label prog l.
Proof.
  intros E j (i & Hi & Hl). eapply list_find_None in E. rewrite list.Forall_forall in E.
  apply (E i); [|exact Hl]. apply elem_of_reverse. eapply elem_of_list_lookup_2; eauto.
Qed.

Lemma label_table_some prog l n : label_table prog !! l = Some n <-> last_label prog l n.
Proof.
  unfold label_table. rewrite labels_from_spec.
  destruct (list_find _ (reverse prog)) as [[j x]|] eqn:E.
  - apply list_find_Some in E. destruct E as (Hj & Hx & Hmin).
    pose proof (lookup_lt_Some _ _ _ Hj) as Hlt. rewrite reverse_length in Hlt.
    rewrite reverse_lookup in Hj by exact Hlt.
    assert (Hlast : last_label prog l (length prog - S j)).
    { split; [exists x; auto|]. intros j' Hlt' (i' & Hi' & Hl').
      pose proof (lookup_lt_Some _ _ _ Hi') as Hlt2.
      apply (Hmin (length prog - S j') i').
      - rewrite reverse_lookup by lia. rewrite <- Hi'. f_equal. lia.
      - lia.
      - exact Hl'. }
    split.
    + intros [= <-]. exact Hlast.
    + intros [Hc Hnone]. destruct Hlast as [Hc' Hnone']. f_equal. cbn.
      destruct (lt_eq_lt_dec n (length prog - S j)) as [[Hlt'|Heq]|Hgt]; [|lia|].
      * exfalso. eapply Hnone; eauto.
      * exfalso. eapply Hnone'; eauto.
  - rewrite lookup_empty. split; [discriminate|]. intros [Hc _]. exfalso.
    eapply find_none_no_label; eauto.
Qed.

Lemma label_table_none prog l : label_table prog !! l = None <-> no_label prog l.
Proof.
  split.
  - intros HN. unfold label_table in HN. rewrite labels_from_spec in HN.
    destruct (list_find _ (reverse prog)) as [[j' x]|] eqn:E; [discriminate|].
    eapply find_none_no_label; eauto.
  - intros HN. destruct (label_table prog !! l) as [n|] eqn:E; [|reflexivity].
    apply label_table_some in E. destruct E as [Hc _]. exfalso. eapply HN; eauto.
Qed.

(* ---- storing a result ------------------------------------------------------------------ *)
Lemma update_output_assign (w : world) ov o : update_output w ov o = assign cstate w ov o.
Proof. destruct ov, o; reflexivity. Qed.

Section Prog.
Variable prog : program.
Notation stp := (step prog (label_table prog)).
Notation sstep := (spec_step prog).

(* ---- the handler ----------------------------------------------------------------------- *)
Lemma run_on_error_handled w msg m :
  exists h w' ks, handled w msg m h w' ks /\
    oe_calls (run_on_error w msg m) = ks /\
    match h with
    | Some (Exit o) => oe_err (run_on_error w msg m) = Some RHandlerExit
    | Some (Crash e) => oe_err (run_on_error w msg m) = Some (RHandlerCrash e)
    | _ => oe_err (run_on_error w msg m) = None /\ oe_w (run_on_error w msg m) = w'
    end.
Proof.
  unfold Runner.run_on_error. destruct (exists_cmd (cst w) on_error_name) eqn:Ex.
  - unfold Runner.run_instruction, on_error_instr. cbn [i_type s_cmd s_args s_out]. rewrite Ex.
    cbn [ri_res ri_w ri_ov ri_calls].
    destruct (cmd on_error_name _ w) as [r w'] eqn:Ec.
    exists (Some r), w', [Call on_error_name (Inv [msg; nat_str (default 0 (m_line m)); default [] (m_src m)] None 0)].
    split; [econstructor; eauto|]. cbn [fst snd].
    destruct r; cbn; auto.
  - exists None, w, []. split; [constructor; auto|]. cbn. auto.
Qed.

Lemma handled_det w msg m h1 w1 k1 h2 w2 k2 :
  handled w msg m h1 w1 k1 -> handled w msg m h2 w2 k2 -> h1 = h2 /\ w1 = w2 /\ k1 = k2.
Proof.
  intros H1 H2. destruct H1 as [E1|r1 w1 a1 E1 -> C1]; destruct H2 as [E2|r2 w2 a2 E2 -> C2];
    try congruence; auto.
  rewrite C1 in C2. injection C2 as -> ->. auto.
Qed.

(* ---- soundness of one step ------------------------------------------------------------- *)
Lemma step_sound c x : stp c = x -> sstep c x.
Proof.
  intros <-. unfold Runner.step, flag_seen.
  destruct (halt (wd c)) eqn:Hh; [apply S_halted; auto|].
  destruct (ext (polls c)) eqn:He; [apply S_halted; auto|].
  cbn [orb]. unfold Runner.exec.
  destruct (prog !! pc c) as [i|] eqn:Hf.
  2:{ apply S_end; auto. apply lookup_ge_None. exact Hf. }
  assert (Hat : at_instr prog c i) by (repeat split; auto).
  unfold Runner.run_instruction.
  destruct (i_type i) as [| |s] eqn:Hty; cbn [ri_res ri_w ri_ov ri_calls].
  - rewrite update_output_assign. eapply S_blank; eauto.
  - rewrite update_output_assign. eapply S_blank; eauto.
  - destruct (s_cmd s) as [name|] eqn:Hc; cbn [ri_res ri_w ri_ov ri_calls].
    2:{ rewrite update_output_assign. eapply S_nocmd; eauto. }
    destruct (exists_cmd (cst (wd c)) name) eqn:Hex; cbn [ri_res ri_w ri_ov ri_calls].
    2:{ eapply S_unknown; eauto. }
    destruct (cmd name (Inv (s_args s) (s_out s) (pc c)) (wd c)) as [r w'] eqn:Hcmd.
    cbn [fst snd].
    assert (Hinv : invokes prog c i s (Call name (Inv (s_args s) (s_out s) (pc c))) r w').
    { split; [exact Hat|]. split; [exact Hty|]. exists name. repeat split; auto. }
    destruct r as [o|o g|e|e|o]; rewrite ?update_output_assign.
    + eapply S_continue; eauto.
    + destruct g as [l|n].
      * destruct (label_table prog !! l) as [n|] eqn:Hl.
        -- apply label_table_some in Hl. eapply S_goto_label; eauto.
        -- apply label_table_none in Hl. eapply S_goto_nolabel; eauto.
      * eapply S_goto_line; eauto.
    + destruct (run_on_error_handled (assign cstate w' (s_out s) (Some false_str)) e (i_meta i))
        as (h & w'' & ks & Hh' & Hks & Hres).
      destruct h as [[o|o g|e'|e'|o]|].
      * destruct Hres as [-> ->]. rewrite Hks. eapply S_error; eauto. exact I.
      * destruct Hres as [-> ->]. rewrite Hks. eapply S_error; eauto. exact I.
      * destruct Hres as [-> ->]. rewrite Hks. eapply S_error; eauto. exact I.
      * rewrite Hres, Hks. eapply S_error_crash; eauto.
      * rewrite Hres, Hks. eapply S_error_exit; eauto.
      * destruct Hres as [-> ->]. rewrite Hks. eapply S_error; eauto. exact I.
    + eapply S_crash; eauto.
    + unfold exit_code. destruct o as [v|].
      * destruct (parse_i32 v) as [z|] eqn:Hp.
        -- destruct (Z.eqb_spec z 0) as [->|Hz].
           ++ eapply S_exit; eauto. intros v' z' [= <-] Hp'. congruence.
           ++ eapply S_exit_code; eauto.
        -- eapply S_exit; eauto. intros v' z' [= <-] Hp'. congruence.
      * eapply S_exit; eauto. intros v' z' Hv. discriminate.
Qed.

(* ---- the abstract machine has at most one move ----------------------------------------- *)
Lemma invokes_det c i1 s1 k1 r1 w1 i2 s2 k2 r2 w2 :
  invokes prog c i1 s1 k1 r1 w1 -> invokes prog c i2 s2 k2 r2 w2 ->
  i1 = i2 /\ s1 = s2 /\ k1 = k2 /\ r1 = r2 /\ w1 = w2.
Proof.
  intros ((_ & _ & Hf1) & Ht1 & n1 & Hc1 & _ & -> & Hr1) ((_ & _ & Hf2) & Ht2 & n2 & Hc2 & _ & -> & Hr2).
  assert (i1 = i2) as -> by congruence.
  assert (s1 = s2) as -> by congruence.
  assert (n1 = n2) as -> by congruence.
  cbn in Hr1, Hr2. rewrite Hr1 in Hr2. injection Hr2 as -> ->. auto.
Qed.

Lemma last_label_det l n1 n2 : last_label prog l n1 -> last_label prog l n2 -> n1 = n2.
Proof.
  intros [C1 N1] [C2 N2]. destruct (lt_eq_lt_dec n1 n2) as [[H|H]|H]; auto; exfalso.
  - eapply N1; eauto.
  - eapply N2; eauto.
Qed.

Lemma step_complete c x : sstep c x -> stp c = x.
Proof.
  intros H. unfold Runner.step, flag_seen.
  destruct H as [Hh|Hh He Hlen|i Hat Hty|i s Hat Hty Hc|i s name Hat Hty Hc Hex
                |i s k o w' Hinv|i s k o l w' n Hinv Hl|i s k o l w' Hinv Hl|i s k o n w' Hinv
                |i s k o w' Hinv Hz|i s k v z w' Hinv Hp Hz
                |i s k e w' h w'' ks Hinv Hh Hs|i s k e w' o w'' ks Hinv Hh|i s k e w' e' w'' ks Hinv Hh
                |i s k e w' Hinv].
  - destruct Hh as [-> | ->]; [reflexivity|]. rewrite orb_true_r. reflexivity.
  - rewrite Hh, He. cbn [orb]. unfold Runner.exec.
    apply lookup_ge_None in Hlen. rewrite Hlen. reflexivity.
  - destruct Hat as (Hh & He & Hf). rewrite Hh, He. cbn [orb]. unfold Runner.exec. rewrite Hf.
    unfold Runner.run_instruction. destruct Hty as [-> | ->]; reflexivity.
  - destruct Hat as (Hh & He & Hf). rewrite Hh, He. cbn [orb]. unfold Runner.exec. rewrite Hf.
    unfold Runner.run_instruction. rewrite Hty, Hc. cbn [ri_res ri_w ri_ov ri_calls].
    rewrite update_output_assign. reflexivity.
  - destruct Hat as (Hh & He & Hf). rewrite Hh, He. cbn [orb]. unfold Runner.exec. rewrite Hf.
    unfold Runner.run_instruction. rewrite Hty, Hc, Hex. reflexivity.
  - destruct Hinv as ((Hh & He & Hf) & Hty & name & Hc & Hex & -> & Hcmd). cbn in Hcmd.
    rewrite Hh, He. cbn [orb]. unfold Runner.exec. rewrite Hf.
    unfold Runner.run_instruction. rewrite Hty, Hc, Hex, Hcmd. cbn [fst snd ri_res ri_w ri_ov ri_calls].
    rewrite update_output_assign. reflexivity.
  - destruct Hinv as ((Hh & He & Hf) & Hty & name & Hc & Hex & -> & Hcmd). cbn in Hcmd.
    rewrite Hh, He. cbn [orb]. unfold Runner.exec. rewrite Hf.
    unfold Runner.run_instruction. rewrite Hty, Hc, Hex, Hcmd. cbn [fst snd ri_res ri_w ri_ov ri_calls].
    apply label_table_some in Hl. rewrite Hl, update_output_assign. reflexivity.
  - destruct Hinv as ((Hh & He & Hf) & Hty & name & Hc & Hex & -> & Hcmd). cbn in Hcmd.
    rewrite Hh, He. cbn [orb]. unfold Runner.exec. rewrite Hf.
    unfold Runner.run_instruction. rewrite Hty, Hc, Hex, Hcmd. cbn [fst snd ri_res ri_w ri_ov ri_calls].
    apply label_table_none in Hl. rewrite Hl. reflexivity.
  - destruct Hinv as ((Hh & He & Hf) & Hty & name & Hc & Hex & -> & Hcmd). cbn in Hcmd.
    rewrite Hh, He. cbn [orb]. unfold Runner.exec. rewrite Hf.
    unfold Runner.run_instruction. rewrite Hty, Hc, Hex, Hcmd. cbn [fst snd ri_res ri_w ri_ov ri_calls].
    rewrite update_output_assign. reflexivity.
  - destruct Hinv as ((Hh & He & Hf) & Hty & name & Hc & Hex & -> & Hcmd). cbn in Hcmd.
    rewrite Hh, He. cbn [orb]. unfold Runner.exec. rewrite Hf.
    unfold Runner.run_instruction. rewrite Hty, Hc, Hex, Hcmd. cbn [fst snd ri_res ri_w ri_ov ri_calls].
    rewrite update_output_assign.
    assert (exit_code o = None) as ->; [|reflexivity].
    unfold exit_code. destruct o as [v|]; [|reflexivity].
    destruct (parse_i32 v) as [z|] eqn:Hp; [|reflexivity].
    rewrite (Hz v z eq_refl Hp). reflexivity.
  - destruct Hinv as ((Hh & He & Hf) & Hty & name & Hc & Hex & -> & Hcmd). cbn in Hcmd.
    rewrite Hh, He. cbn [orb]. unfold Runner.exec. rewrite Hf.
    unfold Runner.run_instruction. rewrite Hty, Hc, Hex, Hcmd. cbn [fst snd ri_res ri_w ri_ov ri_calls].
    unfold exit_code. rewrite Hp. destruct (Z.eqb_spec z 0); [contradiction|]. reflexivity.
  - destruct Hinv as ((Hh' & He & Hf) & Hty & name & Hc & Hex & -> & Hcmd). cbn in Hcmd.
    rewrite Hh', He. cbn [orb]. unfold Runner.exec. rewrite Hf.
    unfold Runner.run_instruction. rewrite Hty, Hc, Hex, Hcmd. cbn [fst snd ri_res ri_w ri_ov ri_calls].
    rewrite update_output_assign.
    destruct (run_on_error_handled (assign cstate w' (s_out s) (Some false_str)) e (i_meta i))
      as (h2 & w2 & ks2 & Hh2 & Hks & Hres).
    destruct (handled_det _ _ _ _ _ _ _ _ _ Hh Hh2) as (<- & <- & <-).
    destruct h as [[o|o g|e'|e'|o]|]; cbn in Hs; try contradiction;
      destruct Hres as [-> ->]; rewrite Hks; reflexivity.
  - destruct Hinv as ((Hh' & He & Hf) & Hty & name & Hc & Hex & -> & Hcmd). cbn in Hcmd.
    rewrite Hh', He. cbn [orb]. unfold Runner.exec. rewrite Hf.
    unfold Runner.run_instruction. rewrite Hty, Hc, Hex, Hcmd. cbn [fst snd ri_res ri_w ri_ov ri_calls].
    rewrite update_output_assign.
    destruct (run_on_error_handled (assign cstate w' (s_out s) (Some false_str)) e (i_meta i))
      as (h2 & w2 & ks2 & Hh2 & Hks & Hres).
    destruct (handled_det _ _ _ _ _ _ _ _ _ Hh Hh2) as (<- & <- & <-).
    rewrite Hres, Hks. reflexivity.
  - destruct Hinv as ((Hh' & He & Hf) & Hty & name & Hc & Hex & -> & Hcmd). cbn in Hcmd.
    rewrite Hh', He. cbn [orb]. unfold Runner.exec. rewrite Hf.
    unfold Runner.run_instruction. rewrite Hty, Hc, Hex, Hcmd. cbn [fst snd ri_res ri_w ri_ov ri_calls].
    rewrite update_output_assign.
    destruct (run_on_error_handled (assign cstate w' (s_out s) (Some false_str)) e (i_meta i))
      as (h2 & w2 & ks2 & Hh2 & Hks & Hres).
    destruct (handled_det _ _ _ _ _ _ _ _ _ Hh Hh2) as (<- & <- & <-).
    rewrite Hres, Hks. reflexivity.
  - destruct Hinv as ((Hh & He & Hf) & Hty & name & Hc & Hex & -> & Hcmd). cbn in Hcmd.
    rewrite Hh, He. cbn [orb]. unfold Runner.exec. rewrite Hf.
    unfold Runner.run_instruction. rewrite Hty, Hc, Hex, Hcmd. reflexivity.
Qed.

Lemma step_iff c x : stp c = x <-> sstep c x.
Proof. split; [apply step_sound|apply step_complete]. Qed.

Lemma spec_step_det c x y : sstep c x -> sstep c y -> x = y.
Proof. intros Hx Hy. apply step_complete in Hx, Hy. congruence. Qed.

(* ---- runs ------------------------------------------------------------------------------- *)
Lemma loop_sound fuel : forall c f t,
  loop prog (label_table prog) fuel c = Done f t -> spec_run prog c f t.
Proof.
  induction fuel as [|fuel IH]; intros c f t; [discriminate|]. cbn [Runner.loop].
  destruct (stp c) as [c'|[f' t']] eqn:E.
  - intros H. eapply R_more; [apply step_sound; exact E|]. apply IH. exact H.
  - intros [= <- <-]. apply R_final. apply step_sound. exact E.
Qed.

Lemma loop_complete c f t :
  spec_run prog c f t -> exists fuel, loop prog (label_table prog) fuel c = Done f t.
Proof.
  induction 1 as [c f t H|c c' f t H _ [fuel IH]].
  - exists 1. cbn [Runner.loop]. rewrite (step_complete _ _ H). reflexivity.
  - exists (S fuel). cbn [Runner.loop]. rewrite (step_complete _ _ H). exact IH.
Qed.

Lemma spec_run_det c f1 t1 f2 t2 :
  spec_run prog c f1 t1 -> spec_run prog c f2 t2 -> f1 = f2 /\ t1 = t2.
Proof.
  intros H1. revert f2 t2.
  induction H1 as [c f t H|c c' f t H _ IH]; intros f2 t2 H2.
  - destruct H2 as [f2 t2 H2|c2 f2 t2 H2 _].
    + pose proof (spec_step_det _ _ _ H H2) as E. injection E as -> ->. auto.
    + pose proof (spec_step_det _ _ _ H H2) as E. discriminate.
  - destruct H2 as [f2 t2 H2|c2 f2 t2 H2 H2'].
    + pose proof (spec_step_det _ _ _ H H2) as E. discriminate.
    + pose proof (spec_step_det _ _ _ H H2) as E. injection E as <-. apply IH. exact H2'.
Qed.

(* more fuel does not change a finished run *)
Lemma loop_mono fuel : forall c f t k,
  loop prog (label_table prog) fuel c = Done f t -> loop prog (label_table prog) (fuel + k) c = Done f t.
Proof.
  induction fuel as [|fuel IH]; intros c f t k; [discriminate|]. cbn [Runner.loop Nat.add].
  destruct (stp c) as [c'|[f' t']]; auto.
Qed.

(* ---- corollaries ------------------------------------------------------------------------ *)
(* a failing step reports the meta-information of the instruction it was executing, and that
   instruction's index is the last entry of the trace *)
Lemma spec_step_err_position c e m t :
  sstep c (inr (FErr e m, t)) ->
  exists i ks, prog !! pc c = Some i /\ m = i_meta i /\ t = trace c ++ [Event (pc c) ks].
Proof.
  intros H. inversion H; subst;
    repeat match goal with
    | Hi : RunnerSpec.invokes _ _ _ _ _ _ _ _ _ _ _ |- _ => destruct Hi as ((_ & _ & ?) & _)
    | Ha : RunnerSpec.at_instr _ _ _ _ _ |- _ => destruct Ha as (_ & _ & ?)
    end; eauto.
Qed.

Lemma spec_run_err_position c e m t :
  spec_run prog c (FErr e m) t ->
  exists k i ks t0, prog !! k = Some i /\ m = i_meta i /\ t = t0 ++ [Event k ks].
Proof.
  remember (FErr e m) as f eqn:Ef. induction 1 as [c f t H|c c' f t H _ IH]; subst.
  - destruct (spec_step_err_position _ _ _ _ H) as (i & ks & Hi & Hm & Ht). eauto 8.
  - auto.
Qed.

(* continue with a value stores it, without a value deletes the output variable; nothing else
   changes relative to what the command left *)
Lemma continue_output c i s k o w' v :
  invokes prog c i s k (Continue o) w' -> s_out s = Some v ->
  exists c', stp c = inl c' /\ pc c' = S (pc c) /\ vars (wd c') !! v = o /\
             forall v', v' <> v -> vars (wd c') !! v' = vars w' !! v'.
Proof.
  intros Hinv Hv. eexists. split; [apply step_complete; eapply S_continue; exact Hinv|].
  cbn. rewrite Hv. destruct o as [x|]; cbn; repeat split.
  - apply lookup_insert.
  - intros v' Hne. apply lookup_insert_ne. congruence.
  - apply lookup_delete.
  - intros v' Hne. apply lookup_delete_ne. congruence.
Qed.

(* an error result: output variable "false", the on_error command (if registered) sees exactly
   (message, source line or 0, source file or ""), run at line 0 without output variable *)
Lemma error_reported c i s k e w' :
  invokes prog c i s k (Error e) w' -> exists_cmd (cst w') on_error_name = true ->
  let a := Inv [e; nat_str (default 0 (m_line (i_meta i))); default [] (m_src (i_meta i))] None 0 in
  let w1 := assign cstate w' (s_out s) (Some false_str) in
  match stp c with
  | inl c' => pc c' = S (pc c) /\ wd c' = snd (cmd on_error_name a w1) /\
              trace c' = trace c ++ [Event (pc c) [k; Call on_error_name a]]
  | inr (f, t) => (exists e' , f = FErr e' (i_meta i)) /\ t = trace c ++ [Event (pc c) [k; Call on_error_name a]]
  end.
Proof.
  intros Hinv Hex a w1.
  assert (Hex1 : exists_cmd (cst w1) on_error_name = true).
  { unfold w1, assign. destruct (s_out s); exact Hex. }
  destruct (cmd on_error_name a w1) as [r w2] eqn:Hc.
  assert (Hh : handled w1 e (i_meta i) (Some r) w2 [Call on_error_name a]).
  { econstructor; eauto. }
  destruct r as [o|o g|e'|e'|o].
  - erewrite step_complete by (eapply S_error; [exact Hinv|exact Hh|exact I]). cbn. auto.
  - erewrite step_complete by (eapply S_error; [exact Hinv|exact Hh|exact I]). cbn. auto.
  - erewrite step_complete by (eapply S_error; [exact Hinv|exact Hh|exact I]). cbn. auto.
  - erewrite step_complete by (eapply S_error_crash; [exact Hinv|exact Hh]). cbn. eauto.
  - erewrite step_complete by (eapply S_error_exit; [exact Hinv|exact Hh]). cbn. eauto.
Qed.

End Prog.

(* ---- whole programs --------------------------------------------------------------------- *)
Theorem run_refines prog w fuel f t :
  run fuel prog w = Done f t -> spec_program cstate exists_cmd cmd ext prog w f t.
Proof. apply loop_sound. Qed.

Theorem run_complete prog w f t :
  spec_program cstate exists_cmd cmd ext prog w f t -> exists fuel, run fuel prog w = Done f t.
Proof. apply loop_complete. Qed.

Theorem spec_program_det prog w f1 t1 f2 t2 :
  spec_program cstate exists_cmd cmd ext prog w f1 t1 ->
  spec_program cstate exists_cmd cmd ext prog w f2 t2 -> f1 = f2 /\ t1 = t2.
Proof. apply spec_run_det. Qed.

(* a failed run names the source line and file of the instruction that was executing: the meta
   information in the error is that of the instruction whose index is the last trace entry *)
Theorem run_err_position prog w fuel e m t :
  run fuel prog w = Done (FErr e m) t ->
  exists k i ks t0, prog !! k = Some i /\ m = i_meta i /\ t = t0 ++ [Event k ks].
Proof. intros H. apply run_refines in H. eapply spec_run_err_position; eauto. Qed.

End Proof.
