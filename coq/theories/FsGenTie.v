(* FsGenTie.v — the `run` functions of the file commands of the SDK (duckscript_sdk/src/sdk/std/fs/{touch, mkdir, rmdir,
   exists, is_file, is_directory, get_file_size, read_text, read_bytes, write_text, append, write_bytes, rm, cp, mv}/mod.rs)
   and the helpers of duckscript_sdk/src/utils/io.rs they call: the command layer of the C18 model (FsCmd.v: argument vector
   -> ONE history step FsTree.M_step) is EQUAL, for every environment, argument vector and tree, to the mechanical translation
   of the CURRENT Rust source (coq/generated/GenFsFn.v, rewritten on every run by lib/rs2v.py, class FnFs, through
   lib/gen/fs_gen.py).

     gen_cmd_<name>_eq      gen_cmd_<name> E args t = Some (cmd_<name> E args t)

   The translation's result is an option: None is "the function unwinds" (every `context.arguments[i]` of the source is
   `match nth_error args i with None => None | ..`).  Equality with `Some (..)` therefore also says that no argument vector
   reaches such an arm: the argument-count guards of the source make every access safe (the no-panic content).

   Every theorem is stated under its own flag [gen_cmd_<name>_understood = true]: when the translator does not understand a
   function any more the generated file holds [false] and a stub for it and the theorem holds vacuously (the check reports
   that tie as inactive).  Every proof must also compile against the stub: the first sentence then closes the goal by
   [discriminate], so every later sentence is prefixed with [all:] and no bullets / braces are used.  No proof mentions a
   generated variable name or the position of a test in a decision tree: after a case analysis of the argument vector that
   decides every argument-count test, [fs_tree] splits on whatever tests the two sides contain (innermost scrutinee first:
   the primitives of FsTree.v stay opaque) and closes the leaves by [reflexivity].  rm's loop over `start..len` is first
   turned into the loop over the arguments themselves (Rs2vFsLib.for_idx_items: the body taken from the goal), then
   identified with FsTree.M_rm_loop by induction (rm_loop_tie: the one-step equation again proved by [fs_tree]). *)
From Coq Require Import NArith List Lia.
From stdpp Require Import gmap list.
Require Import DS.FsTree DS.Rs2vFsLib DS.FsCmd.
Require Import DSG.GenFsFn.

Ltac fs_open :=
  unfold cmd_touch, cmd_mkdir, cmd_rmdir, cmd_exists, cmd_is_file, cmd_is_dir, cmd_size, cmd_read, cmd_readb, cmd_write,
         cmd_append, cmd_writeb, cmd_cp, cmd_mv, cmd1, fs_step, M_step, M_write, M_append, M_read, M_readb, M_touch,
         M_mkdir, M_cp, M_mv, M_rmdir, M_size, obool, oerr, p_same_file, f_read_text, andb, orb, negb.

Ltac fs_simpl :=
  cbn [length nth_error Nat.ltb Nat.leb Nat.eqb Nat.add map skipn vec_is_empty fst snd node_is_file node_is_dir node_len]; cbn beta iota zeta.

(* split on every test of either side, innermost scrutinee first *)
Ltac fs_split :=
  repeat (fs_simpl;
          match goal with
          | |- context [match ?x with _ => _ end] =>
              lazymatch x with
              | context [match _ with _ => _ end] => fail
              | _ => destruct x eqn:?
              end
          end).
Ltac fs_tree := fs_split; fs_simpl; first [reflexivity | cbn [node_is_file node_is_dir node_len] in *; congruence].

Ltac fs_args args :=
  destruct args as [|?a [|?a [|?a ?rest]]]; fs_simpl.

Ltac fs_cmd :=
  let E := fresh "E" in let args := fresh "args" in let t := fresh "t" in
  intros E args t; fs_args args; fs_open; fs_tree.

(* ---- one path ----------------------------------------------------------------------------------------------------- *)
Theorem gen_cmd_touch_eq : gen_cmd_touch_understood = true ->
  forall E args t, gen_cmd_touch E args t = Some (cmd_touch E args t).
Proof.
  unfold gen_cmd_touch_understood; intros U; try discriminate U; clear U.
  all: unfold gen_cmd_touch; fs_cmd.
Qed.

Theorem gen_cmd_mkdir_eq : gen_cmd_mkdir_understood = true ->
  forall E args t, gen_cmd_mkdir E args t = Some (cmd_mkdir E args t).
Proof.
  unfold gen_cmd_mkdir_understood; intros U; try discriminate U; clear U.
  all: unfold gen_cmd_mkdir; fs_cmd.
Qed.

Theorem gen_cmd_rmdir_eq : gen_cmd_rmdir_understood = true ->
  forall E args t, gen_cmd_rmdir E args t = Some (cmd_rmdir E args t).
Proof.
  unfold gen_cmd_rmdir_understood; intros U; try discriminate U; clear U.
  all: unfold gen_cmd_rmdir; fs_cmd.
Qed.

Theorem gen_cmd_exists_eq : gen_cmd_exists_understood = true ->
  forall E args t, gen_cmd_exists E args t = Some (cmd_exists E args t).
Proof.
  unfold gen_cmd_exists_understood; intros U; try discriminate U; clear U.
  all: unfold gen_cmd_exists; fs_cmd.
Qed.

Theorem gen_cmd_is_file_eq : gen_cmd_is_file_understood = true ->
  forall E args t, gen_cmd_is_file E args t = Some (cmd_is_file E args t).
Proof.
  unfold gen_cmd_is_file_understood; intros U; try discriminate U; clear U.
  all: unfold gen_cmd_is_file; fs_cmd.
Qed.

Theorem gen_cmd_is_dir_eq : gen_cmd_is_dir_understood = true ->
  forall E args t, gen_cmd_is_dir E args t = Some (cmd_is_dir E args t).
Proof.
  unfold gen_cmd_is_dir_understood; intros U; try discriminate U; clear U.
  all: unfold gen_cmd_is_dir; fs_cmd.
Qed.

Theorem gen_cmd_size_eq : gen_cmd_size_understood = true ->
  forall E args t, gen_cmd_size E args t = Some (cmd_size E args t).
Proof.
  unfold gen_cmd_size_understood; intros U; try discriminate U; clear U.
  all: unfold gen_cmd_size; fs_cmd.
Qed.

Theorem gen_cmd_read_eq : gen_cmd_read_understood = true ->
  forall E args t, gen_cmd_read E args t = Some (cmd_read E args t).
Proof.
  unfold gen_cmd_read_understood; intros U; try discriminate U; clear U.
  all: unfold gen_cmd_read; fs_cmd.
Qed.

Theorem gen_cmd_readb_eq : gen_cmd_readb_understood = true ->
  forall E args t, gen_cmd_readb E args t = Some (cmd_readb E args t).
Proof.
  unfold gen_cmd_readb_understood; intros U; try discriminate U; clear U.
  all: unfold gen_cmd_readb; fs_cmd.
Qed.

(* ---- a path and a text / a handle ------------------------------------------------------------------------------------ *)
Theorem gen_cmd_write_eq : gen_cmd_write_understood = true ->
  forall E args t, gen_cmd_write E args t = Some (cmd_write E args t).
Proof.
  unfold gen_cmd_write_understood; intros U; try discriminate U; clear U.
  all: unfold gen_cmd_write; fs_cmd.
Qed.

Theorem gen_cmd_append_eq : gen_cmd_append_understood = true ->
  forall E args t, gen_cmd_append E args t = Some (cmd_append E args t).
Proof.
  unfold gen_cmd_append_understood; intros U; try discriminate U; clear U.
  all: unfold gen_cmd_append; fs_cmd.
Qed.

Theorem gen_cmd_writeb_eq : gen_cmd_writeb_understood = true ->
  forall E args t, gen_cmd_writeb E args t = Some (cmd_writeb E args t).
Proof.
  unfold gen_cmd_writeb_understood; intros U; try discriminate U; clear U.
  all: unfold gen_cmd_writeb; fs_cmd.
Qed.

(* ---- two paths ------------------------------------------------------------------------------------------------------- *)
Theorem gen_cmd_cp_eq : gen_cmd_cp_understood = true ->
  forall E args t, gen_cmd_cp E args t = Some (cmd_cp E args t).
Proof.
  unfold gen_cmd_cp_understood; intros U; try discriminate U; clear U.
  all: unfold gen_cmd_cp; fs_cmd.
Qed.

Theorem gen_cmd_mv_eq : gen_cmd_mv_understood = true ->
  forall E args t, gen_cmd_mv E args t = Some (cmd_mv E args t).
Proof.
  unfold gen_cmd_mv_understood; intros U; try discriminate U; clear U.
  all: unfold gen_cmd_mv; fs_cmd.
Qed.

(* ---- rm --------------------------------------------------------------------------------------------------------------- *)
Definition lres_of (r : pres) : lres := if r.1 then LNext r.2 else LRet OErr r.2.
Definition loop_end (r : lres) : gres :=
  match r with LPanic => None | LRet o t' => Some (o, t') | LNext t' => Some (OVal s_true, t') end.
(* FsTree.M_rm_loop as a loop result: how the loop ended, before `run` turns that into its own result *)
Fixpoint rm_lres (recursive : bool) (ps : list path) (t : tree) : lres :=
  match ps with
  | [] => LNext t
  | p :: r => match lres_of (M_rm_one recursive p t) with LNext t1 => rm_lres recursive r t1 | x => x end
  end.

Lemma rm_lres_end recursive ps t : loop_end (rm_lres recursive ps t) = Some (M_rm_loop recursive ps t).
Proof.
  revert t. induction ps as [|p r IH]; intros t.
  - reflexivity.
  - cbn [rm_lres M_rm_loop]. unfold lres_of.
    destruct (M_rm_one recursive p t) as [ok t1]. cbn [fst snd]. destruct ok.
    + apply IH.
    + reflexivity.
Qed.

Lemma rm_loop_tie (E : fsenv) (recursive : bool) (F : list N -> tree -> lres) :
  (forall a t, F a t = lres_of (M_rm_one recursive (path_of E a) t)) ->
  forall l t, for_items F l t = rm_lres recursive (map (path_of E) l) t.
Proof.
  intros HF l. induction l as [|a l IH]; intros t.
  - reflexivity.
  - cbn [for_items map rm_lres]. rewrite HF.
    destruct (lres_of (M_rm_one recursive (path_of E a) t)); try reflexivity. apply IH.
Qed.

(* what `run` makes of the way its loop ended: "true" after the last path, the early return's own result *)
Lemma loop_end_fold r :
  match r with LPanic => None | LRet o t' => Some (o, t') | LNext t' => Some (OVal [116; 114; 117; 101]%N, t') end = loop_end r.
Proof. reflexivity. Qed.

(* the one-step equation of a loop body taken from the goal *)
Ltac fs_rm_step := intros; unfold lres_of, M_rm_one, negb; fs_tree.
Ltac fs_rm_loops E :=
  repeat match goal with
         | |- context [for_idx ?b (idx_range ?a (length ?v)) ?t] =>
             rewrite (for_idx_items v _ b (fun i t => eq_refl))
         end;
  repeat match goal with
         | |- context [for_items ?F ?l ?t] =>
             first [ rewrite (rm_loop_tie E false F) by fs_rm_step
                   | match F with
                     | context [flag_r ?x] => rewrite (rm_loop_tie E (flag_r x) F) by fs_rm_step
                     end ]
         end;
  rewrite ?loop_end_fold, ?rm_lres_end.

Theorem gen_cmd_rm_eq : gen_cmd_rm_understood = true ->
  forall E args t, gen_cmd_rm E args t = Some (cmd_rm E args t).
Proof.
  unfold gen_cmd_rm_understood; intros U; try discriminate U; clear U.
  all: unfold gen_cmd_rm; intros E args t.
  all: destruct args as [|a0 [|a1 rest]]; cbn [nth_error vec_is_empty]; cbn beta iota.
  all: fs_rm_loops E.
  all: unfold cmd_rm, fs_step, M_step, M_rm, andb, orb, negb.
  all: fs_split; fs_simpl.
  all: first [ reflexivity | congruence
             | exfalso; repeat match goal with H : (_ =? _)%nat = true |- _ => apply Nat.eqb_eq in H end; lia ].
Qed.
