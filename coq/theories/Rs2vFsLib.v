(* Rs2vFsLib.v — run-time library of the translation of the file-command `run` functions (lib/gen/fs_gen.py ->
   coq/generated/GenFsFn.v, tie FsGenTie.v).  DEFINITIONS and two generic loop lemmas only.

   fsenv      what a command sees of its surroundings and the tree model (FsTree.v) does not define:
                path_of      how the OS resolves an argument TEXT to a node of the tree below the working root (and whether
                             the text was written with a trailing separator) — the tie holds for EVERY such function;
                handle_of    the handles sub-state (get_handles_sub_state(context.state).get(key)), abstracted to
                             "a byte array with this content" / "some other state value" / absent;
                e_rename, e_dir_copy, e_move_dir   std::fs::rename / fs_extra::dir::copy / fs_extra::dir::move_dir of
                             DIRECTORY sources: the Section variables of FsTree.v (no assumption at all).
   gres       the result of a translated `run`: None = the function unwinds (an `arguments[i]` out of bounds), Some (out, tree).
   lres / for_idx   `for index in a..b { .. }` with early `return`: one body application per index, threaded tree. *)
From Coq Require Import NArith List Lia.
From stdpp Require Import gmap list.
Require Import DS.FsTree.

Inductive hval := HBytes (b : bytes) | HOther.

Record fsenv := FsEnv {
  path_of : list N -> path;
  handle_of : list N -> option hval;
  e_rename : path -> path -> tree -> pres;
  e_dir_copy : path -> path -> tree -> pres;
  e_move_dir : path -> path -> tree -> pres
}.

Definition gres := option (out * tree).

Definition vec_is_empty {A} (l : list A) : bool := match l with [] => true | _ => false end.

(* fsio::file::read_text_file: fs::read + String::from_utf8 *)
Definition f_read_text (p : path) (t : tree) : option (list N) :=
  match p_read p t with Some b => utf8_decode b | None => None end.
(* std::fs::Metadata::is_file / len of what stat found *)
Definition node_is_file (n : node) : bool := match n with File _ => true | Dir => false end.
Definition node_is_dir (n : node) : bool := match n with File _ => false | Dir => true end.
Definition node_len (n : node) : N := match n with File b => N.of_nat (length b) | Dir => 0%N end.

(* ---- loops ------------------------------------------------------------------------------------------------------ *)
Inductive lres := LPanic | LRet (o : out) (t : tree) | LNext (t : tree).

Fixpoint for_idx (body : nat -> tree -> lres) (ix : list nat) (t : tree) : lres :=
  match ix with
  | [] => LNext t
  | i :: r => match body i t with LNext t1 => for_idx body r t1 | x => x end
  end.
(* a..b on usize *)
Definition idx_range (a b : nat) : list nat := seq a (b - a).

(* the same loop over the elements themselves *)
Fixpoint for_items {A} (f : A -> tree -> lres) (l : list A) (t : tree) : lres :=
  match l with
  | [] => LNext t
  | x :: r => match f x t with LNext t1 => for_items f r t1 | y => y end
  end.

(* a loop over a..len whose body reads `v[index]` (an explicit panic arm) is the loop over the elements from a on *)
Lemma for_idx_items {A} (v : list A) (f : A -> tree -> lres) (body : nat -> tree -> lres) :
  (forall i t, body i t = match nth_error v i with None => LPanic | Some x => f x t end) ->
  forall a t, for_idx body (idx_range a (length v)) t = for_items f (skipn a v) t.
Proof.
  intros Hb a. unfold idx_range.
  remember (length v - a)%nat as n eqn:Hn. revert a Hn.
  induction n as [|n IH]; intros a Hn t.
  - cbn. rewrite skipn_all2 by lia. reflexivity.
  - cbn [seq for_idx]. rewrite Hb.
    destruct (nth_error v a) as [x|] eqn:Hx.
    + assert (Hs : skipn a v = x :: skipn (S a) v).
      { clear - Hx. revert v Hx. induction a as [|a IHa]; intros [|y v] Hx; cbn in Hx; try discriminate.
        - injection Hx as ->. reflexivity.
        - cbn [skipn]. rewrite (IHa v Hx). reflexivity. }
      rewrite Hs. cbn [for_items]. destruct (f x t); try reflexivity.
      apply IH. lia.
    + apply nth_error_None in Hx. lia.
Qed.
