(* Base.v — text primitives shared by every model file (stdlib only).
   Characters are Unicode scalar values as [N]; strings are code-point lists. *)
From Coq Require Export List NArith ZArith Bool Lia.
Export ListNotations.
Open Scope N_scope.

Definition char := N.
Definition str := list char.

Fixpoint str_eqb (a b : str) : bool :=
  match a, b with
  | [], [] => true
  | x :: a', y :: b' => N.eqb x y && str_eqb a' b'
  | _, _ => false
  end.

Lemma str_eqb_spec a b : reflect (a = b) (str_eqb a b).
Proof.
  revert b; induction a as [|x a IH]; intros [|y b]; cbn; try (constructor; congruence).
  destruct (N.eqb_spec x y); cbn.
  - destruct (IH b); constructor; congruence.
  - constructor; congruence.
Qed.

Lemma str_eqb_refl a : str_eqb a a = true.
Proof. destruct (str_eqb_spec a a); congruence. Qed.

Lemma str_eqb_eq a b : str_eqb a b = true <-> a = b.
Proof. destruct (str_eqb_spec a b); split; congruence. Qed.

Lemma str_eqb_neq a b : str_eqb a b = false <-> a <> b.
Proof. destruct (str_eqb_spec a b); split; congruence. Qed.

Definition str_in (a : str) (l : list str) : bool := existsb (str_eqb a) l.

Lemma str_in_spec a l : str_in a l = true <-> In a l.
Proof.
  unfold str_in. rewrite existsb_exists. split.
  - intros (x & Hx & E). apply str_eqb_eq in E. now subst.
  - intros H. exists a. split; [assumption|apply str_eqb_refl].
Qed.

(* the characters the code inspects *)
Definition c_tab : char := 9.   Definition c_lf : char := 10.  Definition c_cr : char := 13.
Definition c_sp : char := 32.   Definition c_bang : char := 33. Definition c_quote : char := 34.
Definition c_hash : char := 35. Definition c_dollar : char := 36. Definition c_pct : char := 37.
Definition c_lpar : char := 40. Definition c_rpar : char := 41.
Definition c_colon : char := 58. Definition c_eq : char := 61. Definition c_bs : char := 92.
Definition c_lbrace : char := 123. Definition c_rbrace : char := 125.
Definition c_n : char := 110. Definition c_r : char := 114. Definition c_t : char := 116.

(* ASCII lower-casing.  Rust's [str::to_lowercase] is the full Unicode mapping; the models only
   ever compare a lower-cased string against ASCII literals, and the correspondence run checks
   for every scalar value that its Rust lower-casing is one of the ASCII letters used in those
   literals exactly when [lower_ascii] says so (see harness `chartables`). *)
Definition lower_ascii (c : char) : char :=
  if (65 <=? c) && (c <=? 90) then c + 32 else c.
Definition lower_str (s : str) : str := map lower_ascii s.

(* Unicode White_Space (what Rust's char::is_whitespace / str::trim use); checked exhaustively
   against Rust for all scalar values by the harness on every run. *)
Definition is_ws (c : char) : bool :=
  ((9 <=? c) && (c <=? 13)) || (c =? 32) || (c =? 133) || (c =? 160) || (c =? 5760) ||
  ((8192 <=? c) && (c <=? 8202)) || (c =? 8232) || (c =? 8233) || (c =? 8239) || (c =? 8287) ||
  (c =? 12288).

Fixpoint drop_ws (s : str) : str :=
  match s with
  | c :: s' => if is_ws c then drop_ws s' else s
  | [] => []
  end.
Definition trim_start (s : str) : str := drop_ws s.
Definition trim_end (s : str) : str := rev (drop_ws (rev s)).
Definition trim (s : str) : str := trim_end (trim_start s).

(* two string tables with the same elements answer membership alike *)
Definition same_elems (a b : list str) : bool :=
  forallb (fun x => str_in x b) a && forallb (fun x => str_in x a) b.
Lemma same_elems_in a b : same_elems a b = true -> forall s, str_in s a = str_in s b.
Proof.
  unfold same_elems. intros H s. apply andb_prop in H. destruct H as [Hab Hba].
  rewrite forallb_forall in Hab, Hba.
  destruct (str_in s a) eqn:Ea, (str_in s b) eqn:Eb; try reflexivity.
  - apply str_in_spec in Ea. apply Hab in Ea. congruence.
  - apply str_in_spec in Eb. apply Hba in Eb. congruence.
Qed.
