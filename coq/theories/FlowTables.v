(* FlowTables.v — the keyword tables of the flow-control commands (regenerated from the Rust
   sources, DSG.GenFlowNames), the name -> command classification used by the flat machine, and the
   boolean well-formedness predicate [tables_wf] the C04 proofs take as their only fact about the
   tables.  Definitions only. *)
Require Import DS.Base.
Require Import DSG.GenFlowNames.

Definition s_emit : str := [101;109;105;116].                          (* emit *)
Definition s_set : str := [115;101;116].                               (* set *)
Definition s_array : str := [97;114;114;97;121].                       (* array *)
Definition s_array_push : str := [97;114;114;97;121;95;112;117;115;104]. (* array_push *)
Definition prim_names : list str := [s_emit; s_set; s_array; s_array_push].

(* the five lists handed to instruction_query::find_commands *)
Record tables := mkT {
  starts : list str; middles : list str; ends : list str; sblocks : list str; eblocks : list str }.

Definition gen_if_tables : tables :=
  mkT gen_if_start gen_if_middle gen_if_end gen_if_start_blocks gen_if_end_blocks.
Definition gen_while_tables : tables :=
  mkT gen_while_start gen_while_middle gen_while_end gen_while_start_blocks gen_while_end_blocks.
Definition gen_for_tables : tables :=
  mkT gen_for_start gen_for_middle gen_for_end gen_for_start_blocks gen_for_end_blocks.
Definition gen_function_tables : tables :=
  mkT gen_function_start gen_function_middle gen_function_end gen_function_start_blocks
      gen_function_end_blocks.

(* every spelling of a command: its aliases and its full name *)
Definition n_if := gen_if_aliases ++ [gen_if_name].
Definition n_elseif := gen_elseif_aliases ++ [gen_elseif_name].
Definition n_else := gen_else_aliases ++ [gen_else_name].
Definition n_endif := gen_endif_aliases ++ [gen_endif_name].
Definition n_while := gen_while_aliases ++ [gen_while_name].
Definition n_endwhile := gen_endwhile_aliases ++ [gen_endwhile_name].
Definition n_for := gen_for_aliases ++ [gen_for_name].
Definition n_endfor := gen_endfor_aliases ++ [gen_endfor_name].
Definition n_function := gen_function_aliases ++ [gen_function_name].
Definition n_endfunction := gen_endfunction_aliases ++ [gen_endfunction_name].

(* the command registry restricted to the flow-control commands: which command a name runs *)
Inductive kind :=
  KIf | KElseIf | KElse | KEndIf | KWhile | KEndWhile | KFor | KEndFor | KEnd | KOther.
Definition kind_eqb (a b : kind) : bool :=
  match a, b with
  | KIf, KIf | KElseIf, KElseIf | KElse, KElse | KEndIf, KEndIf | KWhile, KWhile
  | KEndWhile, KEndWhile | KFor, KFor | KEndFor, KEndFor | KEnd, KEnd | KOther, KOther => true
  | _, _ => false
  end.
Definition classify (c : str) : kind :=
  if str_in c n_if then KIf
  else if str_in c n_elseif then KElseIf
  else if str_in c n_else then KElse
  else if str_in c n_endif then KEndIf
  else if str_in c n_while then KWhile
  else if str_in c n_endwhile then KEndWhile
  else if str_in c n_for then KFor
  else if str_in c n_endfor then KEndFor
  else if str_eqb c gen_end_name then KEnd
  else KOther.

(* the three block constructs of C04 *)
Inductive ckind := CkIf | CkWhile | CkFor.
Definition ckind_eqb (a b : ckind) : bool :=
  match a, b with CkIf, CkIf | CkWhile, CkWhile | CkFor, CkFor => true | _, _ => false end.
Definition openers (k : ckind) : list str :=
  match k with CkIf => n_if | CkWhile => n_while | CkFor => n_for end.
(* the block-specific end command or the generic [end] *)
Definition closers (k : ckind) : list str :=
  match k with CkIf => n_endif | CkWhile => n_endwhile | CkFor => n_endfor end ++ [gen_end_name].
Definition table_of (k : ckind) : tables :=
  match k with CkIf => gen_if_tables | CkWhile => gen_while_tables | CkFor => gen_for_tables end.
(* the name the opener stores in the [end] table *)
Definition end_name_of (k : ckind) : str :=
  match k with CkIf => gen_endif_name | CkWhile => gen_endwhile_name | CkFor => gen_endfor_name end.
Definition end_kind_of (k : ckind) : kind :=
  match k with CkIf => KEndIf | CkWhile => KEndWhile | CkFor => KEndFor end.

(* ---- what the scanner proof needs of a table, relative to the construct it scans for -------- *)
Definition inert (T : tables) (c : str) : bool :=
  negb (str_in c (starts T)) && negb (str_in c (middles T)) && negb (str_in c (ends T)) &&
  negb (str_in c (sblocks T)) && negb (str_in c (eblocks T)).
Definition own_open (T : tables) (o : str) : bool :=
  negb (str_in o (sblocks T)) && negb (str_in o (middles T)) && negb (str_in o (eblocks T)) &&
  negb (str_in o (ends T)) && str_in o (starts T).
Definition own_close (T : tables) (c : str) : bool :=
  negb (str_in c (sblocks T)) && negb (str_in c (middles T)) && str_in c (ends T).
Definition own_mid (T : tables) (m : str) : bool :=
  negb (str_in m (sblocks T)) && str_in m (middles T).
Definition other_open (T : tables) (o : str) : bool := str_in o (sblocks T).
Definition other_close (T : tables) (c : str) : bool :=
  negb (str_in c (sblocks T)) && negb (str_in c (middles T)) && str_in c (eblocks T).

Definition all_ckinds := [CkIf; CkWhile; CkFor].
Definition table_ok (k : ckind) : bool :=
  let T := table_of k in
  forallb (own_open T) (openers k) &&
  forallb (own_close T) (closers k) &&
  forallb (if ckind_eqb k CkIf then own_mid T else inert T) (n_elseif ++ n_else) &&
  forallb (fun k' => ckind_eqb k k' ||
                     (forallb (other_open T) (openers k') && forallb (other_close T) (closers k')))
          all_ckinds &&
  forallb (inert T) prim_names &&
  negb (match starts T with [] => true | _ => false end) &&
  negb (match ends T with [] => true | _ => false end).

(* every spelling runs the command it is a spelling of; the primitive commands are none of them *)
Definition classify_ok : bool :=
  forallb (fun c => kind_eqb (classify c) KIf) n_if &&
  forallb (fun c => kind_eqb (classify c) KElseIf) n_elseif &&
  forallb (fun c => kind_eqb (classify c) KElse) n_else &&
  forallb (fun c => kind_eqb (classify c) KEndIf) n_endif &&
  forallb (fun c => kind_eqb (classify c) KWhile) n_while &&
  forallb (fun c => kind_eqb (classify c) KEndWhile) n_endwhile &&
  forallb (fun c => kind_eqb (classify c) KFor) n_for &&
  forallb (fun c => kind_eqb (classify c) KEndFor) n_endfor &&
  kind_eqb (classify gen_end_name) KEnd &&
  forallb (fun c => kind_eqb (classify c) KOther) prim_names.

(* the documented content of the tables (DESIGN §4): the start list is exactly the construct's own
   names, the middle list every alias and the name of ElseIf and Else, the end list the end
   command's names and [end], the block lists the other constructs' names *)
Definition tables_doc_ok : bool :=
  same_elems (starts gen_if_tables) n_if &&
  same_elems (middles gen_if_tables) (n_elseif ++ n_else) &&
  same_elems (ends gen_if_tables) (n_endif ++ [gen_end_name]) &&
  same_elems (sblocks gen_if_tables) (n_function ++ n_for ++ n_while) &&
  same_elems (eblocks gen_if_tables) (n_endfor ++ n_endfunction ++ n_endwhile ++ [gen_end_name]) &&
  same_elems (starts gen_while_tables) n_while &&
  same_elems (middles gen_while_tables) [] &&
  same_elems (ends gen_while_tables) (n_endwhile ++ [gen_end_name]) &&
  same_elems (sblocks gen_while_tables) (n_function ++ n_for ++ n_if) &&
  same_elems (eblocks gen_while_tables) (n_endfor ++ n_endfunction ++ n_endif ++ [gen_end_name]) &&
  same_elems (starts gen_for_tables) n_for &&
  same_elems (middles gen_for_tables) [] &&
  same_elems (ends gen_for_tables) (n_endfor ++ [gen_end_name]) &&
  same_elems (sblocks gen_for_tables) (n_function ++ n_if ++ n_while) &&
  same_elems (eblocks gen_for_tables) (n_endif ++ n_endfunction ++ n_endwhile ++ [gen_end_name]).

Definition tables_wf : bool :=
  table_ok CkIf && table_ok CkWhile && table_ok CkFor && classify_ok && tables_doc_ok.
