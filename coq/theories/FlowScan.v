(* FlowScan.v — model of duckscript_sdk/src/utils/instruction_query.rs::find_commands.
   The scanner only reads the command name of each instruction, so it runs over
   [list (option str)] ([None] = empty line, comment, pre-processor line or a script line without
   a command).  Same control structure as the Rust loop: [skip_to], [block_delta], the list of
   middle positions, and the recursive call on a nested opener of the scanner's own kind (Coq
   accepts it as structural recursion on the remaining instructions, so there is no fuel).
   Definitions only. *)
Require Import DS.Base DS.FlowTables.

Inductive sres :=
| SOk (mid : list nat) (e : nat)   (* Ok(Some(Positions { middle, end })) *)
| SMissing                          (* Err("Missing end of structure ...") *)
| SNested                           (* Err from the nested call / "Unsupported nested structure" *)
| SNoNames.                         (* Err("No command names/aliases provided for search.") *)

(* [l] is the suffix of the instruction list that starts at line [pos] *)
Fixpoint scan (T : tables) (l : list (option str)) (pos skip_to delta : nat) (mid : list nat)
  {struct l} : sres :=
  match l with
  | [] => SMissing
  | i :: l' =>
    if (pos <? skip_to)%nat then scan T l' (S pos) skip_to delta mid
    else match i with
      | None => scan T l' (S pos) skip_to delta mid
      | Some c =>
        if str_in c (sblocks T) then scan T l' (S pos) skip_to (S delta) mid
        else if str_in c (middles T) then scan T l' (S pos) skip_to delta (mid ++ [pos])
        else if str_in c (eblocks T) && (0 <? delta)%nat then scan T l' (S pos) skip_to (delta - 1) mid
        else if str_in c (ends T) then SOk mid pos
        else if str_in c (starts T) then
          (* find_commands(..., Some(line + 1), Some(end_index), ...) *)
          match scan T l' (S pos) (S pos) 0 [] with
          | SOk _ e => scan T l' (S pos) (S e) delta mid
          | _ => SNested
          end
        else scan T l' (S pos) skip_to delta mid
      end
  end.

(* find_commands(instructions, starts, middles, ends, Some(start), None, true, sblocks, eblocks) *)
Definition find_commands (T : tables) (l : list (option str)) (start : nat) : sres :=
  match starts T, ends T with
  | [], _ => SNoNames
  | _, [] => SNoNames
  | _, _ => scan T (skipn start l) start start 0 []
  end.
