(* EvalSerIx.v — index-faithful model of duckscript_sdk/src/utils/eval.rs::parse and of what its
   callers (eval, eval_with_instructions, i.e. if / elseif / while / not / alias commands) do with
   the result, with explicit Panic outcomes.  Definitions only; proofs are in EvalSerIxProof.v.

   Partial operations.  The text assembly of eval::parse has none: `is_empty`, `starts_with`,
   `ends_with`, `contains`, `push`, `push_str` and `replace` are total, so [serialise] is DS.EvalSer's.
   What can unwind is
     * `instructions[0]` on the vector parse_text returns             ([nth_error] = None -> panic);
     * everything inside parser::parse_text (line_text[index], index -= 1, chars[0]): here the
       index-faithful DS.ParserIx.parse_text with its [ITPanic];
     * the second binding done by run_instruction -> bind_command_arguments -> expand_by_wrapper ->
       reparse_arguments: the index-faithful DS.ExpansionIx.bind_command_arguments_ix.
   [eval_parse_ix] is the private fn `parse` on ANY argument vector; its callers test
   `arguments.is_empty()` first, which is [eval_call_ix]. *)
Require Import DS.Base DS.Parser DS.ParserIx DS.Expansion DS.ExpansionIx DS.EvalSer.

Definition eval_parse_ix (arguments : list str) : parsed :=
  match ParserIx.parse_text (serialise arguments) with
  | ITOk instructions =>
    match nth_error instructions 0 with            (* instructions[0].clone() *)
    | Some i => ParsedOk (i_type i)
    | None => ParsePanic
    end
  | ITErr e _ _ => ParseErr e
  | ITPanic => ParsePanic
  end.

Definition eval_call_ix (variables : env) (arguments : list str) : call :=
  match arguments with
  | [] => NoCall                                   (* if arguments.is_empty() { Continue(None) } *)
  | _ =>
    match eval_parse_ix arguments with
    | ParsedOk (IScript label output (Some command) args) =>
      match bind_command_arguments_ix variables args with
      | BOk bound => Call label output command bound
      | BPanic => CallPanic
      end
    | ParsedOk _ => NoCall
    | ParseErr e => CallErr e
    | ParsePanic => CallPanic
    end
  end.
