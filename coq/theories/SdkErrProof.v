(* SdkErrProof.v — C10: errors are reported, positioned and survivable (or fatal when asked). *)
From stdpp Require Import gmap.
Require Import DS.Base DS.Cond DS.Runner DS.RunnerSpec DS.RunnerProof DS.SdkErr.
Local Open Scope nat_scope.

Definition calls_of (t : list event) : list call := concat (map e_calls t).

Lemma calls_of_snoc t pc ks : calls_of (t ++ [Event pc ks]) = calls_of t ++ ks.
Proof. unfold calls_of. rewrite map_app, concat_app. cbn. rewrite app_nil_r. reflexivity. Qed.

(* ---- an invariant of the command state along successful runs (any commands) --------------- *)
Section Inv.
Variable cstate : Type.
Variable exists_cmd : cstate -> str -> bool.
Variable cmd : str -> inv -> world cstate -> result * world cstate.
Variable ext : nat -> bool.
Variable prog : program.
Variable P : cstate -> list call -> Prop.
Hypothesis Pcmd : forall name a w r w' l,
  P (cst w) l -> exists_cmd (cst w) name = true -> cmd name a w = (r, w') -> (forall e, r <> Crash e) ->
  P (cst w') (l ++ [Call name a]).

Notation spec_step := (spec_step cstate exists_cmd cmd ext prog).
Notation spec_run := (spec_run cstate exists_cmd cmd ext prog).

Lemma assign_cst (w : world cstate) ov o : cst (assign cstate w ov o) = cst w.
Proof. destruct ov, o; reflexivity. Qed.

Lemma invokes_inv c i s k r w' :
  invokes cstate exists_cmd cmd ext prog c i s k r w' -> (forall e, r <> Crash e) ->
  P (cst (wd c)) (calls_of (trace c)) -> P (cst w') (calls_of (trace c) ++ [k]).
Proof.
  intros (_ & _ & name & _ & Hex & -> & Hc) Hr HP. cbn in Hc. eapply Pcmd; eauto.
Qed.

Lemma handled_inv w msg m h w' ks l :
  handled cstate exists_cmd cmd w msg m h w' ks -> survives h -> P (cst w) l -> P (cst w') (l ++ ks).
Proof.
  intros [E|r w2 a E -> Hc] Hs HP.
  - rewrite app_nil_r. exact HP.
  - eapply Pcmd; eauto. intros e ->. exact Hs.
Qed.

Lemma step_inv c x : spec_step c x -> P (cst (wd c)) (calls_of (trace c)) ->
  match x with
  | inl c' => P (cst (wd c')) (calls_of (trace c'))
  | inr (FOk _ w, t) => P (cst w) (calls_of t)
  | inr (FErr _ _, _) => True
  end.
Proof.
  intros H HP.
  destruct H as [Hh|Hh He Hlen|i Hat Hty|i s Hat Hty Hc|i s name Hat Hty Hc Hex
                |i s k o w' Hinv|i s k o l w' n Hinv Hl|i s k o l w' Hinv Hl|i s k o n w' Hinv
                |i s k o w' Hinv Hz|i s k v z w' Hinv Hp Hz
                |i s k e w' h w'' ks Hinv Hh Hs|i s k e w' o w'' ks Hinv Hh|i s k e w' e' w'' ks Hinv Hh
                |i s k e w' Hinv]; try exact I; try exact HP;
    unfold moves, logged; cbn [wd trace]; rewrite ?calls_of_snoc, ?app_nil_r, ?assign_cst; try exact HP.
  - eapply invokes_inv; eauto; discriminate.
  - eapply invokes_inv; eauto; discriminate.
  - eapply invokes_inv; eauto; discriminate.
  - eapply invokes_inv; eauto; discriminate.
  - change (k :: ks) with ([k] ++ ks). rewrite app_assoc. eapply handled_inv; eauto.
    rewrite assign_cst. eapply invokes_inv; eauto; discriminate.
Qed.

Theorem run_inv c r w t : spec_run c (FOk r w) t ->
  P (cst (wd c)) (calls_of (trace c)) -> P (cst w) (calls_of t).
Proof.
  remember (FOk r w) as f eqn:Ef. induction 1 as [c f t H|c c' f t H _ IH]; subst; intros HP.
  - exact (step_inv _ _ H HP).
  - apply IH; [reflexivity|]. exact (step_inv _ _ H HP).
Qed.
End Inv.

(* ---- the SDK's error commands --------------------------------------------------------------- *)
Section Sdk.
Variable ustate : Type.
Variable uexists : ustate -> str -> bool.
Variable ucmd : str -> inv -> world (estate ustate) -> result * world (estate ustate).
Variable ext : nat -> bool.
Variable prog : program.

Notation estate := (estate ustate).
Notation world := (world estate).
Notation sexists := (sdk_exists ustate uexists).
Notation scmd := (sdk_cmd ustate ucmd).
Notation stp := (step estate sexists scmd ext prog (label_table prog)).
Notation invokes := (invokes estate sexists scmd ext prog).

Lemma exit_on_some e l s b (u : ustate) : exit_on (EState e l s (Some b) u) = b.
Proof. destruct b; vm_compute; reflexivity. Qed.
Lemma exit_on_none e l s (u : ustate) : exit_on (EState e l s None u) = false.
Proof. reflexivity. Qed.

Lemma on_error_registered st : sexists st on_error_name = true.
Proof. reflexivity. Qed.

Lemma scmd_on_error a w : scmd on_error_name a w = run_on_error_cmd ustate a w.
Proof. reflexivity. Qed.

(* the arguments run_on_error_instruction builds *)
Definition report_inv (m : str) (mt : meta) : inv :=
  Inv [m; nat_str (default 0 (m_line mt)); default [] (m_src mt)] None 0.

(* C10_step, survivable half: exit_on_error off *)
Theorem error_step_continue c i s k m w' :
  invokes c i s k (Error m) w' -> exit_on (cst w') = false ->
  stp c = inl (Config (S (pc c))
                 (World (vars (assign estate w' (s_out s) (Some false_str)))
                        (EState (Some m) (Some (nat_str (default 0 (m_line (i_meta i)))))
                                (Some (default [] (m_src (i_meta i)))) (e_exit (cst w')) (e_user (cst w')))
                        (halt w'))
                 (S (polls c))
                 (trace c ++ [Event (pc c) [k; Call on_error_name (report_inv m (i_meta i))]])).
Proof.
  intros Hinv Hex. apply step_complete.
  pose proof (assign_cst estate w' (s_out s) (Some false_str)) as Hc1.
  assert (Hh1 : halt (assign estate w' (s_out s) (Some false_str)) = halt w').
  { unfold assign. destruct (s_out s); reflexivity. }
  assert (Hh : handled estate sexists scmd (assign estate w' (s_out s) (Some false_str)) m (i_meta i)
                 (Some (Continue (Some false_str)))
                 (World (vars (assign estate w' (s_out s) (Some false_str)))
                        (EState (Some m) (Some (nat_str (default 0 (m_line (i_meta i)))))
                                (Some (default [] (m_src (i_meta i)))) (e_exit (cst w')) (e_user (cst w')))
                        (halt w'))
                 [Call on_error_name (report_inv m (i_meta i))]).
  { eapply H_called; [reflexivity|reflexivity|].
    rewrite scmd_on_error. unfold run_on_error_cmd, set_cst. cbn [a_args]. rewrite Hc1, Hex, Hh1. reflexivity. }
  exact (S_error estate sexists scmd ext prog c i s k m w' _ _ _ Hinv Hh I).
Qed.

(* C10_step, fatal half: exit_on_error on *)
Theorem error_step_exit c i s k m w' :
  invokes c i s k (Error m) w' -> exit_on (cst w') = true ->
  stp c = inr (FErr (RHandlerCrash (Msg m)) (i_meta i),
               trace c ++ [Event (pc c) [k; Call on_error_name (report_inv m (i_meta i))]]).
Proof.
  intros Hinv Hex. apply step_complete.
  pose proof (assign_cst estate w' (s_out s) (Some false_str)) as Hc1.
  eapply S_error_crash; [exact Hinv|].
  eapply H_called; [reflexivity|reflexivity|].
  rewrite scmd_on_error. unfold run_on_error_cmd. cbn [a_args]. rewrite Hc1, Hex. reflexivity.
Qed.

(* the output variable of the failing instruction reads "false" afterwards *)
Lemma error_step_output (w' : world) v :
  vars (assign estate w' (Some v) (Some false_str)) !! v = Some false_str.
Proof. cbn. apply lookup_insert. Qed.

(* the three queries return the record; turning exit_on_error on / off / asking *)
Lemma query_error a w : scmd n_get_last_error a w = (Continue (e_error (cst w)), w).
Proof. reflexivity. Qed.
Lemma query_line a w : scmd n_get_last_error_line a w = (Continue (e_line (cst w)), w).
Proof. reflexivity. Qed.
Lemma query_source a w : scmd n_get_last_error_source a w = (Continue (e_source (cst w)), w).
Proof. reflexivity. Qed.
Lemma trigger_error_result a w :
  scmd n_trigger_error a w = (Error (match a_args a with m :: _ => m | [] => msg_error end), w).
Proof. reflexivity. Qed.
Lemma assert_error_result a w :
  scmd n_assert_error a w = (Error (match a_args a with m :: _ => m | [] => msg_assert_failed end), w).
Proof. reflexivity. Qed.
Lemma exit_on_error_set a w v rest : a_args a = v :: rest ->
  exists w', scmd n_exit_on_error a w = (Continue (Some (bool_str (is_true (Some v)))), w') /\
             exit_on (cst w') = is_true (Some v) /\ record (cst w') = record (cst w) /\ vars w' = vars w.
Proof.
  intros Ha.
  exists (set_cst w (EState (e_error (cst w)) (e_line (cst w)) (e_source (cst w)) (Some (is_true (Some v))) (e_user (cst w)))).
  split.
  - change (scmd n_exit_on_error a w) with (run_exit_on_error ustate a w).
    unfold run_exit_on_error. rewrite Ha. reflexivity.
  - split; [apply exit_on_some|split; reflexivity].
Qed.

(* ---- latest wins ----------------------------------------------------------------------------- *)
Hypothesis ucmd_frame : forall name a w r w',
  is_sdk name = false -> ucmd name a w = (r, w') -> record (cst w') = record (cst w).

Lemma scmd_record name a w r w' :
  scmd name a w = (r, w') -> (forall e, r <> Crash e) ->
  record (cst w') = record_after (record (cst w)) (Call name a).
Proof.
  unfold sdk_cmd, record_after. cbn [c_name c_inv].
  destruct (str_eqb name on_error_name) eqn:E1.
  { unfold run_on_error_cmd. destruct (a_args a) as [|e rest].
    - intros [= <- <-] H. exfalso. eapply H; reflexivity.
    - destruct (exit_on (cst w)).
      + intros [= <- <-] H. exfalso. eapply H; reflexivity.
      + intros [= <- <-] _. reflexivity. }
  destruct (str_eqb name n_exit_on_error || str_eqb name n_set_exit_on_error) eqn:E2.
  { assert (str_eqb name n_set_error = false) as ->.
    { apply str_eqb_neq. intros ->. vm_compute in E2. discriminate. }
    unfold run_exit_on_error. destruct (a_args a); intros [= <- <-] _; reflexivity. }
  destruct (str_eqb name n_get_last_error) eqn:E3.
  { apply str_eqb_eq in E3. subst name. intros [= <- <-] _. reflexivity. }
  destruct (str_eqb name n_get_last_error_line) eqn:E4.
  { apply str_eqb_eq in E4. subst name. intros [= <- <-] _. reflexivity. }
  destruct (str_eqb name n_get_last_error_source) eqn:E5.
  { apply str_eqb_eq in E5. subst name. intros [= <- <-] _. reflexivity. }
  destruct (str_eqb name n_set_error) eqn:E6.
  { unfold run_set_error. destruct (a_args a); intros [= <- <-] _; reflexivity. }
  destruct (str_eqb name n_trigger_error) eqn:E7.
  { intros [= <- <-] _. reflexivity. }
  destruct (str_eqb name n_assert_error) eqn:E8.
  { intros [= <- <-] _. reflexivity. }
  intros Hu _. eapply ucmd_frame; [|exact Hu].
  unfold is_sdk, str_in, sdk_names. cbn [existsb].
  apply orb_false_elim in E2. destruct E2 as [E2a E2b].
  rewrite E1, E2a, E2b, E3, E4, E5, E6, E7, E8. reflexivity.
Qed.

Theorem record_is_fold (w : world) r w' t :
  spec_program estate sexists scmd ext prog w (FOk r w') t ->
  record (cst w') = fold_left record_after (calls_of t) (record (cst w)).
Proof.
  intros H.
  apply (run_inv estate sexists scmd ext prog
           (fun st l => record st = fold_left record_after l (record (cst w)))) in H.
  - exact H.
  - intros name a w1 r1 w1' l HP _ Hc Hr. rewrite fold_left_app. cbn [fold_left]. rewrite <- HP.
    eapply scmd_record; eauto.
  - reflexivity.
Qed.

Definition touches_record (k : call) : bool :=
  str_eqb (c_name k) on_error_name || str_eqb (c_name k) n_set_error.

Lemma fold_untouched l : forall r, forallb (fun k => negb (touches_record k)) l = true ->
  fold_left record_after l r = r.
Proof.
  induction l as [|k l IH]; intros r; [reflexivity|]. cbn [forallb fold_left].
  intros H. apply andb_prop in H. destruct H as [Hk Hl]. rewrite IH by exact Hl.
  unfold touches_record in Hk. apply negb_true_iff, orb_false_elim in Hk. destruct Hk as [H1 H2].
  unfold record_after. rewrite H1, H2. reflexivity.
Qed.

(* the record after a successful run is that of the last reported error *)
Theorem latest_wins (w : world) r w' t l1 l2 m ln src o n :
  spec_program estate sexists scmd ext prog w (FOk r w') t ->
  calls_of t = l1 ++ Call on_error_name (Inv [m; ln; src] o n) :: l2 ->
  forallb (fun k => negb (touches_record k)) l2 = true ->
  record (cst w') = (Some m, Some ln, Some src).
Proof.
  intros H Ht Hl2. rewrite (record_is_fold _ _ _ _ H), Ht, fold_left_app. cbn [fold_left].
  rewrite fold_untouched by exact Hl2. reflexivity.
Qed.

End Sdk.

(* ---- script-implemented commands ------------------------------------------------------------- *)
Section AliasProof.
Variable cstate : Type.
Variable exists_cmd : cstate -> str -> bool.
Variable cmd : str -> inv -> world cstate -> result * world cstate.
Variable prepare : list str -> world cstate -> world cstate.
Variable cleanup : world cstate -> world cstate -> world cstate.
Variable leaked : world cstate -> world cstate -> bool.

Notation eval := (eval_instructions cstate exists_cmd cmd).
Notation alias_run := (alias_run cstate exists_cmd cmd prepare cleanup leaked).

(* the body's own control flow: continue and goto-line results move on, everything else ends it *)
Inductive body_reaches (body : program) : nat -> world cstate -> nat -> world cstate -> Prop :=
| BR_here line w : body_reaches body line w line w
| BR_skip line w i line' w' :
    body !! line = Some i -> (forall s, i_type i <> IScript s) ->
    body_reaches body (S line) w line' w' -> body_reaches body line w line' w'
| BR_continue line w i s out line' w' :
    body !! line = Some i -> i_type i = IScript s ->
    ri_res (run_instruction cstate exists_cmd cmd w i line) = Continue out ->
    body_reaches body (S line) (update_output (ri_w (run_instruction cstate exists_cmd cmd w i line)) (s_out s) out) line' w' ->
    body_reaches body line w line' w'
| BR_goto line w i s out n line' w' :
    body !! line = Some i -> i_type i = IScript s ->
    ri_res (run_instruction cstate exists_cmd cmd w i line) = GoTo out (GLine n) ->
    body_reaches body n (ri_w (run_instruction cstate exists_cmd cmd w i line)) line' w' ->
    body_reaches body line w line' w'.

(* if the body's flow reaches an instruction whose command answers Error m, the evaluation of the
   body ends there with Error m (no on_error call, no "false" stored, the inner line is not kept) *)
Lemma eval_error_surfaces body line w j wj :
  body_reaches body line w j wj ->
  forall i s m, body !! j = Some i -> i_type i = IScript s ->
  ri_res (run_instruction cstate exists_cmd cmd wj i j) = Error m ->
  exists fuel, forall fo calls, exists fo' calls',
    eval fuel body line w fo calls =
    Some (EO cstate (Some (Error m)) fo' (ri_w (run_instruction cstate exists_cmd cmd wj i j)) calls').
Proof.
  induction 1 as [line w|line w i0 line' w' Hi0 Hns _ IH|line w i0 s0 out line' w' Hi0 Hs0 Hr0 _ IH
                 |line w i0 s0 out n line' w' Hi0 Hs0 Hr0 _ IH]; intros i s m Hi Hs Hr.
  - exists 1. intros fo calls. cbn [eval_instructions]. rewrite Hi, Hs, Hr. eauto.
  - destruct (IH _ _ _ Hi Hs Hr) as (fuel & Hf). exists (S fuel). intros fo calls.
    cbn [eval_instructions]. rewrite Hi0.
    destruct (i_type i0) as [| |s1] eqn:Et; try apply Hf. exfalso. eapply Hns; eauto.
  - destruct (IH _ _ _ Hi Hs Hr) as (fuel & Hf). exists (S fuel). intros fo calls.
    cbn [eval_instructions]. rewrite Hi0, Hs0, Hr0. apply Hf.
  - destruct (IH _ _ _ Hi Hs Hr) as (fuel & Hf). exists (S fuel). intros fo calls.
    cbn [eval_instructions]. rewrite Hi0, Hs0, Hr0. apply Hf.
Qed.

(* ... and the wrapper hands exactly that error to the caller *)
Theorem alias_error_surfaces fuel amount body a w o m :
  amount <= length (a_args a) ->
  eval fuel body 0 (prepare (a_args a) w) None [] = Some o -> eo_result cstate o = Some (Error m) ->
  leaked w (cleanup w (eo_w cstate o)) = false ->
  alias_run fuel amount body a w = Some (Error m, cleanup w (eo_w cstate o), eo_calls cstate o).
Proof.
  intros Hlen He Hr Hl. unfold SdkErr.alias_run.
  destruct (Nat.ltb_spec (length (a_args a)) amount); [lia|].
  rewrite He, Hl, Hr. reflexivity.
Qed.
End AliasProof.

(* ---- C10_alias: an error inside a script-implemented command is the caller's error ------------ *)
Section AliasAtCaller.
Variable ustate : Type.
Variable uexists : ustate -> str -> bool.
Variable ucmd : str -> inv -> world (estate ustate) -> result * world (estate ustate).
Variable ext : nat -> bool.
Variable prog : program.
Variable prepare : list str -> world (estate ustate) -> world (estate ustate).
Variable cleanup : world (estate ustate) -> world (estate ustate) -> world (estate ustate).
Variable leaked : world (estate ustate) -> world (estate ustate) -> bool.

Notation estate := (estate ustate).
Notation sexists := (sdk_exists ustate uexists).
Notation scmd := (sdk_cmd ustate ucmd).

Theorem alias_error_at_caller c i s k r w' fuel amount body calls o m :
  invokes estate sexists scmd ext prog c i s k r w' ->
  (* the invoked command is script-implemented: its answer is the wrapper's, run over the same commands *)
  alias_run estate sexists scmd prepare cleanup leaked fuel amount body (c_inv k) (wd c) = Some (r, w', calls) ->
  amount <= length (a_args (c_inv k)) ->
  (* the body's flow ends in an error (see eval_error_surfaces) and the leak test passes *)
  eval_instructions estate sexists scmd fuel body 0 (prepare (a_args (c_inv k)) (wd c)) None [] = Some o ->
  eo_result estate o = Some (Error m) -> leaked (wd c) (cleanup (wd c) (eo_w estate o)) = false ->
  r = Error m /\
  (exit_on (cst w') = false ->
   step estate sexists scmd ext prog (label_table prog) c =
   inl (Config (S (pc c))
          (World (vars (assign estate w' (s_out s) (Some false_str)))
                 (EState (Some m) (Some (nat_str (default 0 (m_line (i_meta i)))))
                         (Some (default [] (m_src (i_meta i)))) (e_exit (cst w')) (e_user (cst w')))
                 (halt w'))
          (S (polls c))
          (trace c ++ [Event (pc c) [k; Call on_error_name (report_inv m (i_meta i))]]))) /\
  (exit_on (cst w') = true ->
   step estate sexists scmd ext prog (label_table prog) c =
   inr (FErr (RHandlerCrash (Msg m)) (i_meta i),
        trace c ++ [Event (pc c) [k; Call on_error_name (report_inv m (i_meta i))]])).
Proof.
  intros Hinv Hal Hlen He Hr Hl.
  rewrite (alias_error_surfaces estate sexists scmd prepare cleanup leaked _ _ _ _ _ _ _ Hlen He Hr Hl) in Hal.
  injection Hal as <- <- <-. split; [reflexivity|]. split; intros Hex.
  - eapply error_step_continue; eauto.
  - eapply error_step_exit; eauto.
Qed.
End AliasAtCaller.
