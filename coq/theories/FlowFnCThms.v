(* FlowFnCThms.v — C05_sim_cond: whole-program simulation for well-formed programs with calls in
   condition position outside KnownF6 ([cond_sim]), from the frame lemma of FlowFnCSim.v.
   The definitions prelude runs as in FlowFnRecThms.v (on the erased program); the boolean side
   conditions [wf_cprog] and [cknown_f6 = false] give the propositional hypotheses (completeness
   of the bounded reachability [creach], which counts condition-position calls, as in
   FlowFnReach.v). *)
Require Import DS.Base DS.Cond DS.FlowTables DS.FlowTablesWf DS.FlowScan DS.Flow DS.FlowTree DS.FlowScanProof
  DS.FlowLemmas DS.FlowFrame DS.FlowFn DS.FlowFnTree DS.FlowFnDom DS.FlowFnScan DS.FlowFnLemmas DS.FlowFnSim
  DS.FlowFnSites DS.FlowFnThms DS.FlowFnRec DS.FlowFnRecThms DS.FlowFnReach DS.FlowFnFinal
  DS.FlowFnC DS.FlowFnCTree DS.FlowFnCErase DS.FlowFnCRuns DS.FlowFnCSim.
From Coq Require ListDec.
Require Import DSG.GenFlowNames DSG.GenFnNames.
Open Scope nat_scope.

(* ---- completeness of [creach] -------------------------------------------------------------------------- *)
Lemma find_cdef_In f ds : forall d, find_cdef f ds = Some d -> In d ds.
Proof.
  induction ds as [|d0 r IH]; intros d H; cbn in H; [discriminate|].
  destruct (str_eqb f (cd_name d0)); [inversion H; now left|right; auto].
Qed.

Section CPaths.
Variable cp : cprog.
Let ds := cp_defs cp.

Fixpoint cpath (f : str) (l : list str) (h : str) : Prop :=
  match l with
  | [] => f = h
  | x :: l' => x = f /\ exists f', ccalls_rel cp f f' /\ cpath f' l' h
  end.
Lemma creach_path f h : CReach cp f h -> exists l, cpath f l h.
Proof.
  induction 1 as [f|f f' h Hc _ (l & IH)].
  - exists []. reflexivity.
  - exists (f :: l). cbn. eauto.
Qed.
Lemma cpath_split l1 : forall f a l2 h, cpath f (l1 ++ a :: l2) h -> cpath f l1 a /\ cpath a (a :: l2) h.
Proof.
  induction l1 as [|x l1 IH]; intros f a l2 h H; cbn [app] in H.
  - destruct H as (-> & H). split; [reflexivity|]. cbn. auto.
  - destruct H as (-> & f' & Hc & H). destruct (IH _ _ _ _ H) as (H1 & H2).
    split; [|exact H2]. cbn. eauto.
Qed.
Lemma cpath_join l1 : forall f a l2 h, cpath f l1 a -> cpath a l2 h -> cpath f (l1 ++ l2) h.
Proof.
  induction l1 as [|x l1 IH]; intros f a l2 h H1 H2; cbn in H1.
  - now subst.
  - destruct H1 as (-> & f' & Hc & H1). cbn. split; [reflexivity|]. exists f'. split; [exact Hc|]. eapply IH; eauto.
Qed.
Lemma cpath_callers f l h : cpath f l h -> forall x, In x l -> In x (map cd_name ds).
Proof.
  revert f. induction l as [|y l IH]; intros f H x Hx; [contradiction|].
  destruct H as (-> & f' & (d & Hd & _) & H). destruct Hx as [<-|Hx]; [|eauto].
  rewrite <- (find_cdef_name _ _ _ Hd). apply in_map. eapply find_cdef_In; eauto.
Qed.
Lemma cpath_short : forall n f l h, length l <= n -> cpath f l h ->
  exists l', cpath f l' h /\ length l' <= length ds.
Proof.
  induction n as [|n IH]; intros f l h Hl H.
  - destruct l; [|cbn in Hl; lia]. exists []. split; [exact H|cbn; lia].
  - destruct (ListDec.NoDup_dec (fun a b => Bool.reflect_dec _ _ (str_eqb_spec a b)) l) as [Hnd|Hd].
    + exists l. split; [exact H|]. rewrite <- (map_length cd_name ds).
      apply NoDup_incl_length; [exact Hnd|]. intros x Hx. eapply cpath_callers; eauto.
    + destruct (dup_split l Hd) as (a & l1 & l2 & l3 & ->).
      destruct (cpath_split _ _ _ _ _ H) as (H1 & H2).
      change (a :: l2 ++ a :: l3) with ((a :: l2) ++ a :: l3) in H2.
      destruct (cpath_split _ _ _ _ _ H2) as (_ & H3).
      apply (IH f (l1 ++ a :: l3) h).
      * rewrite !app_length in *. cbn [length] in *. rewrite app_length in Hl. cbn [length] in Hl. lia.
      * eapply cpath_join; eauto.
Qed.
Lemma creach_incl : forall n fs, incl fs (creach n ds fs).
Proof.
  induction n as [|n IH]; intros fs; cbn [creach]; [apply incl_refl|].
  eapply incl_tran; [|apply IH]. apply incl_appl. apply incl_refl.
Qed.
Lemma creach_path_in : forall n fs f l h, In f fs -> cpath f l h -> length l <= n -> In h (creach n ds fs).
Proof.
  induction n as [|n IH]; intros fs f l h Hf H Hl.
  - destruct l; [|cbn in Hl; lia]. cbn in H. subst. exact Hf.
  - destruct l as [|x l].
    + cbn in H. subst. apply creach_incl. exact Hf.
    + destruct H as (-> & f' & (d & Hd & Hin) & H). cbn [creach].
      apply (IH _ f' l h); [|exact H|cbn in Hl; lia].
      apply in_or_app. right. apply in_flat_map. exists f. split; [exact Hf|]. fold ds in Hd. rewrite Hd. exact Hin.
Qed.
Theorem creach_complete fs f h : In f fs -> CReach cp f h -> In h (creach (length ds) ds fs).
Proof.
  intros Hf Hr. destruct (creach_path f h Hr) as (l & Hl).
  destruct (cpath_short (length l) f l h (le_n _) Hl) as (l' & Hl' & Hlen).
  eapply creach_path_in; eauto.
Qed.
End CPaths.

(* ---- boolean well-formedness -> propositional -------------------------------------------------------- *)
Lemma cond_ok_pkc names (callable : str -> Prop) :
  (forall f, In f names -> callable f /\ free_name f = true) ->
  forall c, FlowFnCTree.cond_ok names c = true -> pkc callable c.
Proof.
  intros Hc. induction c as [c'|f args|c' IH]; cbn [FlowFnCTree.cond_ok pkc]; intros H; [exact I| |auto].
  apply andb_prop in H; destruct H as [H1 H3]. apply str_in_spec in H1. apply Nat.leb_le in H3.
  destruct (Hc f H1) as (A & B). auto.
Qed.
Lemma wks_pks names (callable : str -> Prop) infn :
  (forall f, In f names -> callable f /\ free_name f = true) ->
  (forall s, wks names infn s = true -> pks callable infn s) /\
  (forall b, wkb names infn b = true -> pkb callable infn b) /\
  (forall els, wke names infn els = true -> pke callable infn els).
Proof.
  intros Hc. pose proof (cond_ok_pkc names callable Hc) as Hcc. apply csyntax_ind.
  - intros p _. exact I.
  - intros sp c b IHb els IHe e H. cbn [wks] in H.
    apply andb_prop in H; destruct H as [H H5]. apply andb_prop in H; destruct H as [H H4].
    apply andb_prop in H; destruct H as [H H3].
    apply andb_prop in H; destruct H as [H1 H2]. apply str_in_spec in H1. apply str_in_spec in H2.
    exact (conj H1 (conj H2 (conj (Hcc c H3) (conj (IHb H4) (IHe H5))))).
  - intros sp c b IHb e H. cbn [wks] in H.
    apply andb_prop in H; destruct H as [H H4]. apply andb_prop in H; destruct H as [H H3].
    apply andb_prop in H; destruct H as [H1 H2].
    apply str_in_spec in H1. apply str_in_spec in H2. exact (conj H1 (conj H2 (conj (Hcc c H3) (IHb H4)))).
  - intros sp x hv b IHb e H. cbn [wks] in H.
    apply andb_prop in H; destruct H as [H H3]. apply andb_prop in H; destruct H as [H1 H2].
    apply str_in_spec in H1. apply str_in_spec in H2. exact (conj H1 (conj H2 (IHb H3))).
  - intros out f args H. cbn [wks] in H. apply andb_prop in H; destruct H as [H1 H3].
    apply str_in_spec in H1. apply Nat.leb_le in H3. destruct (Hc f H1) as (A & B).
    exact (conj A (conj B H3)).
  - intros sp a H. cbn [wks] in H. apply andb_prop in H; destruct H as [H1 H2].
    apply str_in_spec in H2. exact (conj H1 H2).
  - intros _. exact I.
  - intros s IHs b IHb H. cbn [wkb] in H. apply andb_prop in H; destruct H as [H1 H2]. exact (conj (IHs H1) (IHb H2)).
  - intros _. exact I.
  - intros sp c b IHb r IHr H. cbn [wke] in H.
    apply andb_prop in H; destruct H as [H H4]. apply andb_prop in H; destruct H as [H H3].
    apply andb_prop in H; destruct H as [H1 H2].
    apply str_in_spec in H1. exact (conj H1 (conj (Hcc c H2) (conj (IHb H3) (IHr H4)))).
  - intros sp b IHb H. cbn [wke] in H. apply andb_prop in H; destruct H as [H1 H2].
    apply str_in_spec in H1. exact (conj H1 (IHb H2)).
Qed.
(* outside functions there is no return at all *)
Lemma wk_no_return names :
  (forall s, wks names false s = true -> khas_return_s s = false /\ forall B, In B (kfor_bodies_s s) -> khas_return_b B = false) /\
  (forall b, wkb names false b = true -> khas_return_b b = false /\ forall B, In B (kfor_bodies_b b) -> khas_return_b B = false) /\
  (forall els, wke names false els = true -> khas_return_e els = false /\ forall B, In B (kfor_bodies_e els) -> khas_return_b B = false).
Proof.
  apply csyntax_ind; cbn [wks wkb wke khas_return_s khas_return_b khas_return_e kfor_bodies_s kfor_bodies_b kfor_bodies_e].
  - intros p _. split; [reflexivity|intros B []].
  - intros sp c b IHb els IHe e H.
    apply andb_prop in H; destruct H as [H H4]. apply andb_prop in H; destruct H as [H H3].
    destruct (IHb H3) as (A1 & A2). destruct (IHe H4) as (B1 & B2). rewrite A1, B1. split; [reflexivity|].
    intros B HB. apply in_app_or in HB. destruct HB; auto.
  - intros sp c b IHb e H. apply andb_prop in H; destruct H as [H H3]. exact (IHb H3).
  - intros sp x hv b IHb e H. apply andb_prop in H; destruct H as [H H3]. destruct (IHb H3) as (A1 & A2).
    split; [exact A1|]. intros B [<-|HB]; auto.
  - intros out f args _. split; [reflexivity|intros B []].
  - intros sp a H. discriminate.
  - intros _. split; [reflexivity|intros B []].
  - intros s IHs b IHb H. apply andb_prop in H; destruct H as [H1 H2].
    destruct (IHs H1) as (A1 & A2). destruct (IHb H2) as (B1 & B2). rewrite A1, B1. split; [reflexivity|].
    intros B HB. apply in_app_or in HB. destruct HB; auto.
  - intros _. split; [reflexivity|intros B []].
  - intros sp c b IHb r IHr H. apply andb_prop in H; destruct H as [H H3]. apply andb_prop in H; destruct H as [H H2].
    destruct (IHb H2) as (A1 & A2). destruct (IHr H3) as (B1 & B2). rewrite A1, B1. split; [reflexivity|].
    intros B HB. apply in_app_or in HB. destruct HB; auto.
  - intros sp b IHb H. apply andb_prop in H; destruct H as [H1 H2]. exact (IHb H2).
Qed.

(* ---- the whole program ----------------------------------------------------------------------------------- *)
Section CMain.
Variable cp : cprog.
Hypothesis TW : tables_wf = true.
Let cds := cp_defs cp.
Let pr := er_prog cp.
Let ds := p_defs pr.
Let P := compile_cprog cp.
Let P' := compile_prog pr.
Let M := length (gdefs ds).

Hypothesis Hdist : distinct (map cd_name cds) = true.
Hypothesis Hcwf : forall cd s, CDefAt cp cd s ->
  In (cd_sp cd) n_function /\ In (cd_end cd) fn_closers /\
  pkb (ccallable cp) true (cd_body cd) /\ nfr_b (er_b (cd_body cd)) = true /\ find_cdef (cd_name cd) cds = Some cd.
Hypothesis HnoF6 : forall cd s, CDefAt cp cd s -> forall B, In B (kfor_bodies_b (cd_body cd)) ->
  khas_return_b B = false /\ forall f', In f' (kcalls_b B) -> ~ CReach cp f' (cd_name cd).
Hypothesis Hmain : pkb (ccallable cp) false (cp_main cp) /\ nfr_b (er_b (cp_main cp)) = true.

Lemma DefAt_CDefAt d s : DefAt pr d s -> exists cd, d = er_def cd /\ CDefAt cp cd s.
Proof.
  unfold DefAt, pr, er_prog. cbn [p_defs]. rewrite er_layout. intros H. apply in_map_iff in H.
  destruct H as ([cd s'] & E & Hin). cbn [fst snd] in E. inversion E; subst. exists cd. auto.
Qed.
Lemma Hwf_er : forall d s, DefAt pr d s ->
  In (fd_sp d) n_function /\ In (fd_end d) fn_closers /\
  pgb (callable pr) true (fd_body d) /\ nfr_b (fd_body d) = true /\ find_def (fd_name d) (p_defs pr) = Some d.
Proof.
  intros d s Hd. destruct (DefAt_CDefAt d s Hd) as (cd & -> & Hcd).
  destruct (Hcwf cd s Hcd) as (A & B & C & D & E).
  split; [exact A|]. split; [exact B|]. split; [apply (pk_pg_b cp true _ C)|]. split; [exact D|].
  unfold pr, er_prog. cbn [p_defs er_def fd_name]. fold cds. now rewrite er_find_def, E.
Qed.

Lemma cprelude_runs : forall todo s0 w o f g,
  (forall cd s, In (cd, s) (clayout todo s0) -> CDefAt cp cd s) ->
  distinct (map cd_name todo) = true ->
  (forall name, In name (map cd_name todo) -> aget str_eqb name (fs_meta g) = None) ->
  exists o', cruns false P (s0, o, (w, f, g))
    (s0 + length (gdefs (map er_def todo)), o',
     (w, fst (reg (map er_def todo) s0 f g), snd (reg (map er_def todo) s0 f g))).
Proof.
  induction todo as [|cd r IH]; intros s0 w o f g Hall Hd Hnone; cbn [map gdefs reg length].
  - rewrite Nat.add_0_r. exists o. apply cruns_refl.
  - cbn [map distinct] in Hd. apply andb_prop in Hd. destruct Hd as [Hfresh Hd]. apply negb_true_iff in Hfresh.
    rewrite app_length, Nat.add_assoc.
    assert (Hcd : CDefAt cp cd s0) by (apply Hall; now left).
    pose proof (fn_step2 pr Hwf_er (er_def cd) s0 w f g (CDefAt_DefAt cp cd s0 Hcd)) as St.
    cbn [er_def fd_name] in St. specialize (St (Hnone _ (or_introl eq_refl))).
    pose proof (CDefAt_placed cp cd s0 Hcd) as Hp. unfold kdef in Hp. apply fplaced_nth in Hp.
    destruct (IH (s0 + length (gdef (er_def cd))) w None
                 (end_set (d_end (er_def cd) s0) gen_endfunction_name f)
                 (mkFS (aset str_eqb (cd_name cd) (mkFM s0 (d_end (er_def cd) s0) (cd_scoped cd)) (fs_meta g)) (fs_stk g) (fs_scopes g)))
      as (o' & R).
    + intros cd' s' Hin. apply Hall. right. rewrite er_gdef, map_length in Hin. exact Hin.
    + exact Hd.
    + intros name Hin. cbn [fs_meta]. rewrite aget_aset_str_other.
      * apply Hnone. now right.
      * intros ->. apply str_in_spec in Hin. congruence.
    + exists o'. eapply cruns_trans; [|exact R].
      apply (plain_runs cp false s0 _ o _ _ _ Hp I St).
Qed.

Theorem cond_sim_prop : forall n w w', cprog_run n cp w = FOk w' ->
  exists fuel efuel f' g',
    (forall k e, fuel <= k -> efuel <= e -> crun_program k e P w = FDone (w', f', g')) /\
    f_forstk f' = [] /\ fs_stk g' = [] /\ fs_scopes g' = [].
Proof.
  intros n w w' Hrun. destruct Hmain as (Hwm & Hnfr).
  assert (Hdist' : distinct (map fd_name ds) = true).
  { unfold ds, pr, er_prog. cbn [p_defs]. fold cds. now rewrite er_names. }
  set (r := reg ds 0 flow0 fnst0).
  destruct (cprelude_runs cds 0 w None flow0 fnst0) as (o1 & Rpre); auto.
  change (map er_def cds) with ds in Rpre. fold M in Rpre. fold r in Rpre. cbn [Nat.add] in Rpre.
  destruct (reg_props ds 0 flow0 fnst0) as (A1 & A2 & A3 & A4 & A5 & A6 & A7 & A8 & _ & _).
  fold r in A1, A2, A3, A4, A5, A6, A7, A8.
  assert (HG : Good pr (fst r)).
  { split; [unfold Inv; rewrite A1, A2, A3; apply Inv_flow0|]. rewrite A4, A5. split; [constructor|]. split; [constructor|].
    split.
    - intros L nm HL. apply (reg_end_only ds 0 flow0 fnst0) in HL. destruct HL as [HL|(d & s & Hd & -> & ->)]; [discriminate|].
      exists (mkSite None s (d_end d s) []). split; [apply (def_site_in pr d s Hd); now left|]. auto.
    - intros d s Hd. unfold r. rewrite (proj2 (reg_defs ds 0 flow0 fnst0 Hdist' d s Hd)). discriminate. }
  assert (HF : FnInv pr (snd r)).
  { intros d s Hd. apply (reg_defs ds 0 flow0 fnst0 Hdist' d s Hd). }
  destruct (csim_all cp TW Hcwf HnoF6 n) as (_ & Hb & _).
  assert (HM : M = length (kdefs cds)).
  { unfold M, ds, pr, er_prog. cbn [p_defs]. fold cds. now rewrite er_gdefs, map_length. }
  assert (Hpm : fplaced P M (kb (cp_main cp))).
  { exists (kdefs cds), []. split; [unfold P, compile_cprog; now rewrite app_nil_r|now rewrite HM]. }
  assert (Hready : cready cp OMain false (kcalls_b (cp_main cp)) (kfor_bodies_b (cp_main cp))
                          (sites_b (er_b (cp_main cp)) M) M (M + length (gb (er_b (cp_main cp)))) (fst r) (snd r)).
  { split; [exact HG|]. split; [exact HF|]. split; [intros Hc; discriminate|].
    split; [unfold prog_sites; apply incl_appr; apply incl_refl|]. split; [exact I|]. split.
    - intros l Hl. change (M <= l). lia.
    - exists [], []. split; [rewrite A6; reflexivity|]. split; [constructor|]. split; [constructor|].
      split; [congruence|]. split; [|exact I].
      intros B HB. split; [eapply (proj1 (proj2 nfr_kbodies)); eauto|]. intros f' _ []. }
  pose proof (Hb false OMain false (cp_main cp) w o1 M (fst r) (snd r) Hwm Hnfr Hpm Hready) as Hpost.
  unfold cprog_run in Hrun.
  match type of Hpost with cpost _ _ _ _ _ _ ?r => change r with (xb (cp_defs cp) n false (cp_main cp) w) in Hpost end.
  rewrite Hrun in Hpost. cbn [cpost] in Hpost.
  destruct Hpost as (o2 & f' & R' & G' & F').
  destruct (cruns_trans false P _ _ _ Rpre R') as (k & m & Hm).
  exists (S m), k, f', (snd r). split; [|split; [|split]].
  - intros fuel e Hk He. unfold crun_program.
    eapply (crun_of_csteps P k m 0 None (w, flow0, fnst0) _ o2 (w', f', snd r) Hm); [|lia|exact He].
    apply nth_error_None. unfold P, compile_cprog. fold cds. rewrite app_length, <- HM, er_len_b. lia.
  - rewrite (hf_for _ _ F'). exact A6.
  - exact A7.
  - exact A8.
Qed.
End CMain.

(* ---- from the boolean side conditions --------------------------------------------------------------------- *)
Theorem cond_sim p : tables_wf = true -> wf_cprog p = true -> cknown_f6 p = false ->
  forall n w w', cprog_run n p w = FOk w' ->
  exists fuel efuel f' g',
    (forall k e, fuel <= k -> efuel <= e -> crun_program k e (compile_cprog p) w = FDone (w', f', g')) /\
    f_forstk f' = [] /\ fs_stk g' = [] /\ fs_scopes g' = [].
Proof.
  intros TW Hwf Hk6.
  unfold wf_cprog in Hwf. apply andb_prop in Hwf. destruct Hwf as [Hwf Hmain].
  apply andb_prop in Hwf. destruct Hwf as [Hdist Hdefs]. rewrite forallb_forall in Hdefs.
  set (ds := cp_defs p) in *. set (names := map cd_name ds) in *.
  assert (Hnames : forall f, In f names -> ccallable p f /\ free_name f = true).
  { intros f Hf. split.
    - destruct (find_in_clayout ds 0 f Hf) as (d' & s' & A & B). exists d', s'. auto.
    - apply in_map_iff in Hf. destruct Hf as (d & <- & Hd). specialize (Hdefs d Hd). unfold wf_cdef in Hdefs.
      apply andb_prop in Hdefs; destruct Hdefs as [H _]. apply andb_prop in H; destruct H as [_ H].
      apply negb_true_iff in H. now apply not_reserved_free. }
  assert (Hk : forall d, In d ds -> forall B, In B (kfor_bodies_b (cd_body d)) ->
               khas_return_b B = false /\ str_in (cd_name d) (creach (length ds) ds (kcalls_b B)) = false).
  { intros d Hd B HB. unfold cknown_f6 in Hk6. fold ds in Hk6.
    pose proof (existsb_false _ _ Hk6 d Hd) as H. cbv beta in H. apply orb_false_elim in H. destruct H as [H1 H2].
    split; [exact (existsb_false _ _ H1 B HB)|exact (existsb_false _ _ H2 B HB)]. }
  apply cond_sim_prop; auto.
  - intros d s Hd. pose proof (clayout_In _ _ _ _ Hd) as Hin. specialize (Hdefs d Hin). unfold wf_cdef in Hdefs.
    apply andb_prop in Hdefs; destruct Hdefs as [H Hb]. apply andb_prop in H; destruct H as [H _].
    apply andb_prop in H; destruct H as [H1 H2]. apply str_in_spec in H1. apply str_in_spec in H2.
    split; [exact H1|]. split; [exact H2|]. split; [|split].
    + apply (proj1 (proj2 (wks_pks names (ccallable p) true Hnames))). exact Hb.
    + apply (proj1 (proj2 nfr_of_kbodies)). intros B HB. apply (Hk d Hin B HB).
    + apply distinct_find_c; auto.
  - intros d s Hd B HB. pose proof (clayout_In _ _ _ _ Hd) as Hin. destruct (Hk d Hin B HB) as (H1 & H2).
    split; [exact H1|]. intros f' Hf' Hr.
    assert (Hc : In (cd_name d) (creach (length ds) ds (kcalls_b B))) by (eapply (creach_complete p); eauto).
    apply str_in_spec in Hc. congruence.
  - split.
    + apply (proj1 (proj2 (wks_pks names (ccallable p) false Hnames))). exact Hmain.
    + apply (proj1 (proj2 nfr_of_kbodies)). apply (proj1 (proj2 (wk_no_return names))). exact Hmain.
Qed.
