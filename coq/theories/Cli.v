(* Cli.v — model of duckscript_cli/src/main.rs (run_cli, main) and linter.rs.  Definitions only.

   [args] is argv WITHOUT the program name (the Rust code tests args.len() < 2 and looks at
   args[1], args[2] of the full vector).  What the library decides enters as Section variables:
   the result of running a file / a text / the REPL, and the result of parser::parse_file.
   Case mapping: [lower_str] is ASCII lower-casing; Rust's to_lowercase is the Unicode mapping.
   The lint rule compares `text.to_lowercase() == text`; the model is exact for names made of
   ASCII characters (assumption checked exhaustively for the 128 ASCII characters by the harness
   on every run); names with non-ASCII characters are outside the domain of C20_lint. *)
Require Import DS.Base DS.Parser.

Definition s_version : str := [45;45;118;101;114;115;105;111;110].  (* --version *)
Definition s_help : str := [45;45;104;101;108;112].                  (* --help *)
Definition s_h : str := [45;104].                                    (* -h *)
Definition s_e : str := [45;101].                                    (* -e *)
Definition s_eval : str := [45;45;101;118;97;108].                   (* --eval *)
Definition s_l : str := [45;108].                                    (* -l *)
Definition s_lint : str := [45;45;108;105;110;116].                  (* --lint *)

Inductive action :=
| ARepl
| AVersion
| AHelp
| ARunFile (file : str)
| ARunText (text : str)
| ALint (file : str).

(* run_cli, the decision part *)
Definition dispatch (args : list str) : action :=
  match args with
  | [] => ARepl
  | a1 :: rest =>
    if str_eqb a1 s_version then AVersion
    else if str_eqb a1 s_help || str_eqb a1 s_h then AHelp
    else
      match rest with
      | [] => ARunFile a1
      | a2 :: _ =>
        if str_eqb a1 s_e || str_eqb a1 s_eval then ARunText a2
        else if str_eqb a1 s_l || str_eqb a1 s_lint then ALint a2
        else ARunFile a1
      end
  end.

(* what the library reports: success, or an error (the message is printed after "Error: ") *)
Inductive lint_kind := LLabel | LCommand | LOutput.
Inductive cerr :=
| CLib                                   (* an Err returned by run_script / run_script_file / repl *)
| CParse (e : perr) (line : N) (source : option str)      (* parse_file failed (lint) *)
| CLint (k : lint_kind) (line : N) (source : option str). (* ScriptError::Runtime built by the linter *)
Inductive result := ROk | RErr (e : cerr).

(* linter.rs *)
Definition is_lower_case (v : option str) : bool :=
  match v with Some t => str_eqb (lower_str t) t | None => true end.

Definition lint_instruction (label output command : option str) : option lint_kind :=
  if negb (is_lower_case label) then Some LLabel
  else if negb (is_lower_case command) then Some LCommand
  else if negb (is_lower_case output) then Some LOutput
  else None.

Fixpoint lint_instructions (is : list instr) : result :=
  match is with
  | [] => ROk
  | i :: r =>
    match (match i_type i with
           | IScript label output command _ => lint_instruction label output command
           | _ => None
           end) with
    | Some k => RErr (CLint k (i_line i) (i_source i))
    | None => lint_instructions r
    end
  end.

Definition lint_parsed (r : tres) : result :=
  match r with
  | TOk is => lint_instructions is
  | TErr e l s => RErr (CParse e l s)
  end.

(* what lint prints before the verdict *)
Definition lint_says_parsed (r : tres) : bool := match r with TOk _ => true | TErr _ _ _ => false end.

Section Cli.
Variable run_file : str -> bool.     (* runner::run_script_file(value, sdk context).is_ok() *)
Variable run_text : str -> bool.     (* runner::run_script(value, sdk context).is_ok() *)
Variable repl : bool.                (* runner::repl(sdk context).is_ok() *)
Variable parse_file : str -> tres.   (* parser::parse_file *)
Variable err_status : N.             (* the literal passed to exit(..) in main's Err arm (regenerated: GenCli) *)

Definition of_bool (b : bool) : result := if b then ROk else RErr CLib.

Definition run_cli (args : list str) : result :=
  match dispatch args with
  | ARepl => of_bool repl
  | AVersion => ROk
  | AHelp => ROk
  | ARunFile f => of_bool (run_file f)
  | ARunText t => of_bool (run_text t)
  | ALint f => lint_parsed (parse_file f)
  end.

(* main: Err -> println!("Error: {}", error); exit(err_status);  otherwise the process ends normally *)
Definition exit_code (r : result) : N := match r with ROk => 0 | RErr _ => err_status end.
Definition prints_error (r : result) : bool := match r with ROk => false | RErr _ => true end.
Definition exit_status (args : list str) : N := exit_code (run_cli args).

End Cli.

(* specification side of the lint rule *)
Definition ascii_upper (c : char) : Prop := 65 <= c /\ c <= 90.
Definition lower_name (v : option str) : Prop :=
  match v with Some t => Forall (fun c => ~ ascii_upper c) t | None => True end.
Definition lower_instr (i : instr) : Prop :=
  match i_type i with
  | IScript label output command _ => lower_name label /\ lower_name command /\ lower_name output
  | _ => True
  end.
