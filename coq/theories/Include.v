(* Include.v — model of parser::parse_file + preprocessor/include_files_preprocessor.rs, and the
   specification side of C14 (textual pasting with provenance).  Definitions only; the proofs are
   in IncludeProof.v.

   External behaviour enters as two Section variables:
     fs      : path -> option str        contents of a readable UTF-8 file, None when
                                         fsio::file::read_text_file fails (missing, directory,
                                         invalid UTF-8, permissions)
     resolve : option path -> str -> path  the path string the pre-processor computes for a
                                         RELATIVE include argument when the including text has a
                                         source: parent(source) joined with the argument,
                                         canonicalised when the OS can, the plain join otherwise;
                                         the argument itself when source has no parent.
   What is modelled here and not left to [resolve]: an argument starting with '/' or '\' is used
   as is; a text without source (parse_text) uses the argument as is. *)
Require Import DS.Base DS.Parser.

Definition path := str.

(* argument.starts_with("/") || argument.starts_with("\\") *)
Definition is_abs (a : str) : bool :=
  match a with c :: _ => (c =? 47) || (c =? c_bs) | [] => false end.

(* ---------------------------------------------------------------------------------------------
   what a line is, as far as including is concerned (used by the specification only) *)

(* Some args: the line is an `!include_files a b c` directive that lists files *)
Definition directive (line : str) : option (list str) :=
  match parse_line line with
  | POk (IPre (Some cmd) (Some args)) => if str_eqb cmd s_include_files then Some args else None
  | _ => None
  end.

(* the error a line raises on its own (malformed, or a pre-processor line that is not understood) *)
Definition line_err (line : str) : option perr :=
  match parse_line line with
  | PErr e => Some e
  | POk (IPre (Some cmd) _) =>
      if str_eqb cmd s_print || str_eqb cmd s_include_files then None
      else Some EUnknownPreProcessorCommand
  | POk (IPre None _) => Some EPreProcessNoCommandFound
  | POk _ => None
  end.

(* the instruction type of a line, or its error *)
Definition line_res (line : str) : pres itype :=
  match line_err line with
  | Some e => PErr e
  | None => parse_line line
  end.

(* a line together with where it was read *)
Record tline := { t_src : path; t_ln : N; t_text : str }.

(* what the pasting of an include tree is made of: lines, and the two ways in which a listed file
   may fail to contribute lines *)
Inductive xline :=
| XLine (t : tline)
| XMissing (q : path)      (* the file cannot be read *)
| XFuel (q : path).        (* include depth exhausted at this file *)

(* parse a pasted sequence, every line keeping its own origin: the first problem wins and carries
   the origin of the offending line / the name of the offending file *)
Fixpoint parse_x (xl : list xline) : tres :=
  match xl with
  | [] => TOk []
  | XMissing q :: _ => TErr EReadFile 0 (Some q)
  | XFuel q :: _ => TErr EFuel 0 (Some q)
  | XLine t :: r =>
    match line_res (t_text t) with
    | PErr e => TErr e (t_ln t) (Some (t_src t))
    | POk ty =>
      match parse_x r with
      | TErr e l s => TErr e l s
      | TOk is => TOk ({| i_line := t_ln t; i_source := Some (t_src t); i_type := ty |} :: is)
      end
    end
  end.
Definition parse_tagged (tl : list tline) : tres := parse_x (map XLine tl).

(* Some tl: the pasting consists of lines only *)
Fixpoint all_lines (xl : list xline) : option (list tline) :=
  match xl with
  | [] => Some []
  | XLine t :: r => match all_lines r with Some tl => Some (t :: tl) | None => None end
  | _ :: _ => None
  end.

(* the text that stands for a line after pasting: a directive becomes a comment line *)
Definition comment_line : str := [c_hash].
Definition pasted (t : tline) : str :=
  match directive (t_text t) with Some _ => comment_line | None => t_text t end.

(* every line terminated by LF *)
Fixpoint unlines (ls : list str) : str :=
  match ls with [] => [] | l :: r => l ++ c_lf :: unlines r end.

(* what remains of a parse result when positions are forgotten and the retained PreProcess
   instruction is read as Empty (both run as no-ops and are invisible to label / block scans) *)
Definition erase_type (t : itype) : itype := match t with IPre _ _ => IEmpty | _ => t end.
Inductive eres := EOk (ts : list itype) | EErr (e : perr).
Definition erase (r : tres) : eres :=
  match r with
  | TOk is => EOk (map (fun i => erase_type (i_type i)) is)
  | TErr e _ _ => EErr e
  end.

Definition origin (i : instr) : option path * N := (i_source i, i_line i).
Definition torigin (t : tline) : option path * N := (Some (t_src t), t_ln t).

Section Include.
Variable fs : path -> option str.
Variable resolve : option path -> str -> path.

(* include_files_preprocessor::run, the computation of file_path *)
Definition include_path (src : option path) (a : str) : path :=
  if is_abs a then a
  else match src with Some _ => resolve src a | None => a end.

(* include_files_preprocessor::run, the loop over the arguments; [pf] is parser::parse_file *)
Fixpoint inc_list (pf : path -> tres) (src : option path) (args : list str) : tres :=
  match args with
  | [] => TOk []
  | a :: r =>
    match pf (include_path src a) with
    | TErr e l s => TErr e l s
    | TOk is =>
      match inc_list pf src r with
      | TErr e l s => TErr e l s
      | TOk is' => TOk (is ++ is')
      end
    end
  end.

(* parser::parse_file; the recursion through preprocessor::run -> include_files_preprocessor::run
   -> parser::parse_file is cut by fuel = include depth (the Rust recursion has no bound: an
   include cycle overflows the stack, finding F12) *)
Fixpoint parse_file (fuel : nat) (p : path) : tres :=
  match fuel with
  | O => TErr EFuel 0 (Some p)
  | S f =>
    match fs p with
    | None => TErr EReadFile 0 (Some p)
    | Some text => parse_text_src (fun args src => inc_list (parse_file f) src args) (Some p) text
    end
  end.

(* --------------------------------------------------------------------------------------------
   specification: pasting *)
Fixpoint inx_args (rec : path -> list xline) (src : path) (args : list str) : list xline :=
  match args with
  | [] => []
  | a :: r => rec (include_path (Some src) a) ++ inx_args rec src r
  end.

Fixpoint inx_from (rec : path -> list xline) (src : path) (ln : N) (ls : list str) : list xline :=
  match ls with
  | [] => []
  | s :: ls' =>
    XLine {| t_src := src; t_ln := ln; t_text := s |}
    :: (match directive s with Some args => inx_args rec src args | None => [] end)
    ++ inx_from rec src (ln + 1) ls'
  end.

(* the lines of p with, after every directive line, the (recursively inlined) lines of the listed
   files in order, each line tagged with its origin; a listed file that cannot be read, or that
   lies deeper than the fuel, contributes a marker instead of lines *)
Fixpoint inline_x (fuel : nat) (p : path) : list xline :=
  match fuel with
  | O => [XFuel p]
  | S f =>
    match fs p with
    | None => [XMissing p]
    | Some text => inx_from (inline_x f) p 1 (lines text)
    end
  end.

(* Some tl: every listed file could be read within the fuel *)
Definition inline_t (fuel : nat) (p : path) : option (list tline) := all_lines (inline_x fuel p).

(* the pasted script, as a list of lines and as a text *)
Definition inline_lines (fuel : nat) (p : path) : option (list str) :=
  match inline_t fuel p with Some tl => Some (map pasted tl) | None => None end.
Definition inline (fuel : nat) (p : path) : option str :=
  match inline_lines fuel p with Some ls => Some (unlines ls) | None => None end.

(* --------------------------------------------------------------------------------------------
   the include graph *)
Definition includes (p q : path) : Prop :=
  exists text line args a,
    fs p = Some text /\ In line (lines text) /\ directive line = Some args /\ In a args /\
    q = include_path (Some p) a.

Inductive reach : path -> path -> Prop :=
| reach_refl p : reach p p
| reach_step p q r : includes p q -> reach q r -> reach p r.

(* the include tree below p has depth at most f (so it has no cycle) *)
Inductive within : nat -> path -> Prop :=
| within_S f p : (forall q, includes p q -> within f q) -> within (S f) p.

Definition acyclic (p : path) : Prop := exists f, within f p.

(* line number n (1-based) of file q is [line] *)
Definition line_at (q : path) (n : N) (line : str) : Prop :=
  exists text, fs q = Some text /\ 1 <= n /\ nth_error (lines text) (N.to_nat (n - 1)) = Some line.

End Include.
