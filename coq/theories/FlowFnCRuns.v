(* FlowFnCRuns.v — runs of the machine of FlowFnC.v (C05_sim_cond).
   A configuration is (line, output of the last instruction, state); [cstep1 k em P] is one
   iteration of runner::run_instructions (em = false) or of eval::eval_instructions (em = true)
   in which every condition is evaluated with fuel k.  Everything is monotone in the fuel, so
   runs compose; a run that leaves the program gives the result of [crun] / [erun] for every
   sufficiently large fuel. *)
Require Import DS.Base DS.Cond DS.FlowTables DS.FlowScan DS.Flow DS.FlowFn DS.FlowFnC.
Open Scope nat_scope.

Definition ccfg := (nat * option str * fstate)%type.
Definition out_of (i : finstr) (s : fstate) : option str :=
  match fi_arg i with
  | FReturn a => option_map (fun x => arg_val x (fst (fst s))) a
  | _ => None
  end.
Definition cstep1 (k : nat) (em : bool) (P : list finstr) (c : ccfg) : option ccfg :=
  let '(line, _, s) := c in
  match nth_error P line with
  | None => None
  | Some i => match cstep (ceval k P) em P line i s with
              | (RContinue, s') => Some (S line, out_of i s, s')
              | (RGoto l, s') => Some (l, out_of i s, s')
              | _ => None
              end
  end.
Fixpoint csteps (k n : nat) (em : bool) (P : list finstr) (c : ccfg) : option ccfg :=
  match n with
  | O => Some c
  | S n' => match cstep1 k em P c with Some c' => csteps k n' em P c' | None => None end
  end.
Definition cruns (em : bool) (P : list finstr) (c c' : ccfg) : Prop := exists k n, csteps k n em P c = Some c'.

(* ---- monotonicity in the evaluator ---------------------------------------------------------------- *)
Definition ev_le (ev ev' : ev_t) : Prop := forall c s r, ev c s = Some r -> ev' c s = Some r.
Definition goes (r : cres) : Prop := match r with RContinue | RGoto _ => True | _ => False end.

Lemma cstep_if_mono ev ev' P l c s : ev_le ev ev' -> goes (fst (cstep_if ev P l c s)) ->
  cstep_if ev' P l c s = cstep_if ev P l c s.
Proof.
  intros H. unfold cstep_if. destruct s as [[w f] g].
  destruct (if_meta_info (map down P) l f) as [[m|] f1]; [|reflexivity].
  destruct (ev c (w, f1, g)) as [r|] eqn:E; [now rewrite (H _ _ _ E)|]. cbn. contradiction.
Qed.
Lemma cstep_elseif_mono ev ev' l c s : ev_le ev ev' -> goes (fst (cstep_elseif ev l c s)) ->
  cstep_elseif ev' l c s = cstep_elseif ev l c s.
Proof.
  intros H. unfold cstep_elseif. destruct s as [[w f] g].
  destruct (if_pop l (f_ifstk f)) as [[ci|] stk]; [|reflexivity].
  destruct (ic_passed ci); [reflexivity|].
  destruct (ev c (w, set_ifstk stk f, g)) as [r|] eqn:E; [now rewrite (H _ _ _ E)|]. cbn. contradiction.
Qed.
Lemma cstep_while_mono ev ev' P l c s : ev_le ev ev' -> goes (fst (cstep_while ev P l c s)) ->
  cstep_while ev' P l c s = cstep_while ev P l c s.
Proof.
  intros H. unfold cstep_while. destruct s as [[w f] g].
  destruct (while_meta_info (map down P) l f) as [[m|] f1]; [|reflexivity].
  destruct (ev c (w, f1, g)) as [r|] eqn:E; [now rewrite (H _ _ _ E)|]. cbn. contradiction.
Qed.
Lemma cstep_mono ev ev' em P l i s : ev_le ev ev' -> goes (fst (cstep ev em P l i s)) ->
  cstep ev' em P l i s = cstep ev em P l i s.
Proof.
  intros H. unfold cstep. destruct (fi_cmd i) as [c|]; [|reflexivity].
  destruct (fi_arg i) as [a|fc|sc nm|out args|a]; try reflexivity.
  destruct (classify_fn c) as [[]| | |]; try reflexivity.
  - now apply cstep_if_mono.
  - now apply cstep_elseif_mono.
  - now apply cstep_while_mono.
Qed.

Lemma erun_S k ev P line out s : erun (S k) ev P line out s =
  match nth_error P line with
  | None => Some (out, s)
  | Some i =>
    match cstep ev true P line i s with
    | (RContinue, s') => erun k ev P (S line) (out_of i s) s'
    | (RGoto l, s') => erun k ev P l (out_of i s) s'
    | _ => None
    end
  end.
Proof. reflexivity. Qed.
Lemma ceval_S k P c s : ceval (S k) P c s =
  match c with
  | FCBase c' => let '(w, f, g) := s in let (b, w') := eval_cond c' w in Some (b, (w', f, g))
  | FCNot c' => match ceval k P c' s with Some (b, s') => Some (negb b, s') | None => None end
  | FCCall fn args =>
    match step_call_eval (length P) None fn args s with
    | (RGoto l, s1) =>
      match erun k (ceval k P) P l None s1 with
      | Some (v, s2) => Some (is_true v, s2)
      | None => None
      end
    | _ => None
    end
  end.
Proof. reflexivity. Qed.

Lemma erun_mono P ev ev' : ev_le ev ev' -> forall k line out s r, erun k ev P line out s = Some r ->
  forall k', k <= k' -> erun k' ev' P line out s = Some r.
Proof.
  intros H. induction k as [|k IH]; intros line out s r E k' Hk; [discriminate|].
  destruct k' as [|k']; [lia|]. rewrite erun_S in *.
  destruct (nth_error P line) as [i|]; [|exact E].
  assert (Hg : goes (fst (cstep ev true P line i s))).
  { destruct (cstep ev true P line i s) as [[] s']; cbn; try exact I; discriminate. }
  rewrite (cstep_mono ev ev' true P line i s H Hg).
  destruct (cstep ev true P line i s) as [[] s']; try discriminate; apply IH; auto; lia.
Qed.
Lemma ceval_mono P : forall k c s r, ceval k P c s = Some r -> forall k', k <= k' -> ceval k' P c s = Some r.
Proof.
  induction k as [|k IH]; intros c s r E k' Hk; [discriminate|].
  destruct k' as [|k']; [lia|]. rewrite ceval_S in *. destruct c as [c'|fn args|c'].
  - exact E.
  - destruct (step_call_eval (length P) None fn args s) as [[] s1]; try discriminate.
    destruct (erun k (ceval k P) P l None s1) as [[v s2]|] eqn:Er; [|discriminate].
    assert (Hle : ev_le (ceval k P) (ceval k' P)) by (intros c0 s0 r0 H0; apply (IH c0 s0 r0 H0); lia).
    rewrite (erun_mono P _ _ Hle k l None s1 _ Er k') by lia. exact E.
  - destruct (ceval k P c' s) as [[b s']|] eqn:Ec; [|discriminate].
    rewrite (IH c' s _ Ec k') by lia. exact E.
Qed.
Lemma ceval_le P k k' : k <= k' -> ev_le (ceval k P) (ceval k' P).
Proof. intros Hk c s r H. eapply ceval_mono; eauto. Qed.

Lemma cstep1_goes k em P c c' : cstep1 k em P c = Some c' ->
  exists i, nth_error P (fst (fst c)) = Some i /\ goes (fst (cstep (ceval k P) em P (fst (fst c)) i (snd c))).
Proof.
  destruct c as [[line o] s]. cbn [cstep1 fst snd]. destruct (nth_error P line) as [i|]; [|discriminate].
  intros H. exists i. split; [reflexivity|].
  destruct (cstep (ceval k P) em P line i s) as [[] s']; cbn; try exact I; discriminate.
Qed.
Lemma cstep1_mono k k' em P c c' : k <= k' -> cstep1 k em P c = Some c' -> cstep1 k' em P c = Some c'.
Proof.
  intros Hk H. destruct (cstep1_goes k em P c c' H) as (i & Hn & Hg).
  destruct c as [[line o] s]. cbn [fst snd] in *. cbn [cstep1] in *. rewrite Hn in *.
  now rewrite (cstep_mono _ _ em P line i s (ceval_le P k k' Hk) Hg).
Qed.
Lemma csteps_mono k k' em P : k <= k' -> forall n c c', csteps k n em P c = Some c' -> csteps k' n em P c = Some c'.
Proof.
  intros Hk. induction n as [|n IH]; intros c c' H; cbn [csteps] in *; [exact H|].
  destruct (cstep1 k em P c) as [c1|] eqn:E; [|discriminate].
  rewrite (cstep1_mono k k' em P c c1 Hk E). auto.
Qed.
Lemma csteps_trans k em P a b c c' c'' :
  csteps k a em P c = Some c' -> csteps k b em P c' = Some c'' -> csteps k (a + b) em P c = Some c''.
Proof.
  revert c. induction a as [|a IH]; intros c H1 H2; cbn in *.
  - inversion H1; subst. exact H2.
  - destruct (cstep1 k em P c) as [c1|]; [|discriminate]. eauto.
Qed.

Section Runs.
Variable em : bool.
Variable P : list finstr.
Lemma cruns_refl c : cruns em P c c.
Proof. exists 0, 0. reflexivity. Qed.
Lemma cruns_trans c1 c2 c3 : cruns em P c1 c2 -> cruns em P c2 c3 -> cruns em P c1 c3.
Proof.
  intros (k1 & a & Ha) (k2 & b & Hb). exists (Nat.max k1 k2), (a + b).
  eapply csteps_trans; eapply csteps_mono; try eassumption; lia.
Qed.
Lemma cruns_step k c c' : cstep1 k em P c = Some c' -> cruns em P c c'.
Proof. intros H. exists k, 1. cbn. now rewrite H. Qed.
Lemma cruns_step_then k c c' c'' : cstep1 k em P c = Some c' -> cruns em P c' c'' -> cruns em P c c''.
Proof. intros H1 H2. eapply cruns_trans; [eapply cruns_step; exact H1|exact H2]. Qed.
Lemma cstep1_continue k l i o s s' :
  nth_error P l = Some i -> cstep (ceval k P) em P l i s = (RContinue, s') ->
  cstep1 k em P (l, o, s) = Some (S l, out_of i s, s').
Proof. intros H1 H2. unfold cstep1. now rewrite H1, H2. Qed.
Lemma cstep1_goto k l i o s s' l' :
  nth_error P l = Some i -> cstep (ceval k P) em P l i s = (RGoto l', s') ->
  cstep1 k em P (l, o, s) = Some (l', out_of i s, s').
Proof. intros H1 H2. unfold cstep1. now rewrite H1, H2. Qed.
End Runs.

(* ---- a run that leaves the program: the fuelled runners ------------------------------------------ *)
Lemma crun_of_csteps P k : forall n l o s l' o' s', csteps k n false P (l, o, s) = Some (l', o', s') ->
  nth_error P l' = None ->
  forall fuel e, n < fuel -> k <= e -> crun fuel (ceval e P) P l s = FDone s'.
Proof.
  induction n as [|n IH]; intros l o s l' o' s' H Hn fuel e Hf He.
  - cbn in H. inversion H; subst. destruct fuel as [|fuel]; [lia|]. cbn [crun]. unfold crun_body. now rewrite Hn.
  - cbn [csteps] in H. destruct (cstep1 k false P (l, o, s)) as [[[l1 o1] s1]|] eqn:E1; [|discriminate].
    destruct fuel as [|fuel]; [lia|]. cbn [crun]. unfold crun_body.
    apply (cstep1_mono k e false P _ _ He) in E1. cbn [cstep1] in E1.
    destruct (nth_error P l) as [i|]; [|discriminate].
    destruct (cstep (ceval e P) false P l i s) as [[] s2]; inversion E1; subst;
      eapply IH; eauto; lia.
Qed.
Lemma erun_of_csteps P k : forall n l o s l' o' s', csteps k n true P (l, o, s) = Some (l', o', s') ->
  nth_error P l' = None ->
  forall fuel, n < fuel -> erun fuel (ceval k P) P l o s = Some (o', s').
Proof.
  induction n as [|n IH]; intros l o s l' o' s' H Hn fuel Hf.
  - cbn in H. inversion H; subst. destruct fuel as [|fuel]; [lia|]. rewrite erun_S. now rewrite Hn.
  - cbn [csteps] in H. destruct (cstep1 k true P (l, o, s)) as [[[l1 o1] s1]|] eqn:E1; [|discriminate].
    destruct fuel as [|fuel]; [lia|]. rewrite erun_S. cbn [cstep1] in E1.
    destruct (nth_error P l) as [i|]; [|discriminate].
    destruct (cstep (ceval k P) true P l i s) as [[] s2]; inversion E1; subst;
      eapply IH; eauto; lia.
Qed.
(* the value of a condition-position call whose nested run leaves the program *)
Lemma ceval_of_cruns P fn args s l s1 c' :
  step_call_eval (length P) None fn args s = (RGoto l, s1) ->
  cruns true P (l, None, s1) c' -> nth_error P (fst (fst c')) = None ->
  exists k, ceval k P (FCCall fn args) s = Some (is_true (snd (fst c')), snd c').
Proof.
  intros Hc (k & n & Hr) Hn. destruct c' as [[l' o'] s']. cbn [fst snd] in *.
  set (K := Nat.max k (S n)).
  assert (Hr' : csteps K n true P (l, None, s1) = Some (l', o', s')) by (eapply csteps_mono; [|exact Hr]; lia).
  exists (S K). rewrite ceval_S, Hc.
  rewrite (erun_of_csteps P K n l None s1 l' o' s' Hr' Hn K) by lia. reflexivity.
Qed.
