(* RenderProof.v — C01: a rendered line parses back to the instruction that was rendered. *)
Require Import DS.Base DS.Parser DS.ParserSpec DS.ParserFacts DS.Render.

(* ---- white space and trimming ----------------------------------------------------------------- *)
Lemma drop_ws_all w x : forallb is_ws w = true -> drop_ws (w ++ x) = drop_ws x.
Proof.
  induction w as [|c w IH]; intros H; cbn [app forallb] in *; [reflexivity|].
  apply andb_true_iff in H as [Hc Hw]. cbn [drop_ws]. rewrite Hc. auto.
Qed.

Lemma drop_ws_nonws c x : is_ws c = false -> drop_ws (c :: x) = c :: x.
Proof. intros H. cbn [drop_ws]. now rewrite H. Qed.

Lemma drop_ws_mid x c y : is_ws c = false -> drop_ws (x ++ c :: y) = drop_ws x ++ c :: y.
Proof.
  intros Hc. induction x as [|d x IH]; cbn [app drop_ws].
  - now rewrite Hc.
  - destruct (is_ws d); [exact IH|reflexivity].
Qed.

Lemma forallb_rev {A} (f : A -> bool) l : forallb f (rev l) = forallb f l.
Proof.
  induction l as [|a l IH]; [reflexivity|]. cbn [rev forallb]. rewrite forallb_app, IH. cbn. 
  rewrite andb_true_r. apply andb_comm.
Qed.

Lemma drop_ws_only w : forallb is_ws w = true -> drop_ws w = [].
Proof. intros H. rewrite <- (app_nil_r w). now rewrite drop_ws_all. Qed.

Lemma trim_end_mid a c b : is_ws c = false -> trim_end (a ++ c :: b) = a ++ c :: trim_end b.
Proof.
  intros Hc. unfold trim_end. rewrite rev_app_distr. cbn [rev]. rewrite <- app_assoc. cbn [app].
  rewrite drop_ws_mid by assumption. rewrite rev_app_distr. cbn [rev]. rewrite rev_involutive.
  now rewrite <- app_assoc.
Qed.

Lemma trim_end_ws w : forallb is_ws w = true -> trim_end w = [].
Proof. intros H. unfold trim_end. rewrite drop_ws_only; [reflexivity|now rewrite forallb_rev]. Qed.

Lemma ends_ws_app x y : y <> [] -> ends_ws (x ++ y) = ends_ws y.
Proof.
  intros Hy. unfold ends_ws. rewrite rev_app_distr.
  destruct (rev y) eqn:E; [|reflexivity].
  apply (f_equal (@rev _)) in E. rewrite rev_involutive in E. cbn in E. congruence.
Qed.

Lemma trim_end_keep x w :
  x <> [] -> ends_ws x = false -> forallb is_ws w = true -> trim_end (x ++ w) = x.
Proof.
  intros Hx He Hw. unfold trim_end. rewrite rev_app_distr.
  rewrite drop_ws_all by now rewrite forallb_rev.
  unfold ends_ws in He. destruct (rev x) as [|c r] eqn:E.
  - apply (f_equal (@rev _)) in E. rewrite rev_involutive in E. cbn in E. congruence.
  - rewrite drop_ws_nonws by assumption. rewrite <- E. apply rev_involutive.
Qed.

Lemma ws_line_ws w : ws_line w = true -> forallb is_ws w = true.
Proof.
  unfold ws_line. rewrite !forallb_forall. intros H x Hx. specialize (H x Hx).
  now apply andb_true_iff in H as [H _].
Qed.

Lemma spaces_ws n : forallb is_ws (spaces n) = true.
Proof. induction n; cbn; auto. Qed.

(* ---- one-step facts about the token scanner ---------------------------------------------------- *)
Lemma skip_spaces fl n l : skip fl (spaces n ++ l) = skip fl l.
Proof. induction n; cbn [spaces repeat app skip]; [reflexivity|]. cbn. exact IHn. Qed.

Lemma in_arg_raw fl c l acc uq :
  (c =? c_bs) = false -> uq && (c =? c_quote) = false ->
  negb uq && ((c =? c_sp) || ((c =? c_hash) && negb (control_as_char fl)) || (stop_on_equals fl && (c =? c_eq))) = false ->
  in_arg fl (c :: l) acc uq false false = in_arg fl l (c :: acc) uq false false.
Proof. intros H1 H2 H3. cbn [in_arg]. now rewrite H1, H2, H3. Qed.

Lemma in_arg_esc c x l acc uq :
  esc_of c = Some x ->
  in_arg fl_arg (c_bs :: x :: l) acc uq false false = in_arg fl_arg l (c :: acc) uq false false.
Proof.
  unfold esc_of. intros H.
  destruct (c =? c_bs) eqn:E1; [apply N.eqb_eq in E1; inversion H; subst; reflexivity|].
  destruct (c =? c_quote) eqn:E2; [apply N.eqb_eq in E2; inversion H; subst; reflexivity|].
  destruct (c =? c_lf) eqn:E3; [apply N.eqb_eq in E3; inversion H; subst; reflexivity|].
  destruct (c =? c_cr) eqn:E4; [apply N.eqb_eq in E4; inversion H; subst; reflexivity|].
  destruct (c =? c_tab) eqn:E5; [apply N.eqb_eq in E5; inversion H; subst; reflexivity|].
  discriminate.
Qed.

Lemma esc_none_not_special c : esc_of c = None -> (c =? c_bs) = false /\ (c =? c_quote) = false.
Proof.
  unfold esc_of. destruct (c =? c_bs); [discriminate|]. destruct (c =? c_quote); [discriminate|]. auto.
Qed.

(* what is left after an unquoted token: the terminator stays, except that '#' ends the line *)
Definition after (tl : str) : str :=
  match tl with [] => [] | c :: _ => if c =? c_hash then [] else tl end.
(* [tl] may follow an unquoted token: end of line, space or '#' *)
Definition sep_start (tl : str) : bool :=
  match tl with [] => true | c :: _ => (c =? c_sp) || (c =? c_hash) end.

(* ---- characterising lemmas for argument tokens ------------------------------------------------- *)
Lemma in_arg_q s : forall es rest acc, valid_q s es = true ->
  in_arg fl_arg (emit_str s es ++ c_quote :: rest) acc true false false
  = POk (rest, finish (rev s ++ acc) true).
Proof.
  induction s as [|c s IH]; intros es rest acc Hv.
  - reflexivity.
  - cbn [valid_q] in Hv. apply andb_true_iff in Hv as [Hc Hs].
    cbn [emit_str rev]. rewrite <- !app_assoc. cbn [app].
    unfold emit1, escaped in *. destruct (hd false es).
    + destruct (esc_of c) as [x|] eqn:Ee; cbn [app].
      * rewrite (in_arg_esc c x) by assumption. now apply IH.
      * destruct (esc_none_not_special c Ee) as [H1 H2].
        rewrite in_arg_raw; [now apply IH|assumption|now rewrite H2|reflexivity].
    + cbn [andb orb] in Hc. apply negb_true_iff in Hc. unfold special in Hc.
      apply orb_false_iff in Hc as [Hc _]. apply orb_false_iff in Hc as [Hc _].
      apply orb_false_iff in Hc as [H1 H2]. cbn [app].
      rewrite in_arg_raw; [now apply IH|assumption|now rewrite H2|reflexivity].
Qed.

Lemma raw_ok_u_facts c : raw_ok_u c = true ->
  (c =? c_bs) = false /\ (c =? c_sp) = false /\ (c =? c_hash) = false.
Proof.
  unfold raw_ok_u. intros H. apply negb_true_iff in H.
  apply orb_false_iff in H as [H H5]. apply orb_false_iff in H as [H H4].
  apply orb_false_iff in H as [H H3]. apply orb_false_iff in H as [H1 H2]. auto.
Qed.

Lemma in_arg_u_raw c l acc : raw_ok_u c = true ->
  in_arg fl_arg (c :: l) acc false false false = in_arg fl_arg l (c :: acc) false false false.
Proof.
  intros H. destruct (raw_ok_u_facts c H) as (H1 & H2 & H3).
  apply in_arg_raw; [assumption|reflexivity|]. cbn [fl_arg stop_on_equals andb negb]. now rewrite H2, H3.
Qed.

Lemma in_arg_sep fl t tl acc : control_as_char fl = false -> sep_start (t :: tl) = true ->
  in_arg fl (t :: tl) acc false false false = POk (after (t :: tl), finish acc false).
Proof.
  cbn [sep_start after]. intros Hk Ht. cbn [in_arg].
  destruct (t =? c_bs) eqn:E1.
  { apply N.eqb_eq in E1. subst. discriminate. }
  rewrite Hk. cbn [andb negb]. rewrite andb_true_r.
  replace ((t =? c_sp) || (t =? c_hash) || stop_on_equals fl && (t =? c_eq)) with true
    by (symmetry; rewrite Ht; reflexivity).
  reflexivity.
Qed.

Lemma in_arg_u s : forall es tl acc, valid_u s es = true -> sep_start tl = true ->
  in_arg fl_arg (emit_str s es ++ tl) acc false false false
  = POk (after tl, finish (rev s ++ acc) false).
Proof.
  induction s as [|c s IH]; intros es tl acc Hv Ht.
  - cbn [emit_str app rev]. destruct tl as [|t tl]; [reflexivity|]. now apply in_arg_sep.
  - cbn [valid_u] in Hv. apply andb_true_iff in Hv as [Hc Hs].
    cbn [emit_str rev]. rewrite <- !app_assoc. cbn [app].
    unfold emit1, escaped in *. destruct (hd false es).
    + destruct (esc_of c) as [x|] eqn:Ee; cbn [app].
      * rewrite (in_arg_esc c x) by assumption. now apply IH.
      * cbn [andb orb] in Hc. rewrite in_arg_u_raw by assumption. now apply IH.
    + cbn [andb orb] in Hc. cbn [app]. rewrite in_arg_u_raw by assumption. now apply IH.
Qed.

Lemma finish_nonempty acc uq : acc <> [] -> finish acc uq = Some (rev acc).
Proof. destruct acc; [congruence|reflexivity]. Qed.

Lemma finish_q a : finish (rev a ++ []) true = Some a.
Proof.
  rewrite app_nil_r. destruct a as [|c a]; [reflexivity|].
  rewrite finish_nonempty; [now rewrite rev_involutive|].
  cbn [rev]. intros H. apply app_eq_nil in H as [_ H]. discriminate.
Qed.

Lemma finish_u a uq : a <> [] -> finish (rev a ++ []) uq = Some a.
Proof.
  intros Ha. rewrite app_nil_r. rewrite finish_nonempty; [now rewrite rev_involutive|].
  intros H. apply (f_equal (@rev _)) in H. rewrite rev_involutive in H. cbn in H. congruence.
Qed.

Lemma not_ws_not_sp c : is_ws c = false -> (c =? c_sp) = false.
Proof.
  intros H. destruct (c =? c_sp) eqn:E; [|reflexivity]. apply N.eqb_eq in E. subst. discriminate.
Qed.

(* ---- names (label, output variable, command): raw text --------------------------------------- *)
Definition sep_start_fl (fl : flags) (tl : str) : bool :=
  match tl with
  | [] => true
  | c :: _ => (c =? c_sp) || (c =? c_hash) || (stop_on_equals fl && (c =? c_eq))
  end.

Lemma sep_start_weaken fl tl : sep_start tl = true -> sep_start_fl fl tl = true.
Proof. destruct tl as [|c tl]; [reflexivity|]. cbn. intros ->. reflexivity. Qed.

Lemma in_arg_sep_fl fl t tl acc : control_as_char fl = false -> sep_start_fl fl (t :: tl) = true ->
  in_arg fl (t :: tl) acc false false false = POk (after (t :: tl), finish acc false).
Proof.
  cbn [sep_start_fl after]. intros Hk Ht. cbn [in_arg].
  destruct (t =? c_bs) eqn:E1.
  { apply N.eqb_eq in E1. subst. cbn in Ht. rewrite andb_false_r in Ht. discriminate. }
  rewrite Hk. cbn [andb negb]. rewrite andb_true_r, Ht. reflexivity.
Qed.

Lemma name_char_facts c : name_char c = true ->
  (c =? c_bs) = false /\ (c =? c_sp) = false /\ (c =? c_hash) = false /\ is_ws c = false.
Proof.
  unfold name_char. intros H. apply negb_true_iff in H.
  apply orb_false_iff in H as [H H3]. apply orb_false_iff in H as [H1 H2].
  repeat split; try assumption. now apply not_ws_not_sp.
Qed.

Lemma in_arg_name fl s : forall tl acc,
  forallb name_char s = true -> (stop_on_equals fl = true -> no_eq s = true) ->
  sep_start_fl fl tl = true -> control_as_char fl = false ->
  in_arg fl (s ++ tl) acc false false false = POk (after tl, finish (rev s ++ acc) false).
Proof.
  induction s as [|c s IH]; intros tl acc Hn He Ht Hk.
  - cbn [app rev]. destruct tl as [|t tl]; [reflexivity|]. now apply in_arg_sep_fl.
  - cbn [forallb] in Hn. apply andb_true_iff in Hn as [Hc Hs].
    destruct (name_char_facts c Hc) as (H1 & H2 & H3 & _).
    cbn [app rev]. rewrite <- app_assoc. cbn [app].
    rewrite in_arg_raw; [apply IH; try assumption| assumption | reflexivity |].
    + intros Hso. specialize (He Hso). unfold no_eq in *. cbn [forallb] in He.
      now apply andb_true_iff in He as [_ He].
    + cbn [negb andb]. rewrite H2, H3. cbn [orb andb].
      destruct (stop_on_equals fl) eqn:Hso; [|reflexivity].
      specialize (He eq_refl). unfold no_eq in He. cbn [forallb] in He.
      apply andb_true_iff in He as [He _]. apply negb_true_iff in He. now rewrite He.
Qed.

Lemma skip_name_first fl c l : name_char c = true -> (c =? c_quote) = false ->
  skip fl (c :: l) = in_arg fl l [c] false false false.
Proof.
  intros Hc Hq. destruct (name_char_facts c Hc) as (H1 & H2 & H3 & _).
  cbn [skip]. rewrite H3, H2, Hq, H1. reflexivity.
Qed.

Lemma pnv_name fl n s tl :
  name_ok s = true -> (stop_on_equals fl = true -> no_eq s = true) -> sep_start_fl fl tl = true ->
  control_as_char fl = false ->
  parse_next_value fl (spaces n ++ s ++ tl) = POk (after tl, Some s).
Proof.
  intros Hn He Ht Hk. unfold parse_next_value. rewrite skip_spaces.
  destruct s as [|c s]; [discriminate|]. cbn [name_ok] in Hn.
  apply andb_true_iff in Hn as [Hq Hn]. apply negb_true_iff in Hq.
  pose proof Hn as Hn'. cbn [forallb] in Hn. apply andb_true_iff in Hn as [Hc Hs].
  cbn [app]. rewrite skip_name_first by assumption.
  rewrite in_arg_name; try assumption.
  - f_equal. f_equal. change (rev s ++ [c]) with (rev (c :: s)).
    rewrite <- (app_nil_r (rev (c :: s))). apply finish_u. discriminate.
  - intros Hso. specialize (He Hso). unfold no_eq in *. cbn [forallb] in He.
    now apply andb_true_iff in He as [_ He].
Qed.

(* nothing but spaces and an optional comment: no value, and the scan is at the end of the line *)
Definition is_tail (tl : str) : Prop := tl = [] \/ exists k x, tl = spaces k ++ c_hash :: x.

Lemma pnv_tail fl tl : is_tail tl -> control_as_char fl = false -> parse_next_value fl tl = POk ([], None).
Proof.
  intros [->|(k & x & ->)] Hk; [reflexivity|]. unfold parse_next_value. rewrite skip_spaces.
  cbn [skip]. rewrite Hk. reflexivity.
Qed.

Lemma is_tail_sep tl : is_tail tl -> sep_start tl = true.
Proof.
  intros [->|(k & x & ->)]; [reflexivity|]. destruct k; cbn; reflexivity.
Qed.

(* ---- argument tokens ---------------------------------------------------------------------------- *)
Lemma pnv_arg_q n a es rest : valid_q a es = true ->
  parse_next_value fl_arg (spaces n ++ c_quote :: emit_str a es ++ c_quote :: rest) = POk (rest, Some a).
Proof.
  intros Hv. unfold parse_next_value. rewrite skip_spaces.
  change (skip fl_arg (c_quote :: emit_str a es ++ c_quote :: rest))
    with (in_arg fl_arg (emit_str a es ++ c_quote :: rest) [] true false false).
  rewrite in_arg_q by assumption. now rewrite finish_q.
Qed.

Lemma skip_enter c l :
  (c =? c_hash) = false -> (c =? c_sp) = false -> (c =? c_quote) = false ->
  skip fl_arg (c :: l) = in_arg fl_arg (c :: l) [] false false false.
Proof.
  intros H1 H2 H3. cbn [skip in_arg]. rewrite H1, H2, H3.
  destruct (c =? c_bs); reflexivity.
Qed.

Lemma emit_first_not_hash c s es c0 r :
  valid_u (c :: s) es = true -> emit_str (c :: s) es = c0 :: r -> (c0 =? c_hash) = false.
Proof.
  cbn [valid_u emit_str]. intros Hv. apply andb_true_iff in Hv as [Hc _].
  unfold emit1, escaped in *. destruct (hd false es).
  - destruct (esc_of c); cbn [app]; intros H; inversion H; subst; [reflexivity|].
    cbn [andb orb] in Hc. now destruct (raw_ok_u_facts _ Hc) as (_ & _ & ?).
  - cbn [andb orb app] in *. intros H; inversion H; subst.
    now destruct (raw_ok_u_facts _ Hc) as (_ & _ & ?).
Qed.

Lemma emit_nonempty c s es : emit_str (c :: s) es <> [].
Proof.
  cbn [emit_str]. unfold emit1. destruct (hd false es); [destruct (esc_of c)|]; discriminate.
Qed.

Lemma pnv_arg_u n b a ch tl :
  a_quoted ch = false -> valid_arg b a ch = true -> sep_start tl = true ->
  parse_next_value fl_arg (spaces n ++ render_arg a ch ++ tl) = POk (after tl, Some a).
Proof.
  unfold valid_arg, render_arg. intros -> Hv Ht.
  apply andb_true_iff in Hv as [Hv Hend]. apply andb_true_iff in Hv as [Hv Hfirst].
  unfold parse_next_value. rewrite skip_spaces.
  destruct a as [|c a]; [discriminate|].
  destruct (emit_str (c :: a) (a_esc ch)) as [|c0 r] eqn:E; [discriminate|].
  pose proof (emit_first_not_hash _ _ _ _ _ Hv E) as Hh.
  apply andb_true_iff in Hfirst as [Hf _]. apply andb_true_iff in Hf as [Hq Hw].
  apply negb_true_iff in Hq, Hw.
  cbn [app]. rewrite skip_enter; [|assumption|assumption|assumption].
  change (c0 :: r ++ tl) with ((c0 :: r) ++ tl). rewrite <- E.
  rewrite in_arg_u by assumption. f_equal. f_equal. apply finish_u. discriminate.
Qed.

(* ---- argument lists ------------------------------------------------------------------------------ *)
Lemma args_after f tl : sep_start tl = true ->
  parse_args_fuel f fl_arg (after tl) = parse_args_fuel f fl_arg tl.
Proof.
  intros _. destruct tl as [|c tl]; [reflexivity|]. cbn [after].
  destruct (c =? c_hash) eqn:E; [|reflexivity].
  destruct f; [reflexivity|]. cbn [parse_args_fuel]. unfold parse_next_value. cbn [skip]. now rewrite E.
Qed.

Lemma render_args_sep args chs X : sep_start X = true -> sep_start (render_args args chs ++ X) = true.
Proof. destruct args, chs; cbn [render_args app]; try (intros; assumption). reflexivity. Qed.

Lemma args_cont : forall args chs b f X, valid_args b args chs = true -> sep_start X = true ->
  parse_args_fuel (length args + f) fl_arg (render_args args chs ++ X) =
  match parse_args_fuel f fl_arg X with POk r => POk (args ++ r) | PErr e => PErr e end.
Proof.
  induction args as [|a args IH]; intros chs b f X Hv HX; destruct chs as [|ch chs]; try discriminate.
  - cbn [render_args app length plus]. destruct (parse_args_fuel f fl_arg X); reflexivity.
  - cbn [valid_args] in Hv. apply andb_true_iff in Hv as [Ha Hv].
    cbn [length plus parse_args_fuel render_args]. rewrite <- !app_assoc.
    pose proof (render_args_sep args chs X HX) as HY.
    specialize (IH chs false f X Hv HX).
    destruct (a_quoted ch) eqn:Eq.
    + unfold render_arg. rewrite Eq. cbn [app]. rewrite <- app_assoc. cbn [app].
      unfold valid_arg in Ha. rewrite Eq in Ha.
      rewrite pnv_arg_q by assumption. rewrite IH.
      destruct (parse_args_fuel f fl_arg X); reflexivity.
    + rewrite (pnv_arg_u _ b) by assumption. rewrite args_after by assumption. rewrite IH.
      destruct (parse_args_fuel f fl_arg X); reflexivity.
Qed.

Lemma parse_arguments_render args chs b X : valid_args b args chs = true -> sep_start X = true ->
  parse_arguments (render_args args chs ++ X) =
  match parse_args_fuel (S (length X)) fl_arg X with
  | POk r => POk (opt_list (args ++ r))
  | PErr e => PErr e
  end.
Proof.
  intros Hv HX. unfold parse_arguments, parse_arguments_with.
  pose proof (args_cont args chs b (S (length X)) X Hv HX) as H.
  pose proof (args_fuel_enough fl_arg (S (length X)) X ltac:(lia)) as Hn.
  apply args_any_fuel in H.
  - rewrite H. destruct (parse_args_fuel (S (length X)) fl_arg X); reflexivity.
  - destruct (parse_args_fuel (S (length X)) fl_arg X); congruence.
Qed.

Lemma args_tail f tl : is_tail tl -> parse_args_fuel (S f) fl_arg tl = POk [].
Proof. intros H. cbn [parse_args_fuel]. now rewrite pnv_tail. Qed.

Lemma parse_arguments_tail tl : is_tail tl -> parse_arguments tl = POk None.
Proof. intros H. unfold parse_arguments, parse_arguments_with. now rewrite args_tail. Qed.

Lemma parse_arguments_after X : sep_start X = true -> parse_arguments (after X) = parse_arguments X.
Proof.
  intros _. destruct X as [|c X]; [reflexivity|]. cbn [after].
  destruct (c =? c_hash) eqn:E; [|reflexivity].
  unfold parse_arguments, parse_arguments_with. cbn [length parse_args_fuel].
  unfold parse_next_value. cbn [skip]. now rewrite E.
Qed.

(* ---- label, output variable, command ---------------------------------------------------------- *)
Lemma find_label_some n Z : name_ok n = true -> sep_start Z = true ->
  find_label (c_colon :: n ++ Z) = POk (after Z, Some (c_colon :: n)).
Proof.
  intros Hn HZ. cbn [find_label]. change (c_colon =? c_colon) with true. cbv iota.
  assert (H : parse_next_value fl_name (n ++ Z) = POk (after Z, Some n)).
  { apply (pnv_name fl_name 0 n Z Hn); [discriminate|now apply sep_start_weaken|reflexivity]. }
  rewrite H. destruct n; [discriminate|reflexivity].
Qed.

Lemma find_label_none c l : (c =? c_colon) = false -> (c =? c_sp) = false ->
  find_label (c :: l) = POk (c :: l, None).
Proof. intros H1 H2. cbn [find_label]. now rewrite H1, H2. Qed.

Lemma after_equals_spaces a r : after_equals (spaces a ++ c_eq :: r) = Some r.
Proof. induction a; cbn [spaces repeat app after_equals]; [reflexivity|]. exact IHa. Qed.

Lemma after_equals_skip a r : after_equals (spaces a ++ r) = after_equals r.
Proof. induction a; cbn [spaces repeat app after_equals]; [reflexivity|]. exact IHa. Qed.

Lemma sep_eq_left fl a r : stop_on_equals fl = true -> sep_start_fl fl (spaces a ++ c_eq :: r) = true.
Proof. intros H. destruct a; cbn; [now rewrite H|reflexivity]. Qed.

Lemma after_eq_left a r : after (spaces a ++ c_eq :: r) = spaces a ++ c_eq :: r.
Proof. destruct a; reflexivity. Qed.

Lemma find_oc_both g o a b c X :
  name_ok o = true -> no_eq o = true -> name_ok c = true -> sep_start X = true ->
  find_output_and_command (spaces g ++ o ++ spaces a ++ c_eq :: spaces b ++ c ++ X)
  = POk (after X, Some o, Some c).
Proof.
  intros Ho Heq Hc HX. unfold find_output_and_command.
  rewrite (pnv_name fl_out g o _ Ho); [|intros _; assumption|now apply sep_eq_left|reflexivity].
  rewrite after_eq_left, after_equals_spaces.
  rewrite (pnv_name fl_name b c X Hc); [reflexivity|discriminate|now apply sep_start_weaken|reflexivity].
Qed.

Lemma find_oc_cmd g c X :
  name_ok c = true -> no_eq c = true -> sep_start X = true -> after_equals (after X) = None ->
  find_output_and_command (spaces g ++ c ++ X) = POk (after X, None, Some c).
Proof.
  intros Hc Heq HX Hae. unfold find_output_and_command.
  rewrite (pnv_name fl_out g c X Hc); [|intros _; assumption|now apply sep_start_weaken|reflexivity].
  now rewrite Hae.
Qed.

Lemma find_oc_out g o a tl :
  name_ok o = true -> no_eq o = true -> is_tail tl ->
  find_output_and_command (spaces g ++ o ++ spaces a ++ c_eq :: tl) = POk (tl, Some o, None).
Proof.
  intros Ho Heq Ht. unfold find_output_and_command.
  rewrite (pnv_name fl_out g o _ Ho); [|intros _; assumption|now apply sep_eq_left|reflexivity].
  rewrite after_eq_left, after_equals_spaces. now rewrite pnv_tail.
Qed.

Lemma is_tail_after tl : is_tail tl -> is_tail (after tl).
Proof.
  intros [->|(k & x & ->)]; [left; reflexivity|].
  destruct k; cbn; [left; reflexivity|right; exists (S k), x; reflexivity].
Qed.

Lemma find_oc_none tl : is_tail tl -> find_output_and_command tl = POk ([], None, None).
Proof. intros Ht. unfold find_output_and_command. now rewrite pnv_tail. Qed.

Lemma name_first c s : name_ok (c :: s) = true -> is_ws c = false /\ (c =? c_hash) = false /\ (c =? c_sp) = false.
Proof.
  cbn [name_ok forallb]. intros H. apply andb_true_iff in H as [_ H]. apply andb_true_iff in H as [H _].
  destruct (name_char_facts c H) as (_ & ? & ? & ?). auto.
Qed.

Definition lab_of (i : sinstr) : option str := option_map (cons c_colon) (s_label i).

Lemma after_spaces g r : after (spaces (S g) ++ r) = spaces (S g) ++ r.
Proof. reflexivity. Qed.
Lemma sep_spaces g r : sep_start (spaces (S g) ++ r) = true.
Proof. reflexivity. Qed.

Lemma find_oc_both0 o a b c X :
  name_ok o = true -> no_eq o = true -> name_ok c = true -> sep_start X = true ->
  find_output_and_command (o ++ spaces a ++ c_eq :: spaces b ++ c ++ X) = POk (after X, Some o, Some c).
Proof. exact (find_oc_both 0 o a b c X). Qed.
Lemma find_oc_cmd0 c X :
  name_ok c = true -> no_eq c = true -> sep_start X = true -> after_equals (after X) = None ->
  find_output_and_command (c ++ X) = POk (after X, None, Some c).
Proof. exact (find_oc_cmd 0 c X). Qed.
Lemma find_oc_out0 o a tl :
  name_ok o = true -> no_eq o = true -> is_tail tl ->
  find_output_and_command (o ++ spaces a ++ c_eq :: tl) = POk (tl, Some o, None).
Proof. exact (find_oc_out 0 o a tl). Qed.

Ltac norm_app := repeat first [rewrite <- app_assoc | progress cbn [app]].

Ltac split_wf H :=
  unfold wf in H; cbn [s_label s_output s_command s_args] in H;
  repeat match type of H with
         | (_ && _) = true => let H' := fresh "W" in apply andb_true_iff in H as [H H']
         end.

Lemma first_ok_colon c s : first_ok (c :: s) = true -> (c =? c_colon) = false.
Proof. cbn. intros H. apply negb_true_iff in H. now apply orb_false_iff in H as [? _]. Qed.
Lemma first_ok_bang c s : first_ok (c :: s) = true -> (c =? c_bang) = false.
Proof. cbn. intros H. apply negb_true_iff in H. now apply orb_false_iff in H as [_ ?]. Qed.

(* a head that has a command, followed by anything that may follow an unquoted token *)
Lemma head_cmd i ch c X :
  wf i = true -> s_command i = Some c -> sep_start X = true ->
  (s_output i = None -> after_equals (after X) = None) ->
  parse_command_line (render_head i ch ++ X) =
  match parse_arguments X with
  | PErr e => PErr e
  | POk a => POk (IScript (lab_of i) (s_output i) (Some c) a)
  end.
Proof.
  destruct i as [lab out cmd args]. cbn [s_label s_output s_command s_args]. intros Hwf -> HX Hae.
  unfold render_head, render_label, render_oc, lab_of. cbn [s_label s_output s_command s_args option_map].
  split_wf Hwf.
  destruct lab as [n|], out as [o|].
  - (* label, output, command *)
    apply andb_true_iff in W2 as [Ho Hoe]. apply andb_true_iff in W1 as [Hc _].
    norm_app. unfold parse_command_line.
    rewrite find_label_some; [|assumption|apply sep_spaces]. rewrite after_spaces.
    rewrite find_oc_both by assumption. rewrite parse_arguments_after by assumption.
    destruct (parse_arguments X); reflexivity.
  - (* label, command *)
    apply andb_true_iff in W1 as [Hc Hce].
    norm_app. unfold parse_command_line.
    rewrite find_label_some; [|assumption|apply sep_spaces]. rewrite after_spaces.
    rewrite find_oc_cmd; [|assumption|assumption|assumption|now apply Hae].
    rewrite parse_arguments_after by assumption.
    destruct (parse_arguments X); reflexivity.
  - (* output, command *)
    apply andb_true_iff in W2 as [Ho Hoe]. apply andb_true_iff in W1 as [Hc _].
    destruct o as [|c0 o]; [discriminate|].
    destruct (name_first _ _ Ho) as (_ & _ & Hsp). pose proof (first_ok_colon _ _ W0) as Hcol.
    norm_app. unfold parse_command_line.
    rewrite find_label_none by assumption.
    change (c0 :: o ++ spaces (ch_eq_left ch) ++ c_eq :: spaces (ch_eq_right ch) ++ c ++ X)
      with ((c0 :: o) ++ spaces (ch_eq_left ch) ++ c_eq :: spaces (ch_eq_right ch) ++ c ++ X).
    rewrite find_oc_both0 by assumption. rewrite parse_arguments_after by assumption.
    destruct (parse_arguments X); reflexivity.
  - (* command *)
    apply andb_true_iff in W1 as [Hc Hce].
    destruct c as [|c0 c]; [discriminate|].
    destruct (name_first _ _ Hc) as (_ & _ & Hsp). pose proof (first_ok_colon _ _ W0) as Hcol.
    norm_app. unfold parse_command_line.
    rewrite find_label_none by assumption.
    change (c0 :: c ++ X) with ((c0 :: c) ++ X).
    rewrite find_oc_cmd0; [|assumption|assumption|assumption|now apply Hae].
    rewrite parse_arguments_after by assumption.
    destruct (parse_arguments X); reflexivity.
Qed.

(* a head without command (label and/or output variable), followed by the end of the line *)
Lemma head_nocmd i ch tl :
  wf i = true -> s_command i = None -> (s_label i <> None \/ s_output i <> None) -> is_tail tl ->
  parse_command_line (render_head i ch ++ tl) = POk (IScript (lab_of i) (s_output i) None None).
Proof.
  destruct i as [lab out cmd args]. cbn [s_label s_output s_command s_args]. intros Hwf -> Hne Ht.
  unfold render_head, render_label, render_oc, lab_of. cbn [s_label s_output s_command s_args option_map].
  split_wf Hwf.
  destruct lab as [n|], out as [o|].
  - apply andb_true_iff in W2 as [Ho Hoe].
    norm_app. unfold parse_command_line.
    rewrite find_label_some; [|assumption|apply sep_spaces]. rewrite after_spaces.
    rewrite find_oc_out by assumption. now rewrite parse_arguments_tail.
  - norm_app. rewrite ?app_nil_r. unfold parse_command_line.
    rewrite find_label_some; [|assumption|now apply is_tail_sep].
    rewrite find_oc_none by now apply is_tail_after. reflexivity.
  - apply andb_true_iff in W2 as [Ho Hoe].
    destruct o as [|c0 o]; [discriminate|].
    destruct (name_first _ _ Ho) as (_ & _ & Hsp). pose proof (first_ok_colon _ _ W0) as Hcol.
    norm_app. unfold parse_command_line.
    rewrite find_label_none by assumption.
    change (c0 :: o ++ spaces (ch_eq_left ch) ++ c_eq :: tl)
      with ((c0 :: o) ++ spaces (ch_eq_left ch) ++ c_eq :: tl).
    rewrite find_oc_out0 by assumption. now rewrite parse_arguments_tail.
  - destruct Hne; congruence.
Qed.

Definition noout (i : sinstr) : bool := match s_output i with None => true | Some _ => false end.

Lemma after_equals_tail tl : is_tail tl -> after_equals (after tl) = None.
Proof.
  intros Ht. apply is_tail_after in Ht. destruct Ht as [->|(k & x & ->)]; [reflexivity|].
  now rewrite after_equals_skip.
Qed.

Lemma after_equals_args args chs Z :
  valid_args true args chs = true -> after_equals (after Z) = None ->
  after_equals (after (render_args args chs ++ Z)) = None.
Proof.
  destruct args as [|a args], chs as [|ch chs]; try discriminate; intros Hv HZ.
  - exact HZ.
  - cbn [render_args]. rewrite <- !app_assoc. rewrite after_spaces, after_equals_skip.
    cbn [valid_args] in Hv. apply andb_true_iff in Hv as [Ha _].
    unfold valid_arg, render_arg in *. destruct (a_quoted ch); [reflexivity|].
    apply andb_true_iff in Ha as [Ha _]. apply andb_true_iff in Ha as [_ Ha].
    destruct (emit_str a (a_esc ch)) as [|c0 r]; [discriminate|].
    apply andb_true_iff in Ha as [Ha He]. apply andb_true_iff in Ha as [_ Hw].
    apply negb_true_iff in Hw, He. cbn [andb] in He.
    cbn [app after_equals]. now rewrite Hw, He.
Qed.

Lemma body_parse i ch tl :
  wf i = true -> valid_args (noout i) (s_args i) (ch_args ch) = true ->
  (s_label i <> None \/ s_output i <> None \/ s_command i <> None) -> is_tail tl ->
  parse_command_line (render_head i ch ++ render_args (s_args i) (ch_args ch) ++ tl) = POk (norm i).
Proof.
  intros Hwf Hv Hne Ht.
  destruct (s_command i) as [c|] eqn:Ec.
  - rewrite (head_cmd i ch c); try assumption.
    + erewrite parse_arguments_render; [|eassumption|now apply is_tail_sep].
      rewrite args_tail by assumption. rewrite app_nil_r.
      unfold norm, lab_of. rewrite Ec. destruct (s_label i), (s_output i); reflexivity.
    + apply render_args_sep. now apply is_tail_sep.
    + intros Ho. unfold noout in Hv. rewrite Ho in Hv. apply after_equals_args; [assumption|now apply after_equals_tail].
  - assert (Ha : s_args i = []).
    { pose proof Hwf as H. unfold wf in H. rewrite Ec in H. apply andb_true_iff in H as [_ H].
      destruct (s_args i); [reflexivity|discriminate]. }
    rewrite Ha in *. destruct (ch_args ch); [|discriminate]. cbn [render_args app].
    rewrite head_nocmd; try assumption.
    + unfold norm, lab_of. rewrite Ec, Ha. destruct (s_label i), (s_output i); try reflexivity.
      destruct Hne as [?|[?|?]]; congruence.
    + destruct Hne as [?|[?|?]]; auto; congruence.
Qed.

(* ---- the first and the last character of a rendered line body ------------------------------- *)
Lemma name_ends s : name_ok s = true -> ends_ws s = false.
Proof.
  intros H. unfold ends_ws. destruct (rev s) as [|c r] eqn:E; [reflexivity|].
  assert (Hin : In c s) by (apply in_rev; rewrite E; now left).
  destruct s as [|c0 s]; [discriminate|]. cbn [name_ok] in H. apply andb_true_iff in H as [_ H].
  rewrite forallb_forall in H. specialize (H c Hin). now destruct (name_char_facts c H) as (_ & _ & _ & ?).
Qed.

Lemma render_args_nonempty a args ch chs : render_args (a :: args) (ch :: chs) <> [].
Proof. cbn [render_args spaces repeat app]. discriminate. Qed.

Lemma render_arg_ends b a ch : valid_arg b a ch = true ->
  render_arg a ch <> [] /\ ends_ws (render_arg a ch) = false.
Proof.
  unfold valid_arg, render_arg. destruct (a_quoted ch).
  - intros _. split; [discriminate|].
    change (c_quote :: emit_str a (a_esc ch) ++ [c_quote]) with ((c_quote :: emit_str a (a_esc ch)) ++ [c_quote]).
    rewrite ends_ws_app by discriminate. reflexivity.
  - intros H. apply andb_true_iff in H as [H He]. apply andb_true_iff in H as [_ H].
    apply negb_true_iff in He. split; [|assumption].
    destruct (emit_str a (a_esc ch)); [discriminate|discriminate].
Qed.

Lemma render_args_ends : forall args chs b, valid_args b args chs = true -> args <> [] ->
  ends_ws (render_args args chs) = false.
Proof.
  induction args as [|a args IH]; intros chs b Hv Hne; [congruence|].
  destruct chs as [|ch chs]; [discriminate|]. cbn [valid_args] in Hv. apply andb_true_iff in Hv as [Ha Hv].
  cbn [render_args]. destruct args as [|a' args].
  - destruct chs; [|discriminate]. cbn [render_args]. rewrite app_nil_r.
    destruct (render_arg_ends _ _ _ Ha) as [Hn He]. now rewrite ends_ws_app.
  - destruct chs as [|ch' chs]; [discriminate|].
    rewrite app_assoc. rewrite ends_ws_app by apply render_args_nonempty.
    apply (IH _ false); [assumption|discriminate].
Qed.

Lemma head_first i ch :
  wf i = true -> (s_label i <> None \/ s_output i <> None \/ s_command i <> None) ->
  exists c0 r, render_head i ch = c0 :: r /\ is_ws c0 = false /\ (c0 =? c_hash) = false /\ (c0 =? c_bang) = false.
Proof.
  destruct i as [lab out cmd args]. cbn [s_label s_output s_command]. intros Hwf Hne.
  unfold render_head, render_label, render_oc. cbn [s_label s_output s_command].
  split_wf Hwf.
  destruct lab as [n|].
  - eexists _, _. split; [cbn [app]; reflexivity|]. repeat split; reflexivity.
  - destruct out as [o|].
    + apply andb_true_iff in W2 as [Ho _]. destruct o as [|c0 o]; [discriminate|].
      destruct (name_first _ _ Ho) as (Hw & Hh & _). pose proof (first_ok_bang _ _ W0).
      destruct cmd; eexists _, _; (split; [cbn [app]; reflexivity|auto]).
    + destruct cmd as [c|]; [|destruct Hne as [?|[?|?]]; congruence].
      apply andb_true_iff in W1 as [Hc _]. destruct c as [|c0 c]; [discriminate|].
      destruct (name_first _ _ Hc) as (Hw & Hh & _). pose proof (first_ok_bang _ _ W0).
      eexists _, _; (split; [cbn [app]; reflexivity|auto]).
Qed.

Lemma head_ends i ch :
  wf i = true -> (s_label i <> None \/ s_output i <> None \/ s_command i <> None) ->
  ends_ws (render_head i ch) = false.
Proof.
  destruct i as [lab out cmd args]. cbn [s_label s_output s_command]. intros Hwf Hne.
  unfold render_head, render_label, render_oc. cbn [s_label s_output s_command].
  split_wf Hwf.
  destruct cmd as [c|].
  - apply andb_true_iff in W1 as [Hc _]. pose proof (name_ends c Hc) as He.
    assert (Hcn : c <> []) by (destruct c; [discriminate|discriminate]).
    destruct out as [o|].
    + rewrite !app_assoc. rewrite <- app_assoc.
      change (c_eq :: spaces (ch_eq_right ch) ++ c) with ((c_eq :: spaces (ch_eq_right ch)) ++ c).
      rewrite !app_assoc. now rewrite ends_ws_app.
    + now rewrite ends_ws_app.
  - destruct out as [o|].
    + rewrite !app_assoc. now rewrite ends_ws_app by discriminate.
    + destruct lab as [n|]; [|destruct Hne as [?|[?|?]]; congruence].
      rewrite !app_nil_r. pose proof (name_ends n Hwf).
      change (c_colon :: n) with ([c_colon] ++ n). rewrite ends_ws_app; [assumption|].
      destruct n; discriminate.
Qed.

Lemma trim_start_lead lead c x : forallb is_ws lead = true -> is_ws c = false ->
  trim_start (lead ++ c :: x) = c :: x.
Proof. intros Hl Hc. unfold trim_start. rewrite drop_ws_all by assumption. now apply drop_ws_nonws. Qed.

(* trimming a line whose body begins and ends with a non-white character, optionally followed by
   a comment: what is left is the body and a tail that the token scanner ignores *)
Lemma trim_line lead trail c0 r (cm : option (nat * str)) tl0 :
  forallb is_ws lead = true -> forallb is_ws trail = true ->
  is_ws c0 = false -> ends_ws (c0 :: r) = false ->
  tl0 = match cm with Some (k, txt) => spaces k ++ c_hash :: txt | None => [] end ->
  exists tl, is_tail tl /\ trim (lead ++ ((c0 :: r) ++ tl0) ++ trail) = (c0 :: r) ++ tl.
Proof.
  intros Hl Ht Hc He ->. unfold trim.
  destruct cm as [[k txt]|].
  - exists (spaces k ++ c_hash :: trim_end (txt ++ trail)). split; [right; eauto|].
    cbn [app]. rewrite trim_start_lead by assumption.
    rewrite <- !app_assoc. cbn [app].
    rewrite (app_assoc r).
    change (c0 :: (r ++ spaces k) ++ c_hash :: txt ++ trail) with ((c0 :: r ++ spaces k) ++ c_hash :: txt ++ trail).
    rewrite trim_end_mid by reflexivity. cbn [app]. now rewrite <- app_assoc.
  - exists []. split; [left; reflexivity|]. rewrite !app_nil_r.
    cbn [app]. rewrite trim_start_lead by assumption.
    change (c0 :: r ++ trail) with ((c0 :: r) ++ trail).
    now apply trim_end_keep.
Qed.

Lemma parse_line_of_trim s c t :
  trim s = c :: t -> (c =? c_hash) = false -> (c =? c_bang) = false ->
  parse_line s = parse_command_line (c :: t).
Proof. intros H H1 H2. unfold parse_line. now rewrite H, H1, H2. Qed.

Lemma valid_args_nil b chs : valid_args b [] chs = true -> chs = [].
Proof. destruct chs; [reflexivity|discriminate]. Qed.

Theorem render_line_parses i ch :
  wf i = true -> valid i ch = true -> parse_line (render_line i ch) = POk (norm i).
Proof.
  intros Hwf Hv. unfold valid in Hv.
  apply andb_true_iff in Hv as [Hv Hcm]. apply andb_true_iff in Hv as [Hv Hargs].
  apply andb_true_iff in Hv as [Hlead Htrail].
  apply ws_line_ws in Hlead, Htrail.
  assert (Hemp : (s_label i = None /\ s_output i = None /\ s_command i = None) \/
                 (s_label i <> None \/ s_output i <> None \/ s_command i <> None)).
  { destruct (s_label i), (s_output i), (s_command i); auto; right; try (left; discriminate);
      try (right; left; discriminate); right; right; discriminate. }
  destruct Hemp as [(El & Eo & Ec)|Hne].
  - (* nothing but white space and an optional comment *)
    assert (Ha : s_args i = []).
    { pose proof Hwf as H. unfold wf in H. rewrite Ec in H. apply andb_true_iff in H as [_ H].
      destruct (s_args i); [reflexivity|discriminate]. }
    rewrite Ha in Hargs. apply valid_args_nil in Hargs.
    unfold render_line, render_body, render_head, render_label, render_oc, render_comment, norm.
    rewrite El, Eo, Ec, Ha, Hargs. cbn [render_args app]. unfold parse_line, trim.
    destruct (ch_comment ch) as [[k txt]|].
    + unfold trim_start. rewrite drop_ws_all by assumption. rewrite <- app_assoc.
      rewrite drop_ws_all by apply spaces_ws. cbn [app]. rewrite drop_ws_nonws by reflexivity.
      pose proof (trim_end_mid [] c_hash (txt ++ ch_trail ch) eq_refl) as Hm. cbn [app] in Hm.
      rewrite Hm. reflexivity.
    + cbn [app]. unfold trim_start. rewrite drop_ws_only; [reflexivity|].
      rewrite forallb_app. now rewrite Hlead, Htrail.
  - destruct (head_first i ch Hwf Hne) as (c0 & r & Eh & Hw & Hh & Hb).
    assert (Hpre : exists r', render_head i ch ++ render_args (s_args i) (ch_args ch) = c0 :: r' /\
                              ends_ws (c0 :: r') = false).
    { rewrite Eh. cbn [app]. eexists. split; [reflexivity|].
      change (c0 :: r ++ render_args (s_args i) (ch_args ch)) with ((c0 :: r) ++ render_args (s_args i) (ch_args ch)).
      rewrite <- Eh. destruct (s_args i) as [|a args] eqn:Ea.
      - apply valid_args_nil in Hargs. rewrite Hargs. cbn [render_args]. rewrite app_nil_r.
        now apply head_ends.
      - destruct (ch_args ch) as [|ch0 chs] eqn:Ech; [discriminate|].
        rewrite ends_ws_app by apply render_args_nonempty.
        eapply render_args_ends; [eassumption|discriminate]. }
    destruct Hpre as (r' & Epre & Hends).
    destruct (trim_line (ch_lead ch) (ch_trail ch) c0 r' (ch_comment ch) (render_comment ch) Hlead Htrail Hw Hends eq_refl) as (tl & Htl & Etrim).
    unfold render_line, render_body.
    rewrite (app_assoc (render_head i ch)). rewrite Epre.
    rewrite (parse_line_of_trim _ c0 (r' ++ tl) Etrim Hh Hb).
    change (c0 :: r' ++ tl) with ((c0 :: r') ++ tl). rewrite <- Epre. rewrite <- app_assoc.
    apply body_parse; assumption.
Qed.

(* ---- lines ---------------------------------------------------------------------------------------- *)
Lemma drop_ws_app x w :
  drop_ws (x ++ w) = match drop_ws x with [] => drop_ws w | d => d ++ w end.
Proof.
  induction x as [|c x IH]; cbn [app drop_ws]; [destruct (drop_ws w); reflexivity|].
  destruct (is_ws c); [exact IH|reflexivity].
Qed.

Lemma trim_end_app_ws z w : forallb is_ws w = true -> trim_end (z ++ w) = trim_end z.
Proof.
  intros H. unfold trim_end. rewrite rev_app_distr. rewrite drop_ws_all; [reflexivity|now rewrite forallb_rev].
Qed.

Lemma trim_app_ws x w : forallb is_ws w = true -> trim (x ++ w) = trim x.
Proof.
  intros H. unfold trim, trim_start. rewrite drop_ws_app.
  destruct (drop_ws x) as [|d r] eqn:E.
  - now rewrite drop_ws_only.
  - now apply trim_end_app_ws.
Qed.

Lemma parse_line_trim_eq a b : trim a = trim b -> parse_line a = parse_line b.
Proof. intros H. unfold parse_line. now rewrite H. Qed.

Lemma parse_line_strip l : parse_line (strip_cr (rev l)) = parse_line l.
Proof.
  apply parse_line_trim_eq. unfold strip_cr. destruct (rev l) as [|c r] eqn:E.
  - apply (f_equal (@rev _)) in E. rewrite rev_involutive in E. now subst.
  - destruct (c =? c_cr) eqn:Ec.
    + apply N.eqb_eq in Ec. subst c. apply (f_equal (@rev _)) in E. rewrite rev_involutive in E.
      cbn [rev] in E. subst l. symmetry. now apply trim_app_ws.
    + rewrite <- E. now rewrite rev_involutive.
Qed.

Lemma lines_aux_lf l : forall rest cur, no_lf l = true ->
  lines_aux (l ++ c_lf :: rest) cur = strip_cr (rev l ++ cur) :: lines_aux rest [].
Proof.
  induction l as [|c l IH]; intros rest cur H.
  - reflexivity.
  - unfold no_lf in *. cbn [forallb] in H. apply andb_true_iff in H as [Hc Hl]. apply negb_true_iff in Hc.
    cbn [app lines_aux]. rewrite Hc. rewrite IH by assumption. cbn [rev]. now rewrite <- app_assoc.
Qed.

Lemma lines_aux_last l : no_lf l = true -> l <> [] -> lines_aux l [] = [l].
Proof.
  intros H Hne.
  assert (G : forall l cur, no_lf l = true -> lines_aux l cur =
                match rev l ++ cur with [] => [] | x => [rev x] end).
  { clear. induction l as [|c l IH]; intros cur H.
    - cbn. destruct cur; reflexivity.
    - unfold no_lf in *. cbn [forallb] in H. apply andb_true_iff in H as [Hc Hl]. apply negb_true_iff in Hc.
      cbn [lines_aux]. rewrite Hc. rewrite IH by assumption. cbn [rev]. now rewrite <- app_assoc. }
  rewrite G by assumption. rewrite app_nil_r.
  destruct (rev l) eqn:E.
  - apply (f_equal (@rev _)) in E. rewrite rev_involutive in E. cbn in E. congruence.
  - rewrite <- E. now rewrite rev_involutive.
Qed.

Lemma no_lf_app a b : no_lf (a ++ b) = no_lf a && no_lf b.
Proof. apply forallb_app. Qed.

(* the line that [lines] cuts off a rendered line with its terminator parses like the line *)
Lemma lines_item l e rest : no_lf l = true ->
  exists l', lines_aux ((l ++ eol_str e) ++ rest) [] = l' :: lines_aux rest [] /\ parse_line l' = parse_line l.
Proof.
  intros H. destruct e; cbn [eol_str].
  - rewrite <- app_assoc. cbn [app]. rewrite lines_aux_lf by assumption. eexists. split; [reflexivity|].
    rewrite app_nil_r. apply parse_line_strip.
  - replace ((l ++ [c_cr; c_lf]) ++ rest) with ((l ++ [c_cr]) ++ c_lf :: rest)
      by (rewrite <- !app_assoc; reflexivity).
    rewrite lines_aux_lf.
    + eexists. split; [reflexivity|]. rewrite app_nil_r, rev_app_distr. cbn [rev app strip_cr].
      change (c_cr =? c_cr) with true. cbv iota. now rewrite rev_involutive.
    + rewrite no_lf_app, H. reflexivity.
Qed.

(* ---- a rendered line contains no line feed ------------------------------------------------------- *)
Lemma no_lf_spaces n : no_lf (spaces n) = true.
Proof. induction n; cbn; auto. Qed.

Lemma name_no_lf s : name_ok s = true -> no_lf s = true.
Proof.
  destruct s as [|c0 s]; [discriminate|]. cbn [name_ok]. intros H. apply andb_true_iff in H as [_ H].
  unfold no_lf. rewrite forallb_forall in *. intros c Hc. specialize (H c Hc).
  destruct (name_char_facts c H) as (_ & _ & _ & Hw).
  destruct (c =? c_lf) eqn:E; [|reflexivity]. apply N.eqb_eq in E. subst. discriminate.
Qed.

Lemma ws_line_no_lf w : ws_line w = true -> no_lf w = true.
Proof.
  unfold ws_line, no_lf. rewrite !forallb_forall. intros H c Hc. specialize (H c Hc).
  now apply andb_true_iff in H as [_ H].
Qed.

Lemma esc_of_lf c x : esc_of c = Some x -> (x =? c_lf) = false.
Proof.
  unfold esc_of. repeat match goal with |- context [if ?b then _ else _] => destruct b end;
    intros H; inversion H; reflexivity.
Qed.

Lemma emit_no_lf s : forall es, (valid_q s es = true \/ valid_u s es = true) -> no_lf (emit_str s es) = true.
Proof.
  induction s as [|c s IH]; intros es H; [reflexivity|].
  cbn [emit_str]. rewrite no_lf_app. rewrite IH.
  2:{ destruct H as [H|H]; [left|right]; cbn in H; now apply andb_true_iff in H as [_ H]. }
  rewrite andb_true_r.
  assert (Hc : escaped c (hd false es) = true \/ (c =? c_lf) = false).
  { destruct H as [H|H]; cbn in H; apply andb_true_iff in H as [H _]; apply orb_true_iff in H as [H|H]; auto; right.
    - apply negb_true_iff in H. unfold special in H. apply orb_false_iff in H as [H _].
      now apply orb_false_iff in H as [_ H].
    - unfold raw_ok_u in H. apply negb_true_iff in H. do 3 (apply orb_false_iff in H as [H _]).
      now apply orb_false_iff in H as [_ H]. }
  unfold emit1, escaped in *. destruct (hd false es).
  - destruct (esc_of c) as [x|] eqn:E.
    + cbn. rewrite (esc_of_lf _ _ E). reflexivity.
    + destruct Hc as [Hc|Hc]; [discriminate|]. cbn. now rewrite Hc.
  - destruct Hc as [Hc|Hc]; [discriminate|]. cbn. now rewrite Hc.
Qed.

Lemma render_args_no_lf : forall args chs b, valid_args b args chs = true -> no_lf (render_args args chs) = true.
Proof.
  induction args as [|a args IH]; intros chs b H; destruct chs as [|ch chs]; try reflexivity.
  cbn [valid_args] in H. apply andb_true_iff in H as [Ha H].
  cbn [render_args]. rewrite !no_lf_app, no_lf_spaces, (IH _ _ H), andb_true_r. cbn [andb].
  unfold valid_arg, render_arg in *. destruct (a_quoted ch).
  - change (c_quote :: emit_str a (a_esc ch) ++ [c_quote]) with ([c_quote] ++ emit_str a (a_esc ch) ++ [c_quote]).
    rewrite !no_lf_app. rewrite emit_no_lf by auto. reflexivity.
  - apply andb_true_iff in Ha as [Ha _]. apply andb_true_iff in Ha as [Ha _]. apply emit_no_lf. auto.
Qed.

Lemma render_line_no_lf i ch : wf i = true -> valid i ch = true -> no_lf (render_line i ch) = true.
Proof.
  intros Hwf Hv. unfold valid in Hv.
  apply andb_true_iff in Hv as [Hv Hcm]. apply andb_true_iff in Hv as [Hv Hargs].
  apply andb_true_iff in Hv as [Hlead Htrail].
  unfold render_line, render_body, render_head. rewrite !no_lf_app.
  rewrite (ws_line_no_lf _ Hlead), (ws_line_no_lf _ Htrail), (render_args_no_lf _ _ _ Hargs).
  assert (H1 : no_lf (render_label i ch) = true).
  { unfold render_label. destruct (s_label i) as [n|] eqn:E; [|reflexivity].
    unfold wf in Hwf. rewrite E in Hwf. repeat (apply andb_true_iff in Hwf as [Hwf _]).
    change (c_colon :: n ++ match s_output i, s_command i with None, None => [] | _, _ => spaces (S (ch_label_gap ch)) end)
      with ([c_colon] ++ n ++ match s_output i, s_command i with None, None => [] | _, _ => spaces (S (ch_label_gap ch)) end).
    rewrite !no_lf_app, (name_no_lf _ Hwf). destruct (s_output i), (s_command i); rewrite ?no_lf_spaces; reflexivity. }
  assert (H2 : no_lf (render_oc i ch) = true).
  { unfold render_oc. unfold wf in Hwf. apply andb_true_iff in Hwf as [Hwf _]. apply andb_true_iff in Hwf as [Hwf _].
    apply andb_true_iff in Hwf as [Hwf Wc]. apply andb_true_iff in Hwf as [_ Wo].
    destruct (s_output i) as [o|], (s_command i) as [c|]; try reflexivity.
    - apply andb_true_iff in Wo as [Wo _]. apply andb_true_iff in Wc as [Wc _].
      change (c_eq :: spaces (ch_eq_right ch) ++ c) with ([c_eq] ++ spaces (ch_eq_right ch) ++ c).
      now rewrite !no_lf_app, !no_lf_spaces, (name_no_lf _ Wo), (name_no_lf _ Wc).
    - apply andb_true_iff in Wo as [Wo _].
      now rewrite !no_lf_app, !no_lf_spaces, (name_no_lf _ Wo).
    - apply andb_true_iff in Wc as [Wc _]. now apply name_no_lf. }
  rewrite H1, H2. cbn [andb].
  unfold render_comment. destruct (ch_comment ch) as [[k txt]|]; [|reflexivity].
  change (c_hash :: txt) with ([c_hash] ++ txt). now rewrite !no_lf_app, no_lf_spaces, Hcm.
Qed.

(* ---- scripts -------------------------------------------------------------------------------------- *)
Lemma preprocess_norm src ln i : preprocess no_include src ln (norm i) = TOk [].
Proof. unfold norm. destruct (s_label i), (s_output i), (s_command i); reflexivity. Qed.

Lemma parse_lines_items : forall items ln rest_text, forallb item_ok items = true ->
  parse_lines_from no_include None ln (lines_aux (concat (map render_item items) ++ rest_text) []) =
  match parse_lines_from no_include None (ln + N.of_nat (length items)) (lines_aux rest_text []) with
  | TOk rest => TOk (expect_from ln (map (fun x : item => fst (fst x)) items) ++ rest)
  | TErr e l s => TErr e l s
  end.
Proof.
  induction items as [|[[i ch] e] items IH]; intros ln rest_text H.
  - cbn [map concat app length expect_from]. replace (ln + N.of_nat 0) with ln by lia.
    destruct (parse_lines_from no_include None ln (lines_aux rest_text [])); reflexivity.
  - cbn [forallb item_ok] in H. apply andb_true_iff in H as [Hi H]. apply andb_true_iff in Hi as [Hwf Hv].
    cbn [map concat render_item]. rewrite <- app_assoc.
    destruct (lines_item (render_line i ch) e (concat (map render_item items) ++ rest_text)
                (render_line_no_lf i ch Hwf Hv)) as (l' & El & Ep).
    rewrite El. cbn [parse_lines_from]. rewrite Ep, (render_line_parses i ch Hwf Hv), preprocess_norm.
    rewrite IH by assumption. cbn [length].
    assert (EN : ln + 1 + N.of_nat (length items) = ln + N.of_nat (S (length items))) by (rewrite Nat2N.inj_succ; lia).
    rewrite EN.
    destruct (parse_lines_from no_include None (ln + N.of_nat (S (length items))) (lines_aux rest_text []));
      reflexivity.
Qed.

Lemma expect_from_app a b ln :
  expect_from ln (a ++ b) = expect_from ln a ++ expect_from (ln + N.of_nat (length a)) b.
Proof.
  revert ln. induction a as [|x a IH]; intros ln; cbn [app expect_from length].
  - now replace (ln + N.of_nat 0) with ln by lia.
  - rewrite IH. assert (EN : ln + 1 + N.of_nat (length a) = ln + N.of_nat (S (length a))) by (rewrite Nat2N.inj_succ; lia).
    now rewrite EN.
Qed.

Theorem render_script_parses items last :
  forallb item_ok items = true -> last_ok last = true ->
  parse_text (render_script items last) = TOk (expect_from 1 (script_instrs items last)).
Proof.
  intros Hi Hl. unfold parse_text, parse_text_src, lines, render_script, script_instrs.
  rewrite parse_lines_items by assumption. rewrite expect_from_app, map_length.
  destruct last as [[i ch]|].
  - cbn [last_ok] in Hl. apply andb_true_iff in Hl as [Hl Hne]. apply andb_true_iff in Hl as [Hwf Hv].
    rewrite lines_aux_last; [|now apply render_line_no_lf|destruct (render_line i ch); [discriminate|discriminate]].
    cbn [parse_lines_from]. rewrite (render_line_parses i ch Hwf Hv), preprocess_norm. reflexivity.
  - reflexivity.
Qed.

(* ---- non-vacuity: a line using every feature of the syntax is in the domain ---------------------- *)
Definition ex_instr : sinstr :=
  {| s_label := Some [108]; s_output := Some [111]; s_command := Some [99];
     s_args := [[]; [97; c_sp; 98]; [120; c_quote; 121; c_lf]; [c_eq; c_hash]] |}.
Definition ex_choices : choices :=
  {| ch_lead := [c_tab]; ch_trail := [c_sp; c_cr]; ch_label_gap := 1; ch_eq_left := 0; ch_eq_right := 2;
     ch_args := [ {| a_gap := 0; a_quoted := true; a_esc := [] |};
                  {| a_gap := 2; a_quoted := true; a_esc := [true; false; false] |};
                  {| a_gap := 0; a_quoted := false; a_esc := [false; true; false; true] |};
                  {| a_gap := 0; a_quoted := true; a_esc := [] |} ];
     ch_comment := Some (1%nat, [c_sp; c_quote; c_bs]) |}.
(*  TAB :l  o=  c "" "a b" x[bs][quote]y[bs]n "=#" # [quote][bs] SP CR  *)
Lemma ex_in_domain :
  wf ex_instr = true /\ valid ex_instr ex_choices = true /\
  render_line ex_instr ex_choices =
    [9; 58;108; 32;32; 111; 61; 32;32; 99; 32; 34;34; 32;32;32; 34;97;32;98;34; 32; 120;92;34;121;92;110;
     32; 34;61;35;34; 32; 35; 32;34;92; 32;13].
Proof. vm_compute. repeat split; reflexivity. Qed.
